"""symx: a small decision-replay symbolic executor.

The *real* pdfminer functions run natively in CPython; only the values are proxies
over z3 terms.  `bool()` of a symbolic comparison asks z3 which outcomes are
feasible under the current path condition and forks (depth-first, by re-running the
harness with a recorded decision trail).  Verdicts:

  confirmed        every feasible path ran to the end and the negated property was
                   unsat on each of them (within the harness bounds)
  counterexample   a path violated the property; a z3 model is returned
  budget           time / path budget exhausted before all paths were explored
  unsupported      the code did something the proxies cannot model -> inconclusive

Numbers: Python int -> z3 Int, Python float -> z3 Real (rounding is outside every
claim).  Float literals met in the code are read by their shortest repr.
"""
import time
from fractions import Fraction

import z3


class Abort(BaseException):
    """path infeasible / pruned by an assumption"""


class Unsupported(BaseException):
    """the real code left the modelled fragment: verdict is inconclusive"""


class _Cut(BaseException):
    """prefix enumeration reached its fork depth"""


class Violation(Exception):
    """raised by a harness oracle when the property fails on the current path"""

    def __init__(self, msg, **info):
        Exception.__init__(self, msg)
        self.info = info


_cur = None
PATH_START_HOOKS = []      # callables run before every path (e.g. restoring intern tables the code under test mutates)


def cur():
    return _cur


# --------------------------------------------------------------------------- reals
def zr(x):
    """python/proxy number -> z3 Real term"""
    if isinstance(x, SV):
        return x.e
    if isinstance(x, SI):
        return z3.ToReal(x.e)
    if isinstance(x, bool):
        return z3.RealVal(int(x))
    if isinstance(x, int):
        return z3.RealVal(x)
    if isinstance(x, float):
        if x != x or x in (float("inf"), float("-inf")):
            raise Unsupported("nan/inf in arithmetic")
        f = Fraction(repr(x))
        return z3.RealVal(f.numerator) / z3.RealVal(f.denominator) if f.denominator != 1 else z3.RealVal(f.numerator)
    if isinstance(x, Fraction):
        return z3.RealVal(x.numerator) / z3.RealVal(x.denominator)
    if isinstance(x, z3.ArithRef):
        return z3.ToReal(x) if x.is_int() else x
    raise Unsupported("real arithmetic with %s" % type(x).__name__)


class SB:
    """symbolic boolean; bool() forks"""
    __slots__ = ("e",)

    def __init__(self, e):
        self.e = e

    def __bool__(self):
        return _cur.decide(self.e)

    def __and__(self, o):
        return SB(z3.And(self.e, o.e if isinstance(o, SB) else z3.BoolVal(bool(o))))

    __rand__ = __and__

    def __or__(self, o):
        return SB(z3.Or(self.e, o.e if isinstance(o, SB) else z3.BoolVal(bool(o))))

    __ror__ = __or__

    def __invert__(self):
        return SB(z3.Not(self.e))

    def __eq__(self, o):
        if isinstance(o, SB):
            return SB(self.e == o.e)
        if isinstance(o, bool):
            return self if o else SB(z3.Not(self.e))
        return False

    def __hash__(self):
        raise Unsupported("hash(SB)")

    def __repr__(self):
        return "SB(%s)" % self.e


def zb(x):
    if isinstance(x, SB):
        return x.e
    return z3.BoolVal(bool(x))


class SV(float):
    """symbolic real; a float subclass whose C payload is NaN, so that a silent
    C-level use of the value poisons the result instead of going unnoticed"""

    def __new__(cls, e):
        o = float.__new__(cls, float("nan"))
        o.e = e
        return o

    def __init__(self, e):
        pass

    def _b(self, o, f):
        try:
            return SV(z3.simplify(f(self.e, zr(o))))
        except Unsupported:
            return NotImplemented

    def _r(self, o, f):
        try:
            return SV(z3.simplify(f(zr(o), self.e)))
        except Unsupported:
            return NotImplemented

    def __add__(s, o): return s._b(o, lambda a, b: a + b)
    def __radd__(s, o): return s._r(o, lambda a, b: a + b)
    def __sub__(s, o): return s._b(o, lambda a, b: a - b)
    def __rsub__(s, o): return s._r(o, lambda a, b: a - b)
    def __mul__(s, o): return s._b(o, lambda a, b: a * b)
    def __rmul__(s, o): return s._r(o, lambda a, b: a * b)

    def __truediv__(s, o):
        try:
            d = zr(o)
        except Unsupported:
            return NotImplemented
        if not SB(d != 0):
            raise ZeroDivisionError("float division by zero")
        return SV(z3.simplify(s.e / d))

    def __rtruediv__(s, o):
        if not SB(s.e != 0):
            raise ZeroDivisionError("float division by zero")
        return s._r(o, lambda a, b: a / b)

    def __neg__(s): return SV(z3.simplify(-s.e))
    def __pos__(s): return s
    def __abs__(s): return SV(z3.If(s.e >= 0, s.e, -s.e))
    def __lt__(s, o): return SB(s.e < zr(o))
    def __le__(s, o): return SB(s.e <= zr(o))
    def __gt__(s, o): return SB(s.e > zr(o))
    def __ge__(s, o): return SB(s.e >= zr(o))

    def __eq__(s, o):
        try:
            return SB(s.e == zr(o))
        except Unsupported:
            return False

    def __ne__(s, o):
        try:
            return SB(s.e != zr(o))
        except Unsupported:
            return True

    def __bool__(s):
        return bool(SB(s.e != 0))

    def __hash__(s):
        raise Unsupported("hash of symbolic real")

    def __floor__(s):
        return SI(z3.ToInt(s.e))

    def __ceil__(s):
        return SI(-z3.ToInt(-s.e))

    def __trunc__(s):
        return SI(z3.If(s.e >= 0, z3.ToInt(s.e), -z3.ToInt(-s.e)))

    def __round__(s, n=None):
        raise Unsupported("round() of symbolic real")

    def __floordiv__(s, o):
        try:
            d = zr(o)
        except Unsupported:
            return NotImplemented
        if not SB(d != 0):
            raise ZeroDivisionError
        return SV(z3.ToReal(z3.ToInt(s.e / d)))

    def __rfloordiv__(s, o):
        if not SB(s.e != 0):
            raise ZeroDivisionError
        return SV(z3.ToReal(z3.ToInt(zr(o) / s.e)))

    def __mod__(s, o):
        raise Unsupported("% on symbolic real")

    def __pow__(s, o):
        if isinstance(o, int) and not isinstance(o, bool) and 0 <= o <= 4:
            r = SV(z3.RealVal(1))
            for _ in range(o):
                r = r * s
            return r
        raise Unsupported("** on symbolic real")

    def is_integer(s):
        return SB(z3.IsInt(s.e))

    def __repr__(s): return "SV(%s)" % s.e
    __str__ = __repr__

    def __format__(s, spec):
        return "SV(%s)" % s.e

    def __reduce__(s):
        raise Unsupported("pickle of symbolic real")


# ------------------------------------------------------------------------ integers
def zi(x):
    if isinstance(x, SI):
        return x.e
    if isinstance(x, bool):
        return z3.IntVal(int(x))
    if isinstance(x, int):
        return z3.IntVal(x)
    raise Unsupported("int arithmetic with %s" % type(x).__name__)


class SI:
    """symbolic integer.  C-level consumers (__index__, hash) concretise by forking
    over the declared bounded domain."""
    __slots__ = ("e", "tz", "ub")

    def __init__(self, e, tz=0, ub=None):
        self.e = e
        self.tz = tz        # number of low bits known to be zero (set by <<)
        self.ub = ub        # value known to lie in [0, 2**ub) (set by & mask)

    def _b(s, o, f):
        if isinstance(o, SV):
            return NotImplemented
        if isinstance(o, float):
            return SV(s._real())._b(o, f)
        try:
            return SI(z3.simplify(f(s.e, zi(o))))
        except Unsupported:
            return NotImplemented

    def _r(s, o, f):
        if isinstance(o, float) and not isinstance(o, SV):
            return SV(z3.simplify(f(zr(o), s._real())))
        try:
            return SI(z3.simplify(f(zi(o), s.e)))
        except Unsupported:
            return NotImplemented

    def _real(s):
        return z3.ToReal(s.e)

    def __add__(s, o): return s._b(o, lambda a, b: a + b)
    def __radd__(s, o): return s._r(o, lambda a, b: a + b)
    def __sub__(s, o): return s._b(o, lambda a, b: a - b)
    def __rsub__(s, o): return s._r(o, lambda a, b: a - b)
    def __mul__(s, o): return s._b(o, lambda a, b: a * b)
    def __rmul__(s, o): return s._r(o, lambda a, b: a * b)

    def __floordiv__(s, o):
        d = zi(o)
        if isinstance(o, int):
            if o == 0:
                raise ZeroDivisionError
            if o > 0:
                return SI(z3.simplify(s.e / d))          # euclidean == floor for positive divisor
            return SI(z3.simplify((-s.e) / (-d)))        # floor(a/b) = floor(-a/-b)
        if not SB(d != 0):
            raise ZeroDivisionError
        return SI(z3.If(d > 0, s.e / d, (-s.e) / (-d)))

    def __rfloordiv__(s, o):
        if not SB(s.e != 0):
            raise ZeroDivisionError
        n = zi(o)
        return SI(z3.If(s.e > 0, n / s.e, (-n) / (-s.e)))

    def __mod__(s, o):
        d = zi(o)
        if isinstance(o, int):
            if o == 0:
                raise ZeroDivisionError
            if o > 0:
                return SI(z3.simplify(s.e % d))
            return SI(z3.simplify(-((-s.e) % (-d))))
        if not SB(d != 0):
            raise ZeroDivisionError
        return SI(z3.If(d > 0, s.e % d, -((-s.e) % (-d))))

    def __rmod__(s, o):
        if not SB(s.e != 0):
            raise ZeroDivisionError
        n = zi(o)
        return SI(z3.If(s.e > 0, n % s.e, -((-n) % (-s.e))))

    def __truediv__(s, o):
        return SV(s._real()).__truediv__(o)

    def __rtruediv__(s, o):
        return SV(s._real()).__rtruediv__(o)

    def __and__(s, o):
        if isinstance(o, int) and o >= 0 and (o & (o + 1)) == 0:     # x & (2**k - 1)
            return SI(z3.simplify(s.e % (o + 1)), ub=o.bit_length())
        if isinstance(o, int) and o > 0 and (o & (o - 1)) == 0:      # x & 2**k: one bit (two's complement, also for negative x)
            return SI(z3.simplify(((s.e / o) % 2) * o), ub=o.bit_length())
        return s._bv(o, lambda a, b: a & b)

    __rand__ = __and__

    def _bv(s, o, f, width=40):
        """bitwise operation on non-negative values below 2**width through bit-vectors"""
        a, b = s.e, zi(o)
        if not _cur.holds(SB(z3.And(a >= 0, b >= 0, a < 2 ** width, b < 2 ** width))):
            raise Unsupported("bitwise operation on a possibly negative or large symbolic int")
        return SI(z3.BV2Int(f(z3.Int2BV(a, width), z3.Int2BV(b, width)), False))

    def __or__(s, o):
        # (x << k) | y with 0 <= y < 2**k is x * 2**k + y
        if isinstance(o, int) and not isinstance(o, bool):
            if o == 0:
                return s
            if s.tz and 0 <= o < (1 << s.tz):
                return SI(z3.simplify(s.e + o))
            if s.ub is not None and o >= 0 and o % (1 << s.ub) == 0:
                return SI(z3.simplify(s.e + o))
        if isinstance(o, SI):
            if s.tz and o.ub is not None and o.ub <= s.tz:
                return SI(z3.simplify(s.e + o.e))
            if o.tz and s.ub is not None and s.ub <= o.tz:
                return SI(z3.simplify(s.e + o.e))
        return s._bv(o, lambda a, b: a | b)

    __ror__ = __or__

    def __xor__(s, o):
        if isinstance(o, int) and not isinstance(o, bool) and o >= 0:
            # x ^ constant, bit by bit in linear arithmetic (x must be known to lie in [0, 2**w))
            w = max(8, o.bit_length(), s.ub or 0)
            if _cur.holds(SB(z3.And(s.e >= 0, s.e < 2 ** w))):
                t = z3.IntVal(0)
                for i in range(w):
                    b = (s.e / (2 ** i)) % 2
                    t = t + (((1 - b) if (o >> i) & 1 else b) * (2 ** i))
                return SI(z3.simplify(t), ub=w)
        return s._bv(o, lambda a, b: a ^ b)

    __rxor__ = __xor__

    def __lshift__(s, o):
        if isinstance(o, int) and o >= 0:
            return SI(z3.simplify(s.e * (1 << o)), tz=s.tz + o)
        raise Unsupported("<< on symbolic int")

    def __rshift__(s, o):
        if isinstance(o, int) and o >= 0:
            return SI(z3.simplify(s.e / (1 << o)))
        raise Unsupported(">> on symbolic int")

    def __neg__(s): return SI(z3.simplify(-s.e))
    def __pos__(s): return s
    def __abs__(s): return SI(z3.If(s.e >= 0, s.e, -s.e))

    def _cmp(s, o, f):
        if isinstance(o, (SV, float)):
            return SB(f(s._real(), zr(o)))
        return SB(f(s.e, zi(o)))

    def __lt__(s, o): return s._cmp(o, lambda a, b: a < b)
    def __le__(s, o): return s._cmp(o, lambda a, b: a <= b)
    def __gt__(s, o): return s._cmp(o, lambda a, b: a > b)
    def __ge__(s, o): return s._cmp(o, lambda a, b: a >= b)

    def __eq__(s, o):
        try:
            return s._cmp(o, lambda a, b: a == b)
        except Unsupported:
            return False

    def __ne__(s, o):
        try:
            return s._cmp(o, lambda a, b: a != b)
        except Unsupported:
            return True

    def __bool__(s): return bool(SB(s.e != 0))
    def __index__(s): return _cur.concretize(s.e)
    __int__ = __index__

    def __float__(s):
        raise Unsupported("float(SI) at C level")

    def __hash__(s): return hash(s.__index__())
    def __repr__(s): return "SI(%s)" % s.e


def sym_int(x, *a):
    """namespace shim for int(): identity/trunc on proxies"""
    if isinstance(x, SV):
        return x.__trunc__()
    if isinstance(x, SI):
        return x
    return int(x, *a)


def sym_float(x=0.0):
    if isinstance(x, SV):
        return x
    if isinstance(x, SI):
        return SV(z3.ToReal(x.e))
    return float(x)


def sym_range(*args):
    return range(*[a.__index__() if isinstance(a, SI) else (_cur.concretize(z3.ToInt(a.e)) if isinstance(a, SV) else a) for a in args])


def sym_abs(x):
    return abs(x)


def poly_equal(x, y):
    """True when x - y normalises to 0 as a polynomial (sum-of-monomials simplification): lets polynomial identities be
    discharged syntactically instead of by non-linear solver queries"""
    try:
        d = z3.simplify(zr(x) - zr(y), som=True)
    except Unsupported:
        return False
    return z3.is_rational_value(d) and d.numerator_as_long() == 0


def ite(c, a, b):
    """non-forking if-then-else over proxies (for oracles: they must not branch)"""
    c = zb(c)
    if isinstance(a, (SV, float, Fraction)) or isinstance(b, (SV, float, Fraction)):
        return SV(z3.If(c, zr(a), zr(b)))
    return SI(z3.If(c, zi(a), zi(b)))


def smin(a, b):
    return ite(SB(zr(a) <= zr(b)), a, b)


def smax(a, b):
    return ite(SB(zr(a) >= zr(b)), a, b)


# ------------------------------------------------------------------------ explorer
def _zero_product(e):
    """x*y*.. == 0  ->  x == 0 or y == 0 or ..  (keeps the solver out of non-linear reasoning for zero tests)"""
    if z3.is_not(e):
        r = _zero_product(e.arg(0))
        return e if r is e.arg(0) else z3.Not(r)
    if z3.is_eq(e) and e.num_args() == 2:
        a, b = e.arg(0), e.arg(1)
        if z3.is_mul(b) and z3.is_rational_value(a):
            a, b = b, a
        if z3.is_mul(a) and z3.is_rational_value(b) and b.numerator_as_long() == 0:
            fs = [x for x in a.children() if not z3.is_rational_value(x)]
            if any(z3.is_rational_value(x) and x.numerator_as_long() == 0 for x in a.children()):
                return z3.BoolVal(True)
            if fs:
                return z3.Or([x == 0 for x in fs]) if len(fs) > 1 else (fs[0] == 0)
    return e


_AC_KINDS = {z3.Z3_OP_AND, z3.Z3_OP_OR, z3.Z3_OP_ADD, z3.Z3_OP_MUL, z3.Z3_OP_EQ, z3.Z3_OP_DISTINCT, z3.Z3_OP_IFF, z3.Z3_OP_XOR}
_NAMED_KINDS = {z3.Z3_OP_UNINTERPRETED, z3.Z3_OP_ANUM, z3.Z3_OP_AGNUM}


def _canon(e, memo):
    """structural fingerprint of a term that does not depend on the order of the arguments of commutative operators: z3.simplify
    orders those by AST id, which differs from one execution of the code under test to the next, so neither the AST id nor a plain
    structural hash identifies 'the same decision' across replays.  Iterative (digest chains nest thousands deep); memo: id -> (hash, term)."""
    stack = [e]
    while stack:
        t = stack[-1]
        k = t.get_id()
        if k in memo:
            stack.pop()
            continue
        if not z3.is_app(t):
            memo[k] = (hash(("q", str(t))), t)
            stack.pop()
            continue
        ch = t.children()
        todo = [c for c in ch if c.get_id() not in memo]
        if todo:
            stack.extend(todo)
            continue
        d = t.decl()
        kind = d.kind()
        if not ch:
            if kind == z3.Z3_OP_UNINTERPRETED:
                h = hash(("const", d.name()))
            elif kind in (z3.Z3_OP_ANUM, z3.Z3_OP_AGNUM):
                h = hash(("num", z3.Z3_get_numeral_string(t.ctx_ref(), t.as_ast())))
            else:
                h = hash(("leaf", kind, d.name()))
        else:
            hs = [memo[c.get_id()][0] for c in ch]
            if kind in _AC_KINDS:
                hs.sort()
            h = hash((kind, d.name() if kind in _NAMED_KINDS else "", tuple(hs)))
        memo[k] = (h, t)
        stack.pop()
    return memo[e.get_id()][0]


def _shape(e):
    """fingerprint of a decision for replay-divergence detection (see _canon)"""
    return _canon(e, _cur.canon_memo)


class Explorer:
    def __init__(self, max_paths=10**9, timeout=300.0, int_lo=-64, int_hi=64, logic=None, sample_paths=3):
        self.s = z3.SolverFor(logic) if logic else z3.Solver()
        self.s.set("timeout", 30000)      # one query: 30 s, then `unknown` -> the job is inconclusive
        self.max_paths = max_paths
        self.timeout = timeout
        self.paths = 0
        self.reached = 0
        self.aborted = 0
        self.queries = 0
        self.decisions = 0
        self.solver_s = 0.0
        self.int_lo, self.int_hi = int_lo, int_hi
        self.samples = []
        self.sample_paths = sample_paths
        self.n = 0
        self.last_info = None
        self.depth_limit = None        # set while enumerating decision prefixes for partitioning
        self.forced = {}               # choice name -> fixed value (used to partition a harness over jobs)
        self.path_hook = None          # called (ex) at the end of each completed path (concolic self-check)
        self.validated = 0
        self.notes = []
        self.canon_memo = {}

    # -- fresh symbols -----------------------------------------------------------
    def _name(self, name):
        return name

    def real(self, name, lo=None, hi=None):
        v = z3.Real(name)
        if lo is not None:
            self.s.add(v >= lo)
        if hi is not None:
            self.s.add(v <= hi)
        return SV(v)

    def int(self, name, lo=None, hi=None):
        v = z3.Int(name)
        if lo is not None:
            self.s.add(v >= lo)
        if hi is not None:
            self.s.add(v <= hi)
        return SI(v)

    def bool(self, name):
        return SB(z3.Bool(name))

    def choice(self, n, name):
        """a symbolic choice in range(n), concretised at once by forking"""
        if n <= 1:
            return 0
        if name in self.forced:
            return self.forced[name]
        v = z3.Int(name)
        self.s.add(v >= 0, v < n)
        lo, hi = 0, n - 1
        while lo < hi:
            mid = (lo + hi) // 2
            if self.decide(v <= mid):
                hi = mid
            else:
                lo = mid + 1
        return lo

    def flag(self, name):
        return self.choice(2, name) == 1

    # -- solver ------------------------------------------------------------------
    def _check(self, *extra):
        t = time.time()
        r = self.s.check(*extra)
        self.solver_s += time.time() - t
        self.queries += 1
        if r == z3.unknown:
            raise Unsupported("solver answered unknown: %s" % self.s.reason_unknown())
        return r

    def assume(self, c):
        if isinstance(c, SB):
            e = z3.simplify(c.e)
            if z3.is_true(e):
                return
            self.s.add(e)
            if z3.is_false(e) or self._check() != z3.sat:
                raise Abort()
        elif not c:
            raise Abort()

    def decide(self, e):
        e = _zero_product(z3.simplify(e))
        if z3.is_true(e):
            return True
        if z3.is_false(e):
            return False
        k = _canon(e, self.canon_memo)          # not the AST id: see _canon
        c = self.cache.get(k)
        if c is not None:
            return c
        r = self._decide(e, k)
        self.cache[k] = r
        ne = z3.simplify(z3.Not(e))
        self.cache[_canon(ne, self.canon_memo)] = not r
        self.cache[hash((z3.Z3_OP_NOT, "", (k,)))] = not r
        return r

    def _decide(self, e, fp=None):
        if fp is None:
            fp = _canon(e, self.canon_memo)
        i = self.pos
        self.pos += 1
        self.decisions += 1
        if i < len(self.trail):
            v = self.trail[i][0]
            if self.trail[i][2] is not None and self.trail[i][2] != fp:
                raise Unsupported("replay diverged: the code under test is not deterministic")
        else:
            can_t = self._check(e) == z3.sat
            if can_t:
                can_f = self._check(z3.Not(e)) == z3.sat
            else:
                can_f = True       # the path condition itself is sat (invariant), so the other side is
            if can_t and can_f:
                if self.depth_limit is not None and sum(1 for t in self.trail if len(t) > 3) >= self.depth_limit:
                    raise _Cut()
                self.trail.append([True, True, fp, "fork"])
            elif can_t:
                self.trail.append([True, False, fp])
            else:
                self.trail.append([False, False, fp])
            v = self.trail[i][0]
        self.s.add(e if v else z3.Not(e))
        return v

    def concretize(self, e):
        """value of a z3 Int term, by forking over [int_lo, int_hi]"""
        e = z3.simplify(e)
        if z3.is_int_value(e):
            return e.as_long()
        lo, hi = self.int_lo, self.int_hi
        if not self.decide(z3.And(e >= lo, e <= hi)):
            raise Unsupported("symbolic int outside the concretisation bound [%d,%d]" % (lo, hi))
        while lo < hi:
            mid = (lo + hi) // 2
            if self.decide(e <= mid):
                hi = mid
            else:
                lo = mid + 1
        return lo

    def holds(self, c):
        """is c true on every input of the current path? (non-forking)"""
        e = z3.simplify(zb(c))
        if z3.is_true(e):
            return True
        if z3.is_false(e):
            return False
        return self._check(z3.Not(e)) == z3.unsat

    def require(self, cond__, msg, **info):
        """oracle assertion: the property demands cond__ on every input of this path"""
        self.reached_flag = True
        self.last_info = info
        e = z3.simplify(zb(cond__))
        if z3.is_true(e):
            return
        if not z3.is_false(e):
            if self._check(z3.Not(e)) == z3.unsat:
                return
            self.s.add(z3.Not(e))
        raise Violation(msg, **info)

    def model(self, prefer=()):
        """a model of the current path condition; `prefer` are soft constraints tried greedily"""
        for p in prefer:
            self.s.push()
            self.s.add(p)
            if self.s.check() == z3.sat:
                continue            # keep it (popped wholesale by run())
            self.s.pop()
        assert self.s.check() == z3.sat
        return self.s.model()

    # -- main loop ---------------------------------------------------------------
    def run(self, fn, share=None, depth=9):
        """fn(ex) runs the real code on proxies and calls ex.require(...).  returns (verdict, info).
        share=(k, n): explore only the k-th of n slices of the path tree.  The slices are the subtrees below the
        decision prefixes that reach `depth` two-sided forks (enumerated by a cheap first pass, identical in every
        job), dealt round-robin - an exact partition of the set of paths."""
        global _cur
        _cur = self
        self.t0 = time.time()
        if share is None:
            return self._run_from(fn, [])
        k, n = share
        self.depth_limit = depth
        self.prefixes = []
        r = self._run_from(fn, [])
        self.depth_limit = None
        if r[0] != "confirmed":
            return r
        mine = self.prefixes[k::n]
        self.notes.append("partition: %d prefixes at fork depth %d, this job explores %d" % (len(self.prefixes), depth, len(mine)))
        for pre in mine:
            r = self._run_from(fn, pre)
            if r[0] != "confirmed":
                return r
        return ("confirmed", {})

    def _run_from(self, fn, prefix):
        self.trail = [[v, False, f] for v, f in prefix]
        t0 = self.t0
        base = self.s.num_scopes()
        while True:
            self.pos = 0
            self.s.push()
            self.cache = {}
            self._keep = []
            # per path: the memo keeps its terms alive (an AST id must not be reused while an entry exists), and z3.simplify's ite rewrites look at
            # reference counts - a memo kept across paths made the simplified form of a condition differ between the first execution and its replays
            self.canon_memo = {}
            self.reached_flag = False
            self.n += 1
            for h in PATH_START_HOOKS:
                h()
            try:
                fn(self)
                if self.depth_limit is not None:
                    raise _Cut()
                self.paths += 1
                if self.reached_flag:
                    self.reached += 1
                if len(self.samples) < self.sample_paths and self.trail:
                    try:
                        m = self.s.model() if self.s.check() == z3.sat else None
                        if m is not None:
                            self.samples.append({str(d): str(m[d])[:120] for d in m.decls() if d.arity() == 0})      # constants only (not the interpretations of uninterpreted functions)
                    except z3.Z3Exception:
                        pass
                if self.path_hook is not None:
                    self.path_hook(self)
            except Abort:
                self.aborted += 1
            except _Cut:
                self.prefixes.append([(t[0], t[2]) for t in self.trail[:self.pos]])
            except Violation as v:
                if self.depth_limit is not None:      # enumeration pass: the main pass will meet it again
                    self.prefixes.append([(t[0], t[2]) for t in self.trail[:self.pos]])
                    while self.s.num_scopes() > base:
                        self.s.pop()
                    del self.trail[self.pos:]
                    while self.trail and not self.trail[-1][1]:
                        self.trail.pop()
                    if not self.trail:
                        return ("confirmed", {})
                    self.trail[-1] = [not self.trail[-1][0], False, self.trail[-1][2]] + self.trail[-1][3:]
                    continue
                info = dict(v.info)
                info["message"] = str(v)
                try:
                    info["model"] = self.model(info.pop("prefer", ()))
                except AssertionError:
                    info["model"] = None
                while self.s.num_scopes() > base:
                    self.s.pop()
                return ("counterexample", info)
            except Unsupported as u:
                while self.s.num_scopes() > base:
                    self.s.pop()
                return ("unsupported", {"message": str(u)})
            while self.s.num_scopes() > base:
                self.s.pop()
            # backtrack: drop decisions beyond the ones consumed, flip the deepest open one
            del self.trail[self.pos:]
            while self.trail and not self.trail[-1][1]:
                self.trail.pop()
            if not self.trail:
                return ("confirmed", {})
            self.trail[-1] = [not self.trail[-1][0], False, self.trail[-1][2]] + self.trail[-1][3:]
            if self.paths + self.aborted >= self.max_paths or time.time() - t0 > self.timeout:
                return ("budget", {"message": "budget exhausted after %d paths, %.0f s" % (self.paths, time.time() - t0)})

    def stats(self):
        return {"paths": self.paths, "paths_reaching_assertion": self.reached, "aborted_paths": self.aborted,
                "queries": self.queries, "decisions": self.decisions, "solver_s": round(self.solver_s, 3),
                "traces_validated": self.validated}


def mval(model, x):
    """concrete python value (int / Fraction / bool) of a proxy or z3 term under a model"""
    if isinstance(x, (SV, SI, SB)):
        x = x.e
    if not isinstance(x, z3.ExprRef):
        return x
    v = model.eval(x, model_completion=True)
    if z3.is_int_value(v):
        return v.as_long()
    if z3.is_rational_value(v):
        return Fraction(v.numerator_as_long(), v.denominator_as_long())
    if z3.is_true(v):
        return True
    if z3.is_false(v):
        return False
    if z3.is_algebraic_value(v):
        return Fraction(v.approx(20).numerator_as_long(), v.approx(20).denominator_as_long())
    raise Unsupported("cannot read model value %s" % v)
