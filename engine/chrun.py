"""E1: CrossHair runner.  One `crosshair check` process per contract function; the verdict line is parsed:

  "Confirmed over all paths"            -> confirmed_all_paths
  "false when calling f(args)" / "Exc: ... when calling f(args)"  -> counterexample (args parsed back into Python values)
  "Not confirmed"                        -> no_counterexample_budget_exhausted
  "Unable to meet precondition" / other  -> inconclusive
"""
import ast
import inspect
import os
import re
import subprocess
import sys
import time

ROOT = os.path.dirname(os.path.dirname(os.path.abspath(__file__)))
CROSSHAIR = os.path.join(ROOT, ".venv", "bin", "crosshair")


def parse_call(text, fname):
    """'f(1, 'a', x=[2])' -> {'args': [...], 'kwargs': {...}} via ast.literal_eval"""
    i = text.find(fname + "(")
    if i < 0:
        return None
    depth = 0
    j = i + len(fname)
    for k in range(j, len(text)):
        if text[k] == "(":
            depth += 1
        elif text[k] == ")":
            depth -= 1
            if depth == 0:
                call = text[i:k + 1]
                break
    else:
        return None
    try:
        node = ast.parse(call, mode="eval").body
        args = [ast.literal_eval(a) for a in node.args]
        kwargs = {k.arg: ast.literal_eval(k.value) for k in node.keywords}
        return {"args": args, "kwargs": kwargs}
    except Exception:
        return None


def run(harness, module, funcname, timeout, functions=(), bounds=None, assumptions=()):
    from lib import core
    fn = getattr(module, funcname)
    line = inspect.getsourcelines(fn)[1] + 1
    path = inspect.getsourcefile(module)
    env = dict(os.environ, PYTHONPATH=(os.environ["VERIF_REPO"] + os.pathsep if os.environ.get("VERIF_REPO") else "") + ROOT, PYTHONHASHSEED="0")
    t0 = time.time()
    try:
        p = subprocess.run([CROSSHAIR, "check", "--report_all", "--per_condition_timeout", str(int(timeout)), "%s:%d" % (path, line)],
                           capture_output=True, text=True, env=env, cwd=ROOT, timeout=timeout * 2 + 60)
        out = (p.stdout + p.stderr).strip()
    except subprocess.TimeoutExpired:
        out = "timeout"
    wall = round(time.time() - t0, 2)
    stats = {"paths": 0, "queries": 0, "decisions": 0, "wall_s": wall, "traces_validated": 0}
    m = re.search(r"(\d+) paths", out)
    verdict, msg, cex = "inconclusive", out[-400:], None
    if "Confirmed over all paths" in out:
        verdict, msg = "confirmed_all_paths", ""
        stats["paths"] = 1
    elif "when calling" in out:
        line_ = [l for l in out.splitlines() if "when calling" in l][0]
        call = parse_call(line_, funcname)
        msg = line_.split(": error: ", 1)[-1][:300]
        if call is None:
            verdict, msg = "inconclusive", "counterexample arguments not parseable: " + line_[-300:]
        else:
            verdict, cex = "counterexample", {"message": msg, "inputs": core.jsonable({"function": funcname, **call})}
    elif "Not confirmed" in out:
        verdict, msg = "no_counterexample_budget_exhausted", "CrossHair: not confirmed within %d s, no counterexample" % timeout
    elif "Unable to meet precondition" in out:
        verdict, msg = "inconclusive", "CrossHair: unable to meet precondition"
    return core.result(harness, "E1 CrossHair 0.0.110", verdict, stats, bounds or {}, [core.fn_id(f) for f in functions], assumptions, [], cex, msg)
