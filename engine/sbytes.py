"""Symbolic bytes proxy for symx: concrete length, elements are ints or z3 Int exprs in 0..255."""
import z3, ast, inspect, types, re, sys
try:
    import re._parser as sre_parse, re._constants as sre_c
except ImportError:
    import sre_parse, sre_constants as sre_c
from .symx import SB, SV, SI, Unsupported, Abort
from . import symx

def _el_eq(a, b):
    if isinstance(a, int) and isinstance(b, int): return z3.BoolVal(a == b)
    return (a if not isinstance(a, int) else z3.IntVal(a)) == (b if not isinstance(b, int) else z3.IntVal(b))

def _in_set(el, vals):
    """z3 Bool: element in set of ints"""
    if isinstance(el, int): return z3.BoolVal(el in vals)
    # compress to ranges
    vs = sorted(vals); rngs = []
    for v in vs:
        if rngs and rngs[-1][1] == v - 1: rngs[-1][1] = v
        else: rngs.append([v, v])
    return z3.Or([z3.And(el >= a, el <= b) if a != b else el == a for a, b in rngs]) if rngs else z3.BoolVal(False)

class SBy:
    def __init__(self, els): self.els = list(els)
    @staticmethod
    def of(x):
        if isinstance(x, SBy): return x
        if isinstance(x, (bytes, bytearray)): return SBy(list(x))
        raise Unsupported(type(x))
    def __len__(self): return len(self.els)
    def __bool__(self): return len(self.els) > 0
    def __iter__(self): return iter(self.els)
    def __getitem__(self, k):
        if isinstance(k, slice): return SBy(self.els[k])
        return self.els[k]     # int or z3 expr (wrapped below)
    def __add__(self, o): return SBy(self.els + SBy.of(o).els)
    def __radd__(self, o): return SBy(SBy.of(o).els + self.els)
    def __eq__(self, o):
        if not isinstance(o, (SBy, bytes, bytearray)): return False
        o = SBy.of(o)
        if len(o) != len(self): return False
        return SB(z3.And([_el_eq(a, b) for a, b in zip(self.els, o.els)]) if self.els else z3.BoolVal(True))
    def __ne__(self, o):
        r = self.__eq__(o)
        return (not r) if isinstance(r, bool) else SB(z3.Not(r.e))
    def __hash__(self): raise Unsupported("hash(SBy)")
    def _all(self, vals): return SB(z3.And([_in_set(e, vals) for e in self.els])) if self.els else False
    def isdigit(self): return self._all(set(range(48, 58)))
    def isalpha(self): return self._all(set(range(65, 91)) | set(range(97, 123)))
    def isspace(self): return self._all({9, 10, 11, 12, 13, 32})
    def concrete(self): return all(isinstance(e, int) for e in self.els)
    def find(self, sub, start=0, end=None):
        sub = SBy.of(sub) if not isinstance(sub, int) else SBy([sub])
        n = len(sub)
        end = len(self.els) if end is None else min(end, len(self.els))
        if start < 0: start = max(0, len(self.els) + start)
        for j in range(start, end - n + 1):
            if n == 0 or bool(SBy(self.els[j:j + n]) == sub):
                return j
        return -1
    def index(self, sub, start=0, end=None):
        j = self.find(sub, start, end)
        if j < 0: raise ValueError("subsection not found")
        return j
    def rfind(self, sub, start=0, end=None):
        sub = SBy.of(sub) if not isinstance(sub, int) else SBy([sub])
        n = len(sub)
        end = len(self.els) if end is None else min(end, len(self.els))
        for j in range(end - n, start - 1, -1):
            if n == 0 or bool(SBy(self.els[j:j + n]) == sub):
                return j
        return -1
    def startswith(self, p): p = SBy.of(p); return len(p) <= len(self) and bool(SBy(self.els[:len(p)]) == p)
    def endswith(self, p): p = SBy.of(p); return len(p) <= len(self) and (len(p) == 0 or bool(SBy(self.els[-len(p):]) == p))
    def ljust(self, n, fill=b" "):
        return SBy(self.els + list(fill) * max(0, n - len(self.els)))
    def ints(self):
        """elements as python ints / SI proxies (for arithmetic code that indexes bytes)"""
        return [e if isinstance(e, int) else SI(e) for e in self.els]
    def __repr__(self): return "SBy(%r)" % (self.els,)

class SByI(SBy):
    """bytes proxy whose indexing / iteration yields SI proxies (for decoders that do arithmetic on bytes)"""
    def __getitem__(self, k):
        if isinstance(k, slice): return SByI(self.els[k])
        if isinstance(k, SI): k = k.__index__()
        e = self.els[k]
        return e if isinstance(e, int) else SI(e)
    def __iter__(self): return iter(self.ints())
    def __add__(self, o): return SByI(self.els + SBy.of(o).els)
    def __radd__(self, o): return SByI(SBy.of(o).els + self.els)


def sx_in(a, b):
    if isinstance(b, SBy) and isinstance(a, (bytes, bytearray, SBy)):
        return b.find(a) >= 0
    if isinstance(a, SBy):
        if isinstance(b, (bytes, bytearray)):
            n = len(a)
            if n == 0: return True
            alts = [SBy(list(b[k:k + n])) for k in range(len(b) - n + 1)]
            return bool(SB(z3.Or([(a == x).e for x in alts]))) if alts else False
        if isinstance(b, dict):
            return bool(SB(z3.Or([r.e for r in ((a == k) for k in b) if isinstance(r, SB)] or [z3.BoolVal(False)])))
        if isinstance(b, SymDict): return a in b
    return a in b
def sx_notin(a, b): return not sx_in(a, b)

class SymDict:
    def __init__(self, d): self.d = d
    def __contains__(self, k):
        if isinstance(k, SBy): return sx_in(k, self.d)
        return k in self.d
    def __getitem__(self, k):
        if isinstance(k, SBy):
            for kk, v in self.d.items():
                if k == kk: return v
            raise KeyError(k)
        return self.d[k]

class _M:
    def __init__(s, a, b): s.a, s.b = a, b
    def start(s, g=0): return s.a
    def end(s, g=0): return s.b

class SymPattern:
    """Shim for a compiled bytes regex that is a single character class; class extracted from the live pattern."""
    def __init__(self, pat):
        self.pat = pat
        tree = sre_parse.parse(pat.pattern, pat.flags)
        if len(tree) != 1 or tree[0][0] not in (sre_c.IN, sre_c.LITERAL, sre_c.NOT_LITERAL, sre_c.ANY, sre_c.CATEGORY):
            raise Unsupported("pattern not a single char class: %r" % pat.pattern)
        self.vals = {v for v in range(256) if pat.fullmatch(bytes([v]))}
    def __getattr__(self, name):
        real = getattr(self.pat, name)
        if not callable(real): return real
        def call(s, *a, **k):
            if isinstance(s, (bytes, bytearray)): return real(s, *a, **k)
            raise Unsupported("re.Pattern.%s on symbolic bytes" % name)
        return call
    def search(self, s, pos=0):
        if isinstance(s, (bytes, bytearray)): return self.pat.search(s, pos)
        for j in range(pos, len(s)):
            if SB(_in_set(s.els[j], self.vals)): return _M(j, j + 1)
        return None
    def match(self, s, pos=0):
        if isinstance(s, (bytes, bytearray)): return self.pat.match(s, pos)
        if pos < len(s) and SB(_in_set(s.els[pos], self.vals)): return _M(pos, pos + 1)
        return None

def sx_join(sep, items):
    items = list(items)
    if any(isinstance(x, SBy) for x in items) or isinstance(sep, SBy):
        out = SBy([])
        for i, x in enumerate(items):
            if i:
                out = out + SBy.of(sep)
            out = out + SBy.of(x)
        return out
    return sep.join(items)


class InRewriter(ast.NodeTransformer):
    def visit_Call(self, node):
        self.generic_visit(node)
        f = node.func
        if (isinstance(f, ast.Attribute) and f.attr == "join" and isinstance(f.value, ast.Constant) and isinstance(f.value.value, bytes)
                and len(node.args) == 1 and not node.keywords):
            return ast.copy_location(ast.Call(ast.Name("sx_join_", ast.Load()), [f.value, node.args[0]], []), node)
        return node

    def visit_Compare(self, node):
        self.generic_visit(node)
        if len(node.ops) == 1 and isinstance(node.ops[0], (ast.In, ast.NotIn)):
            fn = "sx_in_" if isinstance(node.ops[0], ast.In) else "sx_notin_"
            return ast.copy_location(ast.Call(ast.Name(fn, ast.Load()), [node.left, node.comparators[0]], []), node)
        return node

# ---- general (small-subset) regex matcher over the sre parse tree, symbolic bytes ----
def _cls_vals(item):
    """set of byte values matched by a single-char node"""
    op, av = item
    pat = None
    if op == sre_c.LITERAL: return {av}
    if op == sre_c.NOT_LITERAL: return set(range(256)) - {av}
    if op == sre_c.ANY: return set(range(256)) - {10}
    if op == sre_c.IN:
        neg = False; vals = set()
        for o, a in av:
            if o == sre_c.NEGATE: neg = True
            elif o == sre_c.LITERAL: vals.add(a)
            elif o == sre_c.RANGE: vals |= set(range(a[0], a[1] + 1))
            elif o == sre_c.CATEGORY:
                name = str(a)
                base = {"CATEGORY_SPACE": {9, 10, 11, 12, 13, 32}, "CATEGORY_DIGIT": set(range(48, 58)),
                        "CATEGORY_WORD": set(range(48, 58)) | set(range(65, 91)) | set(range(97, 123)) | {95}}
                k = name.replace("NOT_", "")
                v = base[k]
                vals |= (set(range(256)) - v) if "NOT_" in name else v
            else: raise Unsupported("class item %r" % (o,))
        return (set(range(256)) - vals) if neg else vals
    raise Unsupported("node %r" % (op,))

def _match_seq(nodes, k, s, pos):
    """generator of end positions for matching nodes[k:] at pos (backtracking, greedy order)"""
    if k == len(nodes):
        yield pos; return
    op, av = nodes[k]
    if op in (sre_c.LITERAL, sre_c.NOT_LITERAL, sre_c.ANY, sre_c.IN):
        if pos < len(s) and SB(_in_set(s.els[pos], _cls_vals((op, av)))):
            yield from _match_seq(nodes, k + 1, s, pos + 1)
        return
    if op == sre_c.BRANCH:
        for alt in av[1]:
            for e in _match_seq(list(alt), 0, s, pos):
                yield from _match_seq(nodes, k + 1, s, e)
        return
    if op in (sre_c.MAX_REPEAT,):
        lo, hi, sub = av
        sub = list(sub)
        if hi is sre_c.MAXREPEAT or hi > 64: hi = 64
        def rep(n, p):
            if n < hi:
                for e in _match_seq(sub, 0, s, p):
                    if e > p: yield from rep(n + 1, e)
            if n >= lo: yield from _match_seq(nodes, k + 1, s, p)
        yield from rep(0, pos); return
    if op == sre_c.SUBPATTERN:
        for e in _match_seq(list(av[3]), 0, s, pos):
            yield from _match_seq(nodes, k + 1, s, e)
        return
    if op == sre_c.AT:
        if str(av) in ("AT_END", "AT_END_STRING"):
            if pos == len(s) or (str(av) == "AT_END" and pos == len(s) - 1 and SB(_in_set(s.els[pos], {10}))):
                yield from _match_seq(nodes, k + 1, s, pos)
            return
        if str(av) in ("AT_BEGINNING", "AT_BEGINNING_STRING"):
            if pos == 0: yield from _match_seq(nodes, k + 1, s, pos)
            return
    raise Unsupported("regex node %r" % (op,))

class _GM:
    def __init__(s, src, a, b): s.src, s.a, s.b = src, a, b
    def start(s, g=0): return s.a
    def end(s, g=0): return s.b
    def group(s, g=0): return s.src[s.a:s.b]

class SymRegex:
    """general shim (first-match semantics of a backtracking engine, like sre)"""
    def __init__(self, pat):
        self.pat = pat; self.nodes = list(sre_parse.parse(pat.pattern, pat.flags))
    def __getattr__(self, name):
        # a regex method the shim does not model (findall, split, ...): concrete arguments go to the real pattern, symbolic ones end the job as inconclusive
        # (an AttributeError here would be taken for an exception of the code under test)
        real = getattr(self.pat, name)
        if not callable(real): return real
        def call(s, *a, **k):
            if isinstance(s, (bytes, bytearray)): return real(s, *a, **k)
            raise Unsupported("re.Pattern.%s on symbolic bytes" % name)
        return call
    def _at(self, s, pos):
        for e in _match_seq(self.nodes, 0, s, pos): return e
        return None
    def match(self, s, pos=0):
        if isinstance(s, (bytes, bytearray)): return self.pat.match(s, pos)
        e = self._at(s, pos); return None if e is None else _GM(s, pos, e)
    def search(self, s, pos=0):
        if isinstance(s, (bytes, bytearray)): return self.pat.search(s, pos)
        for p in range(pos, len(s) + 1):
            e = self._at(s, p)
            if e is not None: return _GM(s, p, e)
        return None
    def sub(self, repl, s):
        if isinstance(s, (bytes, bytearray)): return self.pat.sub(repl, s)
        out = SBy([]); p = 0
        while p <= len(s):
            e = self._at(s, p)
            if e is None:
                if p < len(s): out = out + s[p:p + 1]
                p += 1; continue
            r = repl(_GM(s, p, e)) if callable(repl) else repl
            out = out + SBy.of(r)
            if e == p:
                if p < len(s): out = out + s[p:p + 1]
                p += 1
            else: p = e
        return out
SymPattern.sub = lambda self, repl, s: SymRegex(self.pat).sub(repl, s)


# ---------------------------------------------------------------- in-place `in` rewriting
def patch_module_in(mod):
    """Recompile, from the module's *current source*, every plain function/method of `mod` that
    contains an `in` / `not in` comparison, with the comparison rewritten into a helper call, and
    assign the code object to the real function (class identities are kept).  Returns the list of
    patched qualified names."""
    import inspect
    src = inspect.getsource(mod)
    tree = ast.parse(src)
    found = []

    class Finder(ast.NodeVisitor):
        def __init__(s): s.stack = []
        def visit_ClassDef(s, n):
            s.stack.append(n.name); s.generic_visit(n); s.stack.pop()
        def visit_FunctionDef(s, n):
            has = any((isinstance(c, ast.Compare) and any(isinstance(o, (ast.In, ast.NotIn)) for o in c.ops)) or
                      (isinstance(c, ast.Call) and isinstance(c.func, ast.Attribute) and c.func.attr == "join" and isinstance(c.func.value, ast.Constant)
                       and isinstance(c.func.value.value, bytes)) for c in ast.walk(n))
            if has: found.append((list(s.stack), n))
            s.stack.append(n.name); s.generic_visit(n); s.stack.pop()
    Finder().visit(tree)
    mod.__dict__["sx_in_"] = sx_in
    mod.__dict__["sx_notin_"] = sx_notin
    mod.__dict__["sx_join_"] = sx_join
    done = []
    for path, fn in found:
        obj = mod
        try:
            for p in path:
                obj = getattr(obj, p)
            target = obj.__dict__[fn.name] if isinstance(obj, type) else getattr(obj, fn.name)
        except (AttributeError, KeyError):
            continue
        if isinstance(target, (classmethod, staticmethod)):
            target = target.__func__
        if isinstance(target, property):
            target = target.fget
        if not isinstance(target, types.FunctionType) or target.__code__.co_freevars:
            continue
        fn.decorator_list = []
        fn.returns = None                     # annotations may name class-level aliases that are not in the module namespace; only the code object is used
        for a in fn.args.posonlyargs + fn.args.args + fn.args.kwonlyargs + [x for x in (fn.args.vararg, fn.args.kwarg) if x]:
            a.annotation = None
        new = InRewriter().visit(ast.Module(body=[fn], type_ignores=[]))
        ast.fix_missing_locations(new)
        ns = {}
        exec(compile(new, mod.__file__, "exec"), mod.__dict__, ns)
        target.__code__ = ns[fn.name].__code__
        done.append(".".join(path + [fn.name]))
    return done


# ---------------------------------------------------------------- builtin shims (type-like)
class Opaque:
    """a value computed by a C-level conversion of symbolic text (int("12"), float, str)"""
    def __init__(self, kind, text):
        self.kind, self.text = kind, text
    def __repr__(self):
        return "Opaque(%s,%r)" % (self.kind, self.text)


def _digit_or(x):
    return SB(z3.Or([z3.And(e >= 48, e <= 57) if not isinstance(e, int) else z3.BoolVal(48 <= e <= 57) for e in x.els] or [z3.BoolVal(False)]))


_BLANKS = {9, 10, 11, 12, 13, 28, 29, 30, 31, 32, 133, 160, 95}          # what int()/float() strip or skip: white space, and '_' between digits
_FLOAT_WORDS = set(b"eEiInNfFaAtTyY")                                     # exponents, inf, nan, infinity


def _number_text(x, is_float):
    """does int(text) / float(text) accept this symbolic text?  The accepted language modelled is [+-]?digits for int and [+-]?(digits with at most one '.') with
    at least one digit for float; text that may hold a blank, '_', an exponent or inf/nan spelling ends the path as unsupported rather than guessing"""
    els = [e if not isinstance(e, int) else z3.IntVal(e) for e in x.els]
    if not els:
        return False
    odd = _BLANKS | (_FLOAT_WORDS if is_float else set())
    if bool(SB(z3.Or([_in_set(e, odd) for e in els]))):
        raise Unsupported("%s() of symbolic text with a blank, underscore%s" % ("float" if is_float else "int", ", exponent or inf/nan" if is_float else ""))
    dig = [z3.And(e >= 48, e <= 57) for e in els]
    dot = [e == 46 for e in els]

    def body(i0):
        if i0 >= len(els):
            return z3.BoolVal(False)
        if not is_float:
            return z3.And(dig[i0:])
        return z3.And([z3.Or(dig[i], dot[i]) for i in range(i0, len(els))] + [z3.Or(dig[i0:]), z3.Sum([z3.If(d, 1, 0) for d in dot[i0:]]) <= 1])
    return bool(SB(z3.Or(body(0), z3.And(z3.Or(els[0] == 43, els[0] == 45), body(1)))))


def _utf8_valid(els):
    """z3 formula: the byte sequence is well-formed UTF-8 (Unicode 15 table 3-7)"""
    els = [e if not isinstance(e, int) else z3.IntVal(e) for e in els]
    n = len(els)
    rng = lambda i, lo, hi: z3.And(els[i] >= lo, els[i] <= hi) if i < n else z3.BoolVal(False)
    cont = lambda i: rng(i, 0x80, 0xBF)
    valid = [None] * (n + 5)
    for i in range(n, n + 5):
        valid[i] = z3.BoolVal(i == n)
    for i in range(n - 1, -1, -1):
        valid[i] = z3.Or(
            z3.And(els[i] < 0x80, valid[i + 1]),
            z3.And(rng(i, 0xC2, 0xDF), cont(i + 1), valid[i + 2]),
            z3.And(els[i] == 0xE0, rng(i + 1, 0xA0, 0xBF), cont(i + 2), valid[i + 3]),
            z3.And(z3.Or(rng(i, 0xE1, 0xEC), rng(i, 0xEE, 0xEF)), cont(i + 1), cont(i + 2), valid[i + 3]),
            z3.And(els[i] == 0xED, rng(i + 1, 0x80, 0x9F), cont(i + 2), valid[i + 3]),
            z3.And(els[i] == 0xF0, rng(i + 1, 0x90, 0xBF), cont(i + 2), cont(i + 3), valid[i + 4]),
            z3.And(rng(i, 0xF1, 0xF3), cont(i + 1), cont(i + 2), cont(i + 3), valid[i + 4]),
            z3.And(els[i] == 0xF4, rng(i + 1, 0x80, 0x8F), cont(i + 2), cont(i + 3), valid[i + 4]))
    return valid[0]


def _hexval(e):
    return z3.If(e <= 57, e - 48, z3.If(e <= 70, e - 55, e - 87))


def _int(x=0, base=10):
    if isinstance(x, SBy):
        if x.concrete():
            return int(bytes(x.els), base)
        if base == 10:
            if not _number_text(x, False):
                raise ValueError("invalid literal for int()")
            return Opaque("int", x)
        # int(text, base) raises ValueError on a digit outside the base; signs, blanks, '_' and radix prefixes are not modelled
        if base not in (8, 16) or not x.els:
            raise Unsupported("int(symbolic text, %r)" % (base,))
        for e in x.els:
            if isinstance(e, int):
                int(bytes([e]), base)
                continue
            ok = z3.And(e >= 48, e <= 55) if base == 8 else z3.Or(z3.And(e >= 48, e <= 57), z3.And(e >= 65, e <= 70), z3.And(e >= 97, e <= 102))
            if not bool(SB(ok)):
                if bool(SB(_in_set(e, {9, 10, 11, 12, 13, 28, 29, 30, 31, 32, 43, 45, 95, 79, 111, 88, 120, 133, 160}))):
                    raise Unsupported("int() of symbolic text with a sign, blank, underscore or radix prefix")
                raise ValueError("invalid literal for int() with base %d" % base)
        v = 0
        for e in x.els:
            d = int(bytes([e]), base) if isinstance(e, int) else _hexval(e)
            v = v * base + d
        return SI(z3.simplify(v)) if not isinstance(v, int) else v
    if isinstance(x, (SV, SI)):
        return symx.sym_int(x)
    return int(x, base) if isinstance(x, (str, bytes, bytearray)) else int(x)


def _float(x=0.0):
    if isinstance(x, SBy):
        if x.concrete():
            return float(bytes(x.els))
        if not _number_text(x, True):
            raise ValueError("could not convert to float")
        return Opaque("float", x)
    if isinstance(x, (SV, SI)):
        return symx.sym_float(x)
    return float(x)


def _bytes(x=b"", *a):
    if isinstance(x, SBy):
        return x
    if isinstance(x, (tuple, list)) and any(isinstance(e, (SV, SI, z3.ExprRef)) for e in x):
        out = []
        for e in x:
            if isinstance(e, SI): e = e.e
            elif isinstance(e, SV): e = z3.ToInt(e.e)
            if not isinstance(e, int):
                if not bool(SB(z3.And(e >= 0, e <= 255))):
                    raise ValueError("bytes must be in range(0, 256)")
            elif not 0 <= e <= 255:
                raise ValueError("bytes must be in range(0, 256)")
            out.append(e)
        return SBy(out)
    return bytes(x, *a)


def _str(x="", *a):
    if isinstance(x, SBy):
        if x.concrete():
            return str(bytes(x.els), *a)
        enc = (a[0] if a else "utf-8").lower().replace("_", "-")
        if len(a) > 1 or enc not in ("utf-8", "utf8", "ascii", "latin-1", "latin1", "iso-8859-1"):
            raise Unsupported("str(symbolic bytes, %r)" % (a,))
        if enc in ("utf-8", "utf8") and not bool(SB(_utf8_valid(x.els))):
            raise UnicodeDecodeError("utf-8", b"", 0, 1, "invalid byte sequence (symbolic)")
        if enc == "ascii" and not bool(SB(z3.And([e < 128 for e in x.els if not isinstance(e, int)] + [z3.BoolVal(all(e < 128 for e in x.els if isinstance(e, int)))]))):
            raise UnicodeDecodeError("ascii", b"", 0, 1, "ordinal not in range(128) (symbolic)")
        return Opaque("str", x)
    return str(x, *a)


_isinstance = isinstance


class _ShimMeta(type):
    def __call__(cls, *a, **k):
        return cls._conv(*a, **k)
    def __instancecheck__(cls, x):
        if _isinstance(x, cls._real):
            return True
        return cls._proxy(x)


def _mk(name, real, conv, proxy):
    return _ShimMeta(name, (), {"_real": real, "_conv": staticmethod(conv), "_proxy": staticmethod(proxy)})


IntT = _mk("int", int, _int, lambda x: _isinstance(x, SI) or (_isinstance(x, Opaque) and x.kind == "int"))
FloatT = _mk("float", float, _float, lambda x: _isinstance(x, Opaque) and x.kind == "float")
BytesT = _mk("bytes", bytes, _bytes, lambda x: _isinstance(x, SBy))
StrT = _mk("str", str, _str, lambda x: _isinstance(x, Opaque) and x.kind == "str")


class SymFile:
    """pure-python file object over bytes or SBy"""
    def __init__(self, data):
        self.data, self.pos = data, 0
    def seek(self, pos, whence=0):
        self.pos = pos if whence == 0 else (len(self.data) + pos if whence == 2 else self.pos + pos)
        return self.pos
    def tell(self):
        return self.pos
    def read(self, n=-1):
        r = self.data[self.pos:] if n is None or n < 0 else self.data[self.pos:self.pos + n]
        self.pos += len(r)
        return r
    def close(self):
        pass


def sym_bytes(ex, name, n, lo=0, hi=255):
    els = []
    for i in range(n):
        v = z3.Int("%s%d" % (name, i))
        ex.s.add(v >= lo, v <= hi)
        els.append(v)
    return SBy(els)


def model_bytes(model, x):
    """concrete bytes of an SBy (or bytes) under a model"""
    if isinstance(x, (bytes, bytearray)):
        return bytes(x)
    return bytes(symx.mval(model, e) if not isinstance(e, int) else e for e in x.els)


_psparser_ready = None


def setup_psparser():
    """adapt the real pdfminer.psparser (in this process) to symbolic bytes; returns a description of
    what was touched (goes into the evidence)"""
    global _psparser_ready
    if _psparser_ready is not None:
        return _psparser_ready
    import pdfminer.psparser as ps
    patched = patch_module_in(ps)
    shimmed = []
    for k, v in list(ps.__dict__.items()):
        if isinstance(v, re.Pattern):
            try:
                ps.__dict__[k] = SymPattern(v)
                shimmed.append(k + ":class")
            except Unsupported:
                ps.__dict__[k] = SymRegex(v)
                shimmed.append(k + ":general")
    ps.ESC_STRING = SymDict(ps.ESC_STRING)
    ps.int, ps.float, ps.bytes, ps.str = IntT, FloatT, BytesT, StrT
    orig = ps.PSSymbolTable.intern

    def _try_str(b):
        try:
            return str(b, "utf-8")
        except Exception:
            return b

    def _intern(self, name):
        if isinstance(name, Opaque):
            name = name.text
        if isinstance(name, SBy):
            if name.concrete():
                b = bytes(name.els)
                return orig(self, b if self.klass is ps.PSKeyword else _try_str(b))
            for k, v in list(self.dict.items()):
                kb = k.encode("latin1") if isinstance(k, str) else k
                if len(kb) == len(name) and (name == kb):
                    return v
            o = self.klass.__new__(self.klass)
            o.name = name
            return o
        return orig(self, name)
    ps.PSSymbolTable.intern = _intern
    ps.KWD = ps.PSKeywordTable.intern
    ps.LIT = ps.PSLiteralTable.intern
    _psparser_ready = {"in_rewritten": ["psparser." + x for x in patched], "regex_shims": shimmed,
                       "namespace_shims": ["psparser.int", "psparser.float", "psparser.bytes", "psparser.str",
                                           "psparser.ESC_STRING", "PSSymbolTable.intern"]}
    return _psparser_ready
