#!/bin/bash
# Build the overlay venv /verif/.venv offline (idempotent, locked).
# python = /venv's interpreter; site-packages of /venv and /repo are added through a .pth file;
# crosshair-tool (+ z3-solver) and jsonschema come from the offline wheelhouse.
set -e
V=/verif/.venv
exec 9>/tmp/.verif-setup.lock
flock 9
if [ -x "$V/bin/python" ] && "$V/bin/python" -c "import z3, crosshair, pdfminer, jsonschema" 2>/dev/null; then
  exit 0
fi
rm -rf "$V"
/venv/bin/python -m venv "$V"
SP=$("$V/bin/python" -c "import sysconfig; print(sysconfig.get_paths()['purelib'])")
printf '/repo\n/venv/lib/python3.12/site-packages\n' > "$SP/verif-overlay.pth"
PIP_NO_INDEX=1 "$V/bin/python" -m pip install -q --no-index --find-links /opt/veriftools/wheels crosshair-tool jsonschema >/dev/null
"$V/bin/python" -c "import z3, crosshair, pdfminer, jsonschema; assert pdfminer.__file__.startswith('/repo/'), pdfminer.__file__"
