"""C09 - layout grouping follows the documented margins; the result is scale-invariant.

Two-object harnesses on the real layout code with symbolic boxes AND symbolic LAParams; oracles are the rules written in
docs/source/topic/converting_pdf_to_text.rst and the LAParams / find_neighbors docstrings.
H1 same line + word space   H3 neighbour relation of lines   H4 ordering of boxes   H5 invariance under scaling by 2^k
"""
import z3

from engine import symx
from engine.symx import SB, SV, SI
from harness import C08
from lib import core
from fractions import Fraction
from lib.core import Job, fl

ASSUMPTIONS = [
    "floats are exact reals; glyph boxes have positive width and height",
    "0 <= line_overlap < 1 (beyond that pdfminer's overlap measure over-estimates when one glyph contains the other; the documentation is silent)",
    "char_margin, word_margin, line_margin >= 0",
    "H5: at most two glyphs (with three or more boxes equal distances are tie-broken by object addresses, which differ between two runs)",
]
OUTSIDE = ["arrangements of more than two objects", "vertical writing in H1/H4 (covered in H3 for the neighbour relation)", "scale factors other than 1/4, 1/2, 2, 4, 8"]


def zr(x):
    return symx.zr(x)


def zmin2(a, b):
    a, b = zr(a), zr(b)
    return z3.If(a <= b, a, b)


def zmax2(a, b):
    a, b = zr(a), zr(b)
    return z3.If(a >= b, a, b)


def mkchar(ex, name, text, lo=0, hi=100, maxsize=30):
    return C08.mkchar(ex, name, text, lo, hi, maxsize=maxsize)


def laparams(**kw):
    from pdfminer.layout import LAParams
    la = LAParams.__new__(LAParams)
    la.line_overlap, la.char_margin, la.line_margin, la.word_margin = 0.5, 2.0, 0.5, 0.1
    la.boxes_flow, la.detect_vertical, la.all_texts = 0.5, False, False
    for k, v in kw.items():
        setattr(la, k, v)
    return la


# ----------------------------------------------------------------------------------------------- H1
def h1_line(timeout=200, part=None, **kw):
    shims = C08.setup()
    import pdfminer.layout as lt

    def fn(ex):
        a, b = mkchar(ex, "a", "a"), mkchar(ex, "b", "b")
        lo, cm, wm = ex.real("lo", 0, 1), ex.real("cm", 0, 4), ex.real("wm", 0, 2)
        ex.assume(lo < 1)
        la = laparams(line_overlap=lo, char_margin=cm, word_margin=wm)
        cont = lt.LTLayoutContainer((0, 0, 100, 100))
        lines = list(cont.group_objects(la, [a, b]))
        info = {"a": a.bbox, "b": b.bbox, "lo": lo, "cm": cm, "wm": wm}
        # documented rule: vertical overlap of the boxes > line_overlap * min(height) and horizontal distance < char_margin * max(width)
        overlap = zmin2(a.y1, b.y1) - zmax2(a.y0, b.y0)
        gap = zmax2(zmax2(a.x0, b.x0) - zmin2(a.x1, b.x1), 0)
        same = z3.And(overlap >= 0, overlap > zr(lo) * zmin2(a.height, b.height), gap < zr(cm) * zmax2(a.width, b.width))
        if len(lines) == 1:
            ex.require(SB(same), "two glyphs were joined into one line although the documented overlap / distance rule does not hold", **info)
            txt = lines[0].get_text()
            space = zr(b.x0) - zr(a.x1) > zr(wm) * zmax2(b.width, b.height)
            if txt == "a b":
                ex.require(SB(z3.And(space, zr(wm) != 0)), "a space was inserted although the gap does not exceed word_margin", **info)
            else:
                ex.require(txt == "ab", "line text is %r" % txt, **info)
                ex.require(SB(z3.Or(z3.Not(space), zr(wm) == 0)), "no space was inserted although the gap exceeds word_margin", **info)
        else:
            ex.require(len(lines) == 2, "%d lines for two glyphs" % len(lines), **info)
            ex.require(SB(z3.Not(same)), "two glyphs were not joined although they overlap by more than line_overlap and are closer than char_margin", **info)

    def conc(m, info):
        g = lambda t: [symx.mval(m, v) for v in t]
        return {"a": g(info["a"]), "b": g(info["b"]), "lo": symx.mval(m, info["lo"]), "cm": symx.mval(m, info["cm"]), "wm": symx.mval(m, info["wm"])}
    return core.run_symx("H1_line", fn, [lt.LTLayoutContainer.group_objects, lt.LTComponent.voverlap, lt.LTComponent.hdistance, lt.LTComponent.is_voverlap, lt.LTTextLineHorizontal.add],
                         {"glyphs": "two, boxes symbolic in [0,100], sizes (0,30]", "line_overlap": "symbolic [0,1)", "char_margin": "symbolic [0,4]", "word_margin": "symbolic [0,2]"},
                         timeout, concretize=conc, shims={"namespace_shims": shims}, part=part)


def h1_line_v(timeout=200, part=None, **kw):
    """two glyphs with detect_vertical on: they form ONE vertical line exactly when they overlap horizontally by more than line_overlap x min(width) and their vertical distance is below
    char_margin x max(HEIGHT) while the horizontal rule does not hold as well; ONE horizontal line exactly when only the horizontal rule holds; two lines otherwise"""
    shims = C08.setup()
    import pdfminer.layout as lt

    def fn(ex):
        a, b = mkchar(ex, "a", "a"), mkchar(ex, "b", "b")
        lo, cm = ex.real("lo", 0, 1), ex.real("cm", 0, 4)
        ex.assume(lo < 1)
        la = laparams(line_overlap=lo, char_margin=cm, word_margin=0, detect_vertical=True)
        cont = lt.LTLayoutContainer((0, 0, 100, 100))
        lines = list(cont.group_objects(la, [a, b]))
        info = {"a": a.bbox, "b": b.bbox, "lo": lo, "cm": cm, "wm": 0, "vertical": True}
        vov = zmin2(a.y1, b.y1) - zmax2(a.y0, b.y0)
        hgap = zmax2(zmax2(a.x0, b.x0) - zmin2(a.x1, b.x1), 0)
        hov = zmin2(a.x1, b.x1) - zmax2(a.x0, b.x0)
        vgap = zmax2(zmax2(a.y0, b.y0) - zmin2(a.y1, b.y1), 0)
        halign = z3.And(vov >= 0, vov > zr(lo) * zmin2(a.height, b.height), hgap < zr(cm) * zmax2(a.width, b.width))
        valign = z3.And(hov >= 0, hov > zr(lo) * zmin2(a.width, b.width), vgap < zr(cm) * zmax2(a.height, b.height))
        if len(lines) == 1:
            if isinstance(lines[0], lt.LTTextLineVertical):
                ex.require(SB(z3.And(valign, z3.Not(halign))), "two glyphs were joined into one vertical line although the documented rule (horizontal overlap, vertical distance below char_margin x height) does not select it", **info)
            else:
                ex.require(SB(z3.And(halign, z3.Not(valign))), "two glyphs were joined into one horizontal line although the documented rule does not select it", **info)
        else:
            ex.require(len(lines) == 2, "%d lines for two glyphs" % len(lines), **info)
            ex.require(SB(halign == valign), "two glyphs were not joined although exactly one of the horizontal / vertical rules holds", **info)

    def conc(m, info):
        g = lambda t: [symx.mval(m, v) for v in t]
        return {"a": g(info["a"]), "b": g(info["b"]), "lo": symx.mval(m, info["lo"]), "cm": symx.mval(m, info["cm"]), "wm": 0, "vertical": True}
    return core.run_symx("H1_line", fn, [lt.LTLayoutContainer.group_objects, lt.LTComponent.hoverlap, lt.LTComponent.vdistance, lt.LTComponent.is_hoverlap, lt.LTTextLineVertical.add],
                         {"glyphs": "two, boxes symbolic in [0,100], sizes (0,30]", "line_overlap": "symbolic [0,1)", "char_margin": "symbolic [0,4]", "detect_vertical": True},
                         timeout, concretize=conc, shims={"namespace_shims": shims}, part=part)


# ----------------------------------------------------------------------------------------------- H3
def mkline(ex, name, vertical, lo=0, hi=50):
    import pdfminer.layout as lt
    l = (lt.LTTextLineVertical if vertical else lt.LTTextLineHorizontal)(0.1)
    x0, y0 = ex.real(name + "x0", lo, hi), ex.real(name + "y0", lo, hi)
    w, h = ex.real(name + "w", 0, 25), ex.real(name + "h", 0, 25)
    ex.assume(w > 0)
    ex.assume(h > 0)
    ex.assume(x0 + w <= hi)
    ex.assume(y0 + h <= hi)
    l.set_bbox((x0, y0, x0 + w, y0 + h))
    return l


RATIOS = [0.5, 0, 1.25]


def h3_neighbors(vertical=False, timeout=200, part=None, **kw):
    shims = C08.setup()
    import pdfminer.layout as lt
    import pdfminer.utils as u

    def fn(ex):
        l1, l2 = mkline(ex, "p", vertical), mkline(ex, "q", vertical)
        ratio = RATIOS[ex.choice(len(RATIOS), "ratio")]
        plane = u.Plane((0, 0, 50, 50))
        plane.extend([l1, l2])
        got = l1.find_neighbors(plane, ratio)
        info = {"l1": l1.bbox, "l2": l2.bbox, "ratio": ratio, "vertical": vertical}
        A = lambda x: z3.If(zr(x) >= 0, zr(x), -zr(x))
        if not vertical:
            d = ratio * l1.height
            close = z3.And(zr(l2.x0) < zr(l1.x1), zr(l1.x0) < zr(l2.x1), zr(l2.y0) < zr(l1.y1) + zr(d), zr(l1.y0) - zr(d) < zr(l2.y1))
            size = A(l2.height - l1.height) <= zr(d)
            align = z3.Or(A(l2.x0 - l1.x0) <= zr(d), A(l2.x1 - l1.x1) <= zr(d), A((l2.x0 + l2.x1) / 2 - (l1.x0 + l1.x1) / 2) <= zr(d))
        else:
            d = ratio * l1.width
            close = z3.And(zr(l2.y0) < zr(l1.y1), zr(l1.y0) < zr(l2.y1), zr(l2.x0) < zr(l1.x1) + zr(d), zr(l1.x0) - zr(d) < zr(l2.x1))
            size = A(l2.width - l1.width) <= zr(d)
            align = z3.Or(A(l2.y0 - l1.y0) <= zr(d), A(l2.y1 - l1.y1) <= zr(d), A((l2.y0 + l2.y1) / 2 - (l1.y0 + l1.y1) / 2) <= zr(d))
        want = z3.And(close, size, align)
        if any(o is l2 for o in got):
            ex.require(SB(want), "a line is reported as neighbour although the documented relation (close within line_margin, same size, aligned) does not hold", **info)
        else:
            ex.require(SB(z3.Not(want)), "a line that is close within line_margin, of the same size and aligned is not reported as neighbour", **info)
        ex.require(all(o is l1 or o is l2 for o in got), "find_neighbors returned a foreign object", **info)

    def conc(m, info):
        g = lambda t: [symx.mval(m, v) for v in t]
        return {"l1": g(info["l1"]), "l2": g(info["l2"]), "ratio": info["ratio"], "vertical": info["vertical"]}
    return core.run_symx("H3_neighbors", fn, [lt.LTTextLineHorizontal.find_neighbors, lt.LTTextLineVertical.find_neighbors, u.Plane.find],
                         {"lines": "two %s lines with symbolic boxes inside the index bounds (0,0,50,50)" % ("vertical" if vertical else "horizontal"), "line_margin": RATIOS},
                         timeout, concretize=conc, shims={"namespace_shims": shims}, part=part, int_lo=-4, int_hi=6)


# ----------------------------------------------------------------------------------------------- H4
def h4_order(timeout=200, part=None, **kw):
    shims = C08.setup()
    import pdfminer.layout as lt

    def fn(ex):
        arrangement = ex.choice(2, "arr")           # 0: one column (a above b), 1: two columns of equal height (a left of b)
        flow_none = ex.choice(2, "flow_none")
        bf = None if flow_none else ex.real("bf", -1, 1)
        if bf is not None:
            ex.assume(bf > -1)
            ex.assume(bf < 1)
        x0, y0 = ex.real("x0", 0, 20), ex.real("y0", 0, 20)
        w, h = ex.real("w", 1, 10), ex.real("h", 1, 10)
        gap = ex.real("gap", 0, 40)
        from pdfminer.layout import LTChar, LTPage
        def char(t, bx):
            c = LTChar.__new__(LTChar)
            c.set_bbox(bx)
            c._text, c.size, c.upright, c.fontname, c.adv = t, h, True, "F", w
            return c
        if arrangement == 0:
            ex.assume(gap > h)                      # farther apart than line_margin (0.5 x height): two boxes
            a = char("a", (x0, y0 + h + gap, x0 + w, y0 + 2 * h + gap))
            b = char("b", (x0, y0, x0 + w, y0 + h))
        else:
            ex.assume(gap > 3 * w)                  # farther apart than char_margin (2 x width): two lines
            a = char("a", (x0, y0, x0 + w, y0 + h))
            b = char("b", (x0 + w + gap, y0, x0 + 2 * w + gap, y0 + h))
        first_b = ex.choice(2, "content_order")
        pg = LTPage(1, (0, 0, 100, 100))
        for c in ([b, a] if first_b else [a, b]):
            pg.add(c)
        la = laparams(boxes_flow=bf)
        info = {"arr": arrangement, "bf": bf, "a": a.bbox, "b": b.bbox, "first_b": first_b}
        pg.analyze(la)
        boxes = [o for o in pg if isinstance(o, lt.LTTextBox)]
        texts = [bx.get_text() for bx in boxes]
        ex.require(texts == ["a\n", "b\n"], "boxes come out as %r; a single column must read top to bottom, a left column before a right one" % texts, **info)
        ex.require((pg.groups is None) == (bf is None), "boxes_flow=%s: the page %s a group hierarchy (only None switches the flow analysis off)" % (
            "None" if bf is None else "a number", "has no" if pg.groups is None else "has"), **info)

    def conc(m, info):
        g = lambda t: [symx.mval(m, v) for v in t]
        return {"arr": info["arr"], "bf": None if info["bf"] is None else symx.mval(m, info["bf"]), "a": g(info["a"]), "b": g(info["b"]), "first_b": info["first_b"]}
    return core.run_symx("H4_order", fn, [lt.LTLayoutContainer.analyze, lt.LTTextGroupLRTB.analyze, lt.IndexAssigner.run, lt.LTLayoutContainer.group_textboxes],
                         {"arrangement": "one column / two columns of equal height, symbolic position, size and gap", "boxes_flow": "symbolic in (-1,1) or None", "content_order": "both"},
                         timeout, concretize=conc, shims={"namespace_shims": shims}, part=part, int_lo=-4, int_hi=8)


def h4_columns(timeout=200, part=None, **kw):
    """a left column of two paragraphs (a above b) and a right paragraph c level with a, every content order, boxes_flow symbolic in (-1,1): the two near paragraphs form a group; by the
    documented weighting (1-f) x0 - (1+f)(y0+y1) the group precedes c exactly when f < 1/3, so the reading order is a b c below 1/3 and c a b above - in particular at f = 0 and never
    the bottom-left order a c b that boxes_flow=None gives"""
    shims = C08.setup()
    import pdfminer.layout as lt
    from pdfminer.layout import LTChar, LTPage
    import itertools
    ORDERS = list(itertools.permutations("abc"))

    def fn(ex):
        flow_none = ex.choice(2, "flow_none")
        bf = None if flow_none else ex.real("bf", -1, 1)
        if bf is not None:
            ex.assume(bf > -1)
            ex.assume(bf < 1)
        order = ORDERS[ex.choice(6, "content_order")]
        boxes = {"a": (0, 20, 10, 30), "b": (0, 0, 10, 10), "c": (40, 20, 50, 30)}

        def char(t):
            c = LTChar.__new__(LTChar)
            c.set_bbox(boxes[t])
            c._text, c.size, c.upright, c.fontname, c.adv = t, 10, True, "F", 10
            return c
        pg = LTPage(1, (0, 0, 100, 100))
        for t in order:
            pg.add(char(t))
        info = {"bf": bf, "order": "".join(order)}
        pg.analyze(laparams(boxes_flow=bf))
        texts = "".join(bx.get_text().strip() for bx in pg if isinstance(bx, lt.LTTextBox))
        if bf is None:
            ex.require(texts == "acb", "boxes_flow=None: reading order %r, by bottom-left corners it is 'acb'" % texts, **info)
        elif bf < Fraction(1, 3):
            ex.require(texts == "abc", "boxes_flow below 1/3: reading order %r, the documented weighting gives 'abc'" % texts, **info)
        elif bf > Fraction(1, 3):
            ex.require(texts == "cab", "boxes_flow above 1/3: reading order %r, the documented weighting gives 'cab'" % texts, **info)

    def conc(m, info):
        return {"bf": None if info["bf"] is None else symx.mval(m, info["bf"]), "order": info["order"]}
    return core.run_symx("H4_order", fn, [lt.LTLayoutContainer.analyze, lt.LTTextGroupLRTB.analyze, lt.IndexAssigner.run, lt.LTLayoutContainer.group_textboxes],
                         {"arrangement": "three paragraphs at fixed places (two in a left column, one to the right of the upper one)", "boxes_flow": "symbolic in (-1,1) or None", "content_order": "all six"},
                         timeout, concretize=conc, shims={"namespace_shims": shims}, part=part, int_lo=-4, int_hi=8)


# ----------------------------------------------------------------------------------------------- H5
SCALES = [(1, 4), (1, 2), (2, 1), (4, 1), (8, 1)]


def signature(pg):
    import pdfminer.layout as lt
    out = []
    for o in pg:
        if isinstance(o, lt.LTTextBox):
            out.append(("box", o.index, tuple(tuple(x.get_text() for x in line) for line in o)))
        elif isinstance(o, lt.LTTextLine):
            out.append(("emptyline", tuple(x.get_text() for x in o)))
        else:
            out.append((type(o).__name__,))
    return out


def h5_scale(timeout=300, part=None, family="general", **kw):
    shims = C08.setup()
    import pdfminer.layout as lt
    from fractions import Fraction

    def fn(ex):
        from pdfminer.layout import LTChar, LTPage
        spec = []
        for i in range(2):
            x0, y0 = ex.real("c%dx0" % i, 0, 60), ex.real("c%dy0" % i, 0, 60)
            if family == "general":
                w, h = ex.real("c%dw" % i, 0, 20), ex.real("c%dh" % i, 0, 20)
                ex.assume(w > 0)
                ex.assume(h > 0)
            else:
                w = h = 10
            spec.append(("ab"[i], x0, y0, x0 + w, y0 + h))
        num, den = SCALES[ex.choice(len(SCALES), "scale")]
        c = Fraction(num, den)
        flow_none = ex.choice(2, "flow_none")
        sigs = []
        for k in (Fraction(1), c):
            pg = LTPage(1, (0, 0, 80 * k, 80 * k))
            for (t, x0, y0, x1, y1) in spec:
                ch = LTChar.__new__(LTChar)
                ch.set_bbox((x0 * k, y0 * k, x1 * k, y1 * k))
                ch._text, ch.size, ch.upright, ch.fontname, ch.adv = t, (y1 - y0) * k, True, "F", (x1 - x0) * k
                pg.add(ch)
            pg.analyze(laparams(boxes_flow=None if flow_none else 0.5))
            sigs.append(signature(pg))
        ex.require(sigs[0] == sigs[1], "layout differs after scaling every coordinate by %s: %r vs %r" % (c, sigs[0], sigs[1]), spec=spec, scale=[num, den], flow_none=flow_none)

    def conc(m, info):
        return {"spec": [(t,) + tuple(symx.mval(m, v) for v in bb) for (t, *bb) in info["spec"]], "scale": info["scale"], "flow_none": info["flow_none"]}
    return core.run_symx("H5_scale", fn, [lt.LTLayoutContainer.analyze, lt.LTLayoutContainer.group_objects, lt.LTLayoutContainer.group_textlines],
                         {"glyphs": "two, %s, positions symbolic in [0,60]" % ("symbolic sizes (0,20]" if family == "general" else "10x10"), "scale": ["%d/%d" % s for s in SCALES],
                          "laparams": "defaults, boxes_flow 0.5 or None"}, timeout, concretize=conc, shims={"namespace_shims": shims}, part=part, int_lo=-4, int_hi=16)


# ----------------------------------------------------------------------------------------------- H6 grouping = components of the neighbour relation
def _lines3(ys, sizes):
    import pdfminer.layout as lt
    lines = []
    for i, (y, sz) in enumerate(zip(ys, sizes)):
        c = lt.LTChar.__new__(lt.LTChar)
        c.set_bbox((0, y, sz, y + sz))
        c._text, c.size, c.upright, c.fontname, c.adv, c.matrix = "abc"[i], sz, True, "F", sz, (1, 0, 0, 1, 0, y)
        l = lt.LTTextLineHorizontal(0.1)
        l.add(c)
        lines.append(l)
    return lines


def _components(n, edges):
    comp = list(range(n))

    def find(a):
        while comp[a] != a:
            a = comp[a]
        return a
    for a, b in edges:
        comp[find(a)] = find(b)
    groups = {}
    for i in range(n):
        groups.setdefault(find(i), set()).add(i)
    return sorted(sorted(g) for g in groups.values())


def _group3(ys, sizes, la):
    """(partition found by group_textlines, partition = connected components of `b in a.find_neighbors(plane, line_margin)`)"""
    import pdfminer.layout as lt
    import pdfminer.utils as u
    lines = _lines3(ys, sizes)
    plane = u.Plane((0, 0, 100, 100))
    plane.extend(lines)
    edges = [(i, lines.index(nb)) for i, l in enumerate(lines) for nb in l.find_neighbors(plane, la.line_margin)]
    exp = _components(len(lines), edges)
    lines2 = _lines3(ys, sizes)
    boxes = list(lt.LTLayoutContainer((0, 0, 100, 100)).group_textlines(la, lines2))
    got = sorted(sorted(lines2.index(l) for l in b) for b in boxes)
    return got, exp


def h6_group3(timeout=200, part=None, **kw):
    """three left-aligned one-glyph lines of sizes 10 or 20 at symbolic heights: the text boxes are exactly the connected components of the neighbour relation (each line asks with ITS OWN
    height: the relation is not symmetric, so every line has to be asked)"""
    shims = C08.setup()
    import pdfminer.layout as lt

    def fn(ex):
        sizes = [(10, 20)[ex.choice(2, "s%d" % i)] for i in range(3)]
        ys = [ex.real("y%d" % i, 0, 70) for i in range(3)]
        la = laparams()
        got, exp = _group3(ys, sizes, la)
        ex.require(got == exp, "text boxes %r, the connected components of the neighbour relation are %r" % (got, exp), ys=ys, sizes=sizes)

    def conc(m, info):
        return {"ys": [symx.mval(m, v) for v in info["ys"]], "sizes": info["sizes"]}
    return core.run_symx("H6_group3", fn, [lt.LTLayoutContainer.group_textlines, lt.LTTextLineHorizontal.find_neighbors], {"lines": "three, left-aligned, sizes 10 or 20, symbolic y in [0,70]", "laparams": "defaults"},
                         timeout, concretize=conc, shims={"namespace_shims": shims}, part=part, int_lo=-4, int_hi=8)


# ----------------------------------------------------------------------------------------------- replay
def _char(t, bb):
    from pdfminer.layout import LTChar
    c = LTChar.__new__(LTChar)
    bb = tuple(fl(v) for v in bb)
    c.set_bbox(bb)
    c._text, c.size, c.upright, c.fontname, c.adv = t, bb[3] - bb[1], True, "F", bb[2] - bb[0]
    return c


def replay(harness, inp):
    import pdfminer.layout as lt
    import pdfminer.utils as u
    from fractions import Fraction as F
    if harness == "H6_group3":
        ys = [F(y) for y in inp["ys"]]
        got, exp = _group3(ys, inp["sizes"], lt.LAParams())
        return None if got == exp else "three left-aligned lines of sizes %r at y = %r: text boxes %r, the connected components of the neighbour relation are %r" % (inp["sizes"], [float(y) for y in ys], got, exp)
    if harness == "H1_line":
        # exact replay: the real code on Fraction boxes and parameters
        def ch(t, bb):
            c = lt.LTChar.__new__(lt.LTChar)
            c.set_bbox(tuple(F(v) for v in bb))
            c._text, c.size, c.upright, c.fontname, c.adv = t, F(bb[3]) - F(bb[1]), True, "F", F(bb[2]) - F(bb[0])
            return c
        a, b = ch("a", inp["a"]), ch("b", inp["b"])
        lo, cm, wm = F(inp["lo"]), F(inp["cm"]), F(inp["wm"])
        if inp.get("vertical"):
            lines = list(lt.LTLayoutContainer((0, 0, 100, 100)).group_objects(laparams(line_overlap=lo, char_margin=cm, word_margin=0, detect_vertical=True), [a, b]))
            vov, hov = min(a.y1, b.y1) - max(a.y0, b.y0), min(a.x1, b.x1) - max(a.x0, b.x0)
            hgap, vgap = max(max(a.x0, b.x0) - min(a.x1, b.x1), 0), max(max(a.y0, b.y0) - min(a.y1, b.y1), 0)
            halign = vov >= 0 and vov > lo * min(a.height, b.height) and hgap < cm * max(a.width, b.width)
            valign = hov >= 0 and hov > lo * min(a.width, b.width) and vgap < cm * max(a.height, b.height)
            exp = "one vertical line" if (valign and not halign) else ("one horizontal line" if (halign and not valign) else "two lines")
            got = "two lines" if len(lines) == 2 else ("one vertical line" if len(lines) == 1 and isinstance(lines[0], lt.LTTextLineVertical) else ("one horizontal line" if len(lines) == 1 else "%d lines" % len(lines)))
            return None if got == exp else "glyph boxes a=%r b=%r, line_overlap=%s char_margin=%s, detect_vertical: %s, the documented rules (horizontal %s, vertical %s) give %s" % (
                tuple(map(float, a.bbox)), tuple(map(float, b.bbox)), float(lo), float(cm), got, halign, valign, exp)
        lines = list(lt.LTLayoutContainer((0, 0, 100, 100)).group_objects(laparams(line_overlap=lo, char_margin=cm, word_margin=wm), [a, b]))
        overlap = min(a.y1, b.y1) - max(a.y0, b.y0)
        gap = max(max(a.x0, b.x0) - min(a.x1, b.x1), 0)
        same = overlap >= 0 and overlap > lo * min(a.height, b.height) and gap < cm * max(a.width, b.width)
        desc = "glyph boxes a=%r b=%r, line_overlap=%s char_margin=%s word_margin=%s" % (tuple(map(float, a.bbox)), tuple(map(float, b.bbox)), float(lo), float(cm), float(wm))
        if (len(lines) == 1) != same:
            return "%s: %d line(s), but vertical overlap %s vs %s and distance %s vs %s say %s" % (
                desc, len(lines), float(overlap), float(lo * min(a.height, b.height)), float(gap), float(cm * max(a.width, b.width)), "one line" if same else "two lines")
        if same:
            space = (b.x0 - a.x1 > wm * max(b.width, b.height)) and wm != 0
            txt = lines[0].get_text()
            if txt != ("a b" if space else "ab"):
                return "%s: line text %r, gap %s vs word_margin*size %s" % (desc, txt, float(b.x0 - a.x1), float(wm * max(b.width, b.height)))
        return None
    if harness == "H3_neighbors":
        vertical = inp["vertical"]
        cls = lt.LTTextLineVertical if vertical else lt.LTTextLineHorizontal
        l1, l2 = cls(0.1), cls(0.1)
        l1.set_bbox(tuple(F(v) for v in inp["l1"]))          # exact rationals: counterexamples often sit on a coincidence of two coordinates, which a float conversion can destroy
        l2.set_bbox(tuple(F(v) for v in inp["l2"]))
        e1, e2 = [F(v) for v in inp["l1"]], [F(v) for v in inp["l2"]]
        ratio = F(str(inp["ratio"]))
        plane = u.Plane((0, 0, 50, 50))
        plane.extend([l1, l2])
        got = any(o is l2 for o in l1.find_neighbors(plane, ratio))
        if not vertical:
            d = ratio * (e1[3] - e1[1])
            close = e2[0] < e1[2] and e1[0] < e2[2] and e2[1] < e1[3] + d and e1[1] - d < e2[3]
            size = abs((e2[3] - e2[1]) - (e1[3] - e1[1])) <= d
            align = abs(e2[0] - e1[0]) <= d or abs(e2[2] - e1[2]) <= d or abs((e2[0] + e2[2]) / 2 - (e1[0] + e1[2]) / 2) <= d
        else:
            d = ratio * (e1[2] - e1[0])
            close = e2[1] < e1[3] and e1[1] < e2[3] and e2[0] < e1[2] + d and e1[0] - d < e2[2]
            size = abs((e2[2] - e2[0]) - (e1[2] - e1[0])) <= d
            align = abs(e2[1] - e1[1]) <= d or abs(e2[3] - e1[3]) <= d or abs((e2[1] + e2[3]) / 2 - (e1[1] + e1[3]) / 2) <= d
        want = close and size and align
        return None if got == want else "lines %r and %r (%s), line_margin %s: neighbour reported=%s, documented relation says %s (close=%s same size=%s aligned=%s)" % (
            tuple(map(float, e1)), tuple(map(float, e2)), "vertical" if vertical else "horizontal", inp["ratio"], got, want, close, size, align)
    if harness == "H4_order" and "order" in inp:
        boxes = {"a": (0, 20, 10, 30), "b": (0, 0, 10, 10), "c": (40, 20, 50, 30)}
        pg = lt.LTPage(1, (0, 0, 100, 100))
        for t in inp["order"]:
            pg.add(_char(t, boxes[t]))
        bf = None if inp["bf"] is None else F(inp["bf"])
        pg.analyze(laparams(boxes_flow=None if bf is None else fl(bf)))
        texts = "".join(o.get_text().strip() for o in pg if isinstance(o, lt.LTTextBox))
        exp = "acb" if bf is None else ("abc" if bf < F(1, 3) else "cab")
        return None if texts == exp else "paragraphs a (0,20,10,30), b (0,0,10,10), c (40,20,50,30) added in the order %s, boxes_flow=%r: reading order %r, expected %r" % (inp["order"], None if bf is None else float(bf), texts, exp)
    if harness == "H4_order":
        a, b = _char("a", inp["a"]), _char("b", inp["b"])
        pg = lt.LTPage(1, (0, 0, 100, 100))
        for c in ([b, a] if inp["first_b"] else [a, b]):
            pg.add(c)
        bf = None if inp["bf"] is None else fl(F(inp["bf"]))
        pg.analyze(laparams(boxes_flow=bf))
        texts = [o.get_text() for o in pg if isinstance(o, lt.LTTextBox)]
        if (pg.groups is None) != (bf is None):
            return "glyph a at %r, b at %r, boxes_flow=%r: the page %s a group hierarchy" % (a.bbox, b.bbox, bf, "has no" if pg.groups is None else "has")
        return None if texts == ["a\n", "b\n"] else "glyph a at %r, b at %r, boxes_flow=%r: boxes come out as %r" % (a.bbox, b.bbox, bf, texts)
    if harness == "H5_scale":
        num, den = inp["scale"]
        sigs = []
        for k in (F(1), F(num, den)):
            pg = lt.LTPage(1, (0, 0, fl(80 * k), fl(80 * k)))
            for (t, *bb) in inp["spec"]:
                pg.add(_char(t, [F(v) * k for v in bb]))
            pg.analyze(laparams(boxes_flow=None if inp["flow_none"] else 0.5))
            sigs.append(signature(pg))
        return None if sigs[0] == sigs[1] else "glyphs %r: layout %r, after scaling by %d/%d: %r" % ([(s[0],) + tuple(float(F(v)) for v in s[1:]) for s in inp["spec"]], sigs[0], num, den, sigs[1])
    raise KeyError(harness)


def jobs(tier):
    J = [Job("H6_group3:%d" % k, "h6_group3", {"part": [k, 12, 10]}, 300, "H6_group3") for k in range(12)]
    if tier == "quick":
        for k in range(3):
            J.append(Job("H1_line:%d" % k, "h1_line", {"part": [k, 3, 7]}, 300, "H1_line"))
            J.append(Job("H1_line:v:%d" % k, "h1_line_v", {"part": [k, 3, 7]}, 300, "H1_line"))
        for v in (False, True):
            for k in range(3):
                J.append(Job("H3_neighbors:%s:%d" % ("v" if v else "h", k), "h3_neighbors", {"vertical": v, "part": [k, 3, 8]}, 300, "H3_neighbors"))
        for k in range(3):
            J.append(Job("H4_order:%d" % k, "h4_order", {"part": [k, 3, 7]}, 300, "H4_order"))
        J.append(Job("H4_order:columns", "h4_columns", {}, 300, "H4_order"))
        for k in range(3):
            J.append(Job("H5_scale:fixed:%d" % k, "h5_scale", {"family": "fixed", "part": [k, 3, 8]}, 300, "H5_scale"))
        for k in range(8):
            J.append(Job("H5_scale:general:%d" % k, "h5_scale", {"family": "general", "part": [k, 8, 10]}, 300, "H5_scale"))
    else:
        for k in range(4):
            J.append(Job("H1_line:%d" % k, "h1_line", {"part": [k, 4, 8]}, 900, "H1_line"))
            J.append(Job("H1_line:v:%d" % k, "h1_line_v", {"part": [k, 4, 8]}, 900, "H1_line"))
        for v in (False, True):
            for k in range(4):
                J.append(Job("H3_neighbors:%s:%d" % ("v" if v else "h", k), "h3_neighbors", {"vertical": v, "part": [k, 4, 8]}, 900, "H3_neighbors"))
        J.append(Job("H4_order", "h4_order", {}, 900, "H4_order"))
        J.append(Job("H4_order:columns", "h4_columns", {}, 900, "H4_order"))
        for k in range(16):
            J.append(Job("H5_scale:general:%d" % k, "h5_scale", {"family": "general", "part": [k, 16, 12]}, 1800, "H5_scale"))
        for k in range(4):
            J.append(Job("H5_scale:fixed:%d" % k, "h5_scale", {"family": "fixed", "part": [k, 4, 9]}, 900, "H5_scale"))
    return J
