"""C10 - decryption (the reachable part): permission bits, where decryption is applied, padding removal, per-object key material.

MD5 / SHA-2 / AES / the RC4 key schedule are hash and cipher loops behind C libraries: key derivation (Algorithms 2, 2.A, 2.B, 3-7),
password acceptance / rejection and cipher correctness are NOT claimed.  Claimed, with those primitives replaced by recording stubs:
H1 permission bits for every signed 32-bit P        H2 every non-empty string leaf is deciphered exactly once with the enclosing (objid, genno);
object-stream members are not deciphered            H3 AES: PKCS#5 padding of every length removed from symbolic plaintext
H4 RC4 / AESV2 per-object key material = file key + 3 low bytes of objid + 2 low bytes of genno (little endian) [+ 'sAlT']; RC4 applied twice is the identity
H5 EncryptMetadata=false leaves /Type /Metadata streams alone and nothing else
"""
import types

import z3

from engine import symx, sbytes
from engine.symx import SB, SI
from engine.sbytes import SBy, SByI
from harness import numshim
from lib import core
from lib.core import Job

ASSUMPTIONS = [
    "md5 / Cipher / Arcfour(key) are replaced by recording stubs that return values of their contract: what is checked is the plumbing around them",
    "H3: the AES stub returns plaintext || PKCS#5 padding for a symbolic pad length 1..16 and symbolic plaintext bytes",
]
OUTSIDE = ["key derivation, password check, cipher correctness (C libraries / hash loops): not claimed", "crypt filters other than V2 / AESV2 / AESV3 / Identity"]


def _mk_handler(cls, **attrs):
    h = cls.__new__(cls)
    for k, v in attrs.items():
        setattr(h, k, v)
    return h


def h1_permissions(timeout=60, **kw):
    import pdfminer.pdfdocument as pd
    shims = numshim.install("pdftypes", "pdfdocument")

    def fn(ex):
        P = ex.int("P", -2 ** 31, 2 ** 31 - 1)
        h = _mk_handler(pd.PDFStandardSecurityHandler, param={"V": 1, "R": 2, "P": P, "O": b"o" * 32, "U": b"u" * 32}, docid=[b"id"], password="")
        h.init_params()
        bit = lambda k: z3.Not(((P.e / (2 ** k)) % 2) == 0)          # two's complement bit k (floor division)
        for name, k in (("is_printable", 2), ("is_modifiable", 3), ("is_extractable", 4)):
            got = getattr(h, name)()
            ex.require(SB(bit(k)) if got else SB(z3.Not(bit(k))), "%s() does not report bit %d of P" % (name, k + 1), P=P, name=name)

    def conc(m, info):
        return {"P": symx.mval(m, info["P"]), "name": info["name"]}
    return core.run_symx("H1_permissions", fn, [pd.PDFStandardSecurityHandler.init_params, pd.PDFStandardSecurityHandler.is_printable, pd.PDFStandardSecurityHandler.is_modifiable,
                                                pd.PDFStandardSecurityHandler.is_extractable], {"P": "every signed 32-bit integer"}, timeout, concretize=conc, shims={"namespace_shims": shims})


SHAPES = ["bytes", "empty", "int", "name", "list", "dict", "nested", "none"]


def _build(shape, tag):
    from pdfminer.psparser import LIT
    if shape == "bytes":
        return b"S" + tag
    if shape == "empty":
        return b""
    if shape == "int":
        return 7
    if shape == "name":
        return LIT("N")
    if shape == "none":
        return None
    if shape == "list":
        return [b"a" + tag, 3, b"b" + tag]
    if shape == "dict":
        return {"K": b"k" + tag, "N": LIT("x"), "E": b""}
    return {"A": [b"x" + tag, {"B": b"y" + tag}], "C": 1.5}


def _strings(x, out):
    if isinstance(x, bytes):
        if x:
            out.append(x)
    elif isinstance(x, list):
        for v in x:
            _strings(v, out)
    elif isinstance(x, dict):
        for v in x.values():
            _strings(v, out)
    return out


def _undo(x):
    if isinstance(x, bytes):
        return x[4:] if x.startswith(b"DEC:") else x
    if isinstance(x, list):
        return [_undo(v) for v in x]
    if isinstance(x, dict):
        return {k: _undo(v) for k, v in x.items()}
    return x


def h2_where(timeout=100, **kw):
    import pdfminer.pdfdocument as pd
    import pdfminer.pdftypes as pt
    from harness import C02

    def fn(ex):
        s1 = SHAPES[ex.choice(len(SHAPES), "shape1")]
        s2 = SHAPES[ex.choice(len(SHAPES), "shape2")]
        where2 = ex.choice(2, "where2")          # object 2: direct, or a member of an object stream
        caching = ex.choice(2, "caching") == 1
        calls = []

        def decipher(objid, genno, data, attrs=None):
            calls.append((objid, genno, data))
            return b"DEC:" + data
        spec = [{1: ("d",), 2: ("d",) if where2 == 0 else ("s", 0)}]
        doc, log = C02.make_doc(spec, caching)
        doc.decipher = decipher
        values = {1: _build(s1, b"1"), 2: _build(s2, b"2")}
        orig_parse = doc._getobj_parse

        def parse(pos, objid):
            r = orig_parse(pos, objid)
            return r if objid >= 20 else _build({1: s1, 2: s2}[objid], b"%d" % objid)
        doc._getobj_parse = parse
        orig_objs = doc._get_objects
        doc._get_objects = lambda stream: ([2, 0, 91, 10, 92, 20, _build(s2, b"2"), 0, 0], 3)
        doc.xrefs[0].table[1] = (None, 1, 5)     # genno 5 for object 1
        info = {"shape1": s1, "shape2": s2, "where2": where2, "caching": caching}
        for oid in (1, 2, 1):
            got = doc.getobj(oid)
            plain = values[oid]
            ex.require(_undo(got) == plain and type(got) == type(plain), "getobj(%d) changed the object beyond deciphering its strings: %r" % (oid, got), **info)
            want_dec = not (oid == 2 and where2 == 1)
            strs = _strings(got, [])
            ex.require(all(s.startswith(b"DEC:") and not s.startswith(b"DEC:DEC:") for s in strs) if want_dec else all(not s.startswith(b"DEC:") for s in strs),
                       "getobj(%d): strings deciphered %s, expected %s" % (oid, strs, "exactly once" if want_dec else "not at all (object-stream member)"), **info)
        exp_calls = [(1, 5, s) for s in _strings(values[1], [])] + ([(2, 0, s) for s in _strings(values[2], [])] if where2 == 0 else [])
        n_expected = len(exp_calls) if caching else len(exp_calls) + len(_strings(values[1], []))
        ex.require(sorted(set(calls)) == sorted(set(exp_calls)), "the cipher was called with %r, expected every non-empty string with the enclosing (objid, genno): %r" % (calls, exp_calls), **info)
        ex.require(len(calls) == n_expected, "%d cipher calls, expected %d" % (len(calls), n_expected), **info)

    def conc(m, info):
        return info
    return core.run_symx("H2_where", fn, [pt.decipher_all, pd.PDFDocument.getobj], {"objects": "two objects of shapes %r" % SHAPES, "object2": "direct or object-stream member", "caching": "on/off"},
                         timeout, concretize=conc)


def h3_padding(timeout=150, part=None, **kw):
    import pdfminer.pdfdocument as pd
    pd.bytes = sbytes.BytesT
    state = {}

    class FakeCipher:
        def __init__(self, *a, **k):
            pass

        def decryptor(self):
            return self

        def update(self, ct):
            state["ct"] = ct
            return state["padded"]
    pd.Cipher = FakeCipher
    pd.algorithms = types.SimpleNamespace(AES=lambda key: key)
    pd.modes = types.SimpleNamespace(CBC=lambda iv: iv)
    pd.default_backend = lambda: None
    pd.md5 = lambda data: types.SimpleNamespace(digest=lambda: b"0123456789abcdef")
    pd.struct = types.SimpleNamespace(pack=lambda fmt, v: (int(v) % 2 ** 32).to_bytes(4, "little"))

    def fn(ex):
        which = ex.choice(2, "aes")              # AESV2 (128) / AESV3 (256)
        nblocks = 1 + ex.choice(2, "blocks")
        pad = ex.int("pad", 1, 16)
        k = pad.__index__()
        total = 16 * nblocks
        plain = sbytes.sym_bytes(ex, "p", total - k)
        state["padded"] = SByI(plain.els + [k] * k)
        data = bytes(range(16)) + bytes(total)
        if which == 0:
            h = _mk_handler(pd.PDFStandardSecurityHandlerV4, key=b"k" * 16)
            out = h.decrypt_aes128(3, 0, data)
        else:
            h = _mk_handler(pd.PDFStandardSecurityHandlerV5, key=b"k" * 32)
            out = h.decrypt_aes256(3, 0, data)
        info = {"pad": k, "plain": plain, "which": which}
        ex.require(state["ct"] == data[16:], "the first 16 bytes (initialisation vector) were not split off the cipher text", **info)
        ex.require(len(out) == len(plain) and (len(plain) == 0 or SBy.of(out) == plain), "decrypted data of %d bytes with %d bytes of padding is returned as %d bytes" % (total, k, len(out)), **info)

    def conc(m, info):
        return {"pad": info["pad"], "plain": sbytes.model_bytes(m, info["plain"]), "which": info["which"]}
    return core.run_symx("H3_padding", fn, [f for f in [getattr(pd, "unpad_aes", None)] if f] + [pd.PDFStandardSecurityHandlerV4.decrypt_aes128, pd.PDFStandardSecurityHandlerV5.decrypt_aes256],
                         {"pad_length": "symbolic 1..16", "plaintext": "all bytes symbolic, 1 or 2 blocks", "cipher": "stub returning plaintext || padding"}, timeout, concretize=conc, part=part,
                         int_lo=0, int_hi=17)


def h4_keys(timeout=100, **kw):
    import pdfminer.pdfdocument as pd
    shims = numshim.install("pdfdocument")
    rec = {}

    def py_pack(fmt, v):
        assert fmt == "<L"
        if isinstance(v, SI):
            if not bool(SB(z3.And(v.e >= 0, v.e < 2 ** 32))):
                raise ValueError("argument out of range")
            return SBy([(v.e / 256 ** k) % 256 for k in range(4)])
        return int(v).to_bytes(4, "little")
    pd.struct = types.SimpleNamespace(pack=py_pack)

    def fake_md5(data):
        rec["md5"] = data
        return types.SimpleNamespace(digest=lambda: b"0123456789abcdefXYZ"[:16])
    pd.md5 = fake_md5

    class FakeArc:
        def __init__(self, key):
            rec["rc4key"] = key

        def decrypt(self, data):
            return b"rc4(" + data + b")"
    pd.Arcfour = FakeArc

    class FakeCipher:
        def __init__(self, key, *a, **k):
            rec["aeskey"] = key

        def decryptor(self):
            return self

        def update(self, ct):
            return b"\x10" * 16
    pd.Cipher = FakeCipher
    pd.algorithms = types.SimpleNamespace(AES=lambda key: key)
    pd.modes = types.SimpleNamespace(CBC=lambda iv: iv)
    pd.default_backend = lambda: None

    def fn(ex):
        objid = ex.int("objid", 0, 2 ** 24 + 5)
        genno = ex.int("genno", 0, 70000)
        mode = ex.choice(2, "mode")              # RC4 / AESV2
        klen = [5, 16][ex.choice(2, "keylen")] if mode == 0 else 16      # AESV2 always has a 128-bit file key
        fkey = bytes(range(1, klen + 1))
        info = {"objid": objid, "genno": genno, "klen": klen, "mode": mode}
        if mode == 0:
            h = _mk_handler(pd.PDFStandardSecurityHandler, key=fkey)
            out = h.decrypt_rc4(objid, genno, b"DATA")
            ex.require(out == b"rc4(DATA)", "decrypt_rc4 does not return the cipher output", **info)
            used = rec["rc4key"]
        else:
            h = _mk_handler(pd.PDFStandardSecurityHandlerV4, key=fkey)
            h.decrypt_aes128(objid, genno, bytes(32))
            used = rec["aeskey"]
        hashed = SBy.of(rec["md5"])
        exp = list(fkey) + [objid.e % 256, (objid.e / 256) % 256, (objid.e / 65536) % 256, genno.e % 256, (genno.e / 256) % 256] + (list(b"sAlT") if mode == 1 else [])
        ex.require(len(hashed) == len(exp) and SBy(exp) == hashed, "the hashed key material is not key + objid[0:3] + genno[0:2] (little endian)%s" % (" + 'sAlT'" if mode else ""), **info)
        ex.require(used == b"0123456789abcdef"[:min(klen + 5, 16)], "the object key is not the first min(n+5,16) bytes of the hash", **info)

    def conc(m, info):
        return {"objid": symx.mval(m, info["objid"]), "genno": symx.mval(m, info["genno"]), "klen": info["klen"], "mode": info["mode"]}
    return core.run_symx("H4_keys", fn, [pd.PDFStandardSecurityHandler.decrypt_rc4, pd.PDFStandardSecurityHandlerV4.decrypt_aes128],
                         {"objid": "symbolic 0..2^24+5", "genno": "symbolic 0..70000", "file_key": "5 or 16 bytes", "method": "V2 / AESV2"}, timeout, concretize=conc,
                         shims={"namespace_shims": shims + ["struct.pack('<L') -> little-endian arithmetic", "md5 / Arcfour / Cipher recording stubs"]})


def h4_rc4(n=3, timeout=200, **kw):
    import pdfminer.arcfour as af
    af.bytes = sbytes.BytesT

    def fn(ex):
        key = [b"k", b"key12", bytes(range(16))][ex.choice(3, "key")]
        data = sbytes.sym_bytes(ex, "d", n)
        enc = af.Arcfour(key).process(SByI(data.els))
        dec = af.Arcfour(key).process(SByI(SBy.of(enc).els))
        ex.require(len(dec) == n and SBy.of(dec) == data, "RC4 applied twice with the same key is not the identity", data=data, key=key)

    def conc(m, info):
        return {"data": sbytes.model_bytes(m, info["data"]), "key": info["key"]}
    return core.run_symx("H4_rc4", fn, [af.Arcfour.process, af.Arcfour.__init__], {"data": "%d symbolic bytes" % n, "key": "3 fixed keys"}, timeout, concretize=conc)


def h5_metadata(timeout=60, **kw):
    import pdfminer.pdfdocument as pd
    from pdfminer.psparser import LIT

    def fn(ex):
        em = ex.choice(2, "encrypt_metadata") == 1
        typ = [None, "Metadata", "XObject", "Catalog"][ex.choice(4, "type")]
        has_attrs = ex.choice(2, "has_attrs") == 1
        h = _mk_handler(pd.PDFStandardSecurityHandlerV4, encrypt_metadata=em, strf="StdCF", cfm={"StdCF": lambda o, g, d: b"DEC:" + d, "Identity": lambda o, g, d: d})
        attrs = ({} if typ is None else {"Type": LIT(typ)}) if has_attrs else None
        out = h.decrypt(4, 0, b"data", attrs)
        exp = b"data" if (not em and attrs is not None and typ == "Metadata") else b"DEC:data"
        ex.require(out == exp, "decrypt(EncryptMetadata=%s, Type=%r) = %r, expected %r" % (em, typ, out, exp), em=em, typ=typ, has_attrs=has_attrs)

    def conc(m, info):
        return info
    return core.run_symx("H5_metadata", fn, [pd.PDFStandardSecurityHandlerV4.decrypt], {"EncryptMetadata": "true/false", "Type": [None, "Metadata", "XObject", "Catalog"], "attrs": "present/absent (strings)"},
                         timeout, concretize=conc)


def replay(harness, inp):
    import pdfminer.pdfdocument as pd
    if harness == "H1_permissions":
        P = inp["P"]
        h = _mk_handler(pd.PDFStandardSecurityHandler, param={"V": 1, "R": 2, "P": P, "O": b"o" * 32, "U": b"u" * 32}, docid=[b"id"], password="")
        h.init_params()
        for name, k in (("is_printable", 2), ("is_modifiable", 3), ("is_extractable", 4)):
            if getattr(h, name)() != bool((P >> k) & 1):
                return "P=%d: %s() = %s, bit %d of P is %d" % (P, name, getattr(h, name)(), k + 1, (P >> k) & 1)
        return None
    if harness == "H3_padding":
        from cryptography.hazmat.primitives.ciphers import Cipher, algorithms, modes
        plain, k = inp["plain"], inp["pad"]
        padded = plain + bytes([k]) * k
        if inp["which"] == 0:
            from hashlib import md5
            import struct
            fkey = b"k" * 16
            okey = md5(fkey + struct.pack("<L", 3)[:3] + struct.pack("<L", 0)[:2] + b"sAlT").digest()[:16]
            h = _mk_handler(pd.PDFStandardSecurityHandlerV4, key=fkey)
            f = h.decrypt_aes128
        else:
            okey = b"k" * 32
            h = _mk_handler(pd.PDFStandardSecurityHandlerV5, key=okey)
            f = h.decrypt_aes256
        iv = bytes(range(16))
        enc = Cipher(algorithms.AES(okey), modes.CBC(iv)).encryptor()
        ct = enc.update(padded) + enc.finalize()
        out = f(3, 0, iv + ct)
        return None if out == plain else "AES-%s: plaintext %r padded with %d bytes decrypts to %r" % ("128" if inp["which"] == 0 else "256", plain, k, out)
    if harness == "H4_keys":
        import struct
        from hashlib import md5
        from pdfminer.arcfour import Arcfour
        fkey = bytes(range(1, inp["klen"] + 1))
        objid, genno = inp["objid"], inp["genno"]
        mat = fkey + struct.pack("<L", objid)[:3] + struct.pack("<L", genno)[:2]
        if inp["mode"] == 0:
            h = _mk_handler(pd.PDFStandardSecurityHandler, key=fkey)
            exp = Arcfour(md5(mat).digest()[:min(len(mat), 16)]).decrypt(b"DATA")
            got = h.decrypt_rc4(objid, genno, b"DATA")
            return None if got == exp else "decrypt_rc4(objid=%d, genno=%d) does not use key + 3 bytes objid + 2 bytes genno" % (objid, genno)
        from cryptography.hazmat.primitives.ciphers import Cipher, algorithms, modes
        okey = md5(mat + b"sAlT").digest()[:16]
        iv = bytes(16)
        enc = Cipher(algorithms.AES(okey), modes.CBC(iv)).encryptor()
        ct = enc.update(b"sixteen byte msg" + b"\x10" * 16) + enc.finalize()
        h = _mk_handler(pd.PDFStandardSecurityHandlerV4, key=fkey)
        got = h.decrypt_aes128(objid, genno, iv + ct)
        return None if got == b"sixteen byte msg" else "decrypt_aes128(objid=%d, genno=%d) does not use key + 3 bytes objid + 2 bytes genno + sAlT" % (objid, genno)
    if harness == "H4_rc4":
        from pdfminer.arcfour import Arcfour
        d = inp["data"]
        return None if Arcfour(inp["key"]).process(Arcfour(inp["key"]).process(d)) == d else "RC4 twice is not the identity on %r" % d
    if harness == "H5_metadata":
        from pdfminer.psparser import LIT
        h = _mk_handler(pd.PDFStandardSecurityHandlerV4, encrypt_metadata=inp["em"], strf="StdCF", cfm={"StdCF": lambda o, g, d: b"DEC:" + d, "Identity": lambda o, g, d: d})
        attrs = ({} if inp["typ"] is None else {"Type": LIT(inp["typ"])}) if inp["has_attrs"] else None
        out = h.decrypt(4, 0, b"data", attrs)
        exp = b"data" if (not inp["em"] and attrs is not None and inp["typ"] == "Metadata") else b"DEC:data"
        return None if out == exp else "decrypt with EncryptMetadata=%s on an object of Type %r returns %r, expected %r" % (inp["em"], inp["typ"], out, exp)
    if harness == "H2_where":
        return core.replay_by_choices(h2_where, {}, inp["_choices"])
    raise KeyError(harness)


def jobs(tier):
    J = [Job("H1_permissions", "h1_permissions", {}, 60), Job("H2_where", "h2_where", {}, 150), Job("H4_keys", "h4_keys", {}, 150), Job("H5_metadata", "h5_metadata", {}, 60)]
    for k in range(2):
        J.append(Job("H3_padding:%d" % k, "h3_padding", {"part": [k, 2, 5]}, 200, "H3_padding"))
    # H4_rc4 (RC4 twice = identity on symbolic data) is not registered: the XOR of two symbolic bytes does not get a solver verdict within
    # the query timeout (int<->bit-vector conversions); cipher correctness is not claimed anyway (DESIGN.md section 5).
    return J
