"""C10 - decryption: permission bits, where decryption is applied, padding removal, per-object key material, and key derivation / password
authentication with the hash and cipher primitives as uninterpreted functions.

MD5 / SHA-2 / AES / RC4 themselves are hash and cipher loops (behind C libraries, or XOR-heavy): their correctness is NOT claimed.
H1 permission bits for every signed 32-bit P        H2 every non-empty string leaf is deciphered exactly once with the enclosing (objid, genno);
object-stream members are not deciphered            H3 AES: PKCS#5 padding of every length removed from symbolic plaintext
H4 RC4 / AESV2 per-object key material = file key + 3 low bytes of objid + 2 low bytes of genno (little endian) [+ 'sAlT']
H5 EncryptMetadata=false leaves /Type /Metadata streams alone and nothing else
H6 key derivation: the real compute_encryption_key / compute_u / authenticate_* (R2-R4), V5.authenticate (R5, R6) and _r6_password run on byte-string
proxies with md5 / sha256/384/512 / RC4 / AES-CBC replaced by z3 uninterpreted functions; the oracle is ISO 32000-1 Algorithms 2-7 and ISO 32000-2
Algorithms 2.A / 2.B written on the same functions; the solver decides equality of the derived keys by congruence.
"""
import types

import z3

from engine import symx, sbytes
from engine.symx import SB, SI
from engine.sbytes import SBy, SByI
from harness import numshim
from lib import core
from lib.core import Job

ASSUMPTIONS = [
    "H2-H5: md5 / Cipher / Arcfour(key) are replaced by recording stubs that return values of their contract: what is checked is the plumbing around them",
    "H3: the AES stub returns plaintext || PKCS#5 padding for a symbolic pad length 1..16 and symbolic plaintext bytes",
    "H6: md5, sha256/384/512, RC4, AES-CBC and byte^constant are uninterpreted functions; laws assumed: outputs are bytes, x^0 = x, deciphering with the same key (and IV) undoes "
    "enciphering, and (R5/R6 authenticate only) SHA-256 / Algorithm 2.B are collision free on the inputs met",
    "H6_r6hash: the first AES output block of round r is fixed to (c_r, 0, .., 0) with c_r following the job's SHA-selection pattern; the loop ends after 64..66 rounds; the 64 copies "
    "of the round input and each AES output are kept folded (absorbed as one unit)",
    "H6_r5 with R6: the password is printable ASCII (SASLprep is the identity there; _saslprep itself - Unicode tables - is not examined)",
    "H6 counterexamples are confirmed on the real MD5 / SHA / AES / RC4: directly (R2-R5), or by a bounded search over passwords / salts of the counterexample's shape (Algorithm 2.B, whose "
    "round count depends on real hash values)",
]
OUTSIDE = ["cipher and hash correctness (C libraries / XOR loops): not claimed", "rejection of wrong passwords (needs collision resistance of the real hashes)", "SASLprep normalisation beyond one real password pair with compatibility characters in H7 (the Unicode tables of _saslprep are not examined)",
           "crypt filters other than V2 / AESV2 / AESV3 / Identity", "passwords longer than 33 bytes (R2-R4) / 3 bytes (R5, R6)"]


def sym_pack(fmt, *vals):
    """struct.pack for the standard-size integer formats (<, >, = and ! prefixes; b B h H i I l L q Q with counts), on ints or symbolic ints"""
    import re
    import struct
    if not any(isinstance(v, SI) for v in vals):
        return struct.pack(fmt, *vals)
    m = re.fullmatch(r"([<>=!])((?:\d*[bBhHiIlLqQx])+)", fmt)
    if not m:
        raise symx.Unsupported("struct.pack(%r) on a symbolic int" % fmt)
    big = m.group(1) in (">", "!")
    sizes = {"b": 1, "B": 1, "h": 2, "H": 2, "i": 4, "I": 4, "l": 4, "L": 4, "q": 8, "Q": 8}
    out, vals = [], list(vals)
    for cnt, ch in re.findall(r"(\d*)([bBhHiIlLqQx])", m.group(2)):
        for _ in range(int(cnt or 1)):
            if ch == "x":
                out.append(0)
                continue
            if not vals:
                raise struct.error("pack expected more items for packing")
            v, n = vals.pop(0), sizes[ch]
            signed = ch.islower()
            lo, hi = (-(1 << (8 * n - 1)), (1 << (8 * n - 1)) - 1) if signed else (0, (1 << (8 * n)) - 1)
            if isinstance(v, SI):
                if not bool(SB(z3.And(v.e >= lo, v.e <= hi))):
                    raise struct.error("argument out of range")
                e = z3.If(v.e < 0, v.e + (1 << (8 * n)), v.e) if signed else v.e
                bs = [(e / 256 ** k) % 256 for k in range(n)]
            else:
                if not lo <= v <= hi:
                    raise struct.error("argument out of range")
                bs = list((v % (1 << (8 * n))).to_bytes(n, "little"))
            out += bs[::-1] if big else bs
    if vals:
        raise struct.error("pack expected fewer items for packing")
    return SBy(out)


def _mk_handler(cls, **attrs):
    h = cls.__new__(cls)
    for k, v in attrs.items():
        setattr(h, k, v)
    return h


def h1_permissions(timeout=60, **kw):
    import pdfminer.pdfdocument as pd
    shims = numshim.install("pdftypes", "pdfdocument")

    def fn(ex):
        P = ex.int("P", -2 ** 31, 2 ** 31 - 1)
        h = _mk_handler(pd.PDFStandardSecurityHandler, param={"V": 1, "R": 2, "P": P, "O": b"o" * 32, "U": b"u" * 32}, docid=[b"id"], password="")
        h.init_params()
        bit = lambda k: z3.Not(((P.e / (2 ** k)) % 2) == 0)          # two's complement bit k (floor division)
        for name, k in (("is_printable", 2), ("is_modifiable", 3), ("is_extractable", 4)):
            got = getattr(h, name)()
            ex.require(SB(bit(k)) if got else SB(z3.Not(bit(k))), "%s() does not report bit %d of P" % (name, k + 1), P=P, name=name)

    def conc(m, info):
        return {"P": symx.mval(m, info["P"]), "name": info["name"]}
    return core.run_symx("H1_permissions", fn, [pd.PDFStandardSecurityHandler.init_params, pd.PDFStandardSecurityHandler.is_printable, pd.PDFStandardSecurityHandler.is_modifiable,
                                                pd.PDFStandardSecurityHandler.is_extractable], {"P": "every signed 32-bit integer"}, timeout, concretize=conc, shims={"namespace_shims": shims})


SHAPES = ["bytes", "empty", "int", "name", "list", "dict", "nested", "none", "list-in-list", "deep"]


def _build(shape, tag):
    from pdfminer.psparser import LIT
    if shape == "bytes":
        return b"S" + tag
    if shape == "empty":
        return b""
    if shape == "int":
        return 7
    if shape == "name":
        return LIT("N")
    if shape == "none":
        return None
    if shape == "list":
        return [b"a" + tag, 3, b"b" + tag]
    if shape == "dict":
        return {"K": b"k" + tag, "N": LIT("x"), "E": b""}
    if shape == "list-in-list":
        return [[b"p" + tag, b"q" + tag], [b"r" + tag], 4]
    if shape == "deep":
        return {"Opt": [[b"e" + tag, [b"f" + tag, {"G": [b"g" + tag]}]]], "T": (b"t" + tag,) if False else b"t" + tag}
    return {"A": [b"x" + tag, {"B": b"y" + tag}], "C": 1.5}


def _strings(x, out):
    if isinstance(x, bytes):
        if x:
            out.append(x)
    elif isinstance(x, list):
        for v in x:
            _strings(v, out)
    elif isinstance(x, dict):
        for v in x.values():
            _strings(v, out)
    return out


def _undo(x):
    if isinstance(x, bytes):
        return x[4:] if x.startswith(b"DEC:") else x
    if isinstance(x, list):
        return [_undo(v) for v in x]
    if isinstance(x, dict):
        return {k: _undo(v) for k, v in x.items()}
    return x


def h2_where(timeout=100, **kw):
    import pdfminer.pdfdocument as pd
    import pdfminer.pdftypes as pt
    from harness import C02

    def fn(ex):
        s1 = SHAPES[ex.choice(len(SHAPES), "shape1")]
        s2 = SHAPES[ex.choice(len(SHAPES), "shape2")]
        where2 = ex.choice(2, "where2")          # object 2: direct, or a member of an object stream
        caching = ex.choice(2, "caching") == 1
        calls = []

        def decipher(objid, genno, data, attrs=None):
            calls.append((objid, genno, data))
            return b"DEC:" + data
        spec = [{1: ("d",), 2: ("d",) if where2 == 0 else ("s", 0)}]
        doc, log = C02.make_doc(spec, caching)
        doc.decipher = decipher
        values = {1: _build(s1, b"1"), 2: _build(s2, b"2")}
        orig_parse = doc._getobj_parse

        def parse(pos, objid):
            r = orig_parse(pos, objid)
            return r if objid >= 20 else _build({1: s1, 2: s2}[objid], b"%d" % objid)
        doc._getobj_parse = parse
        orig_objs = doc._get_objects
        doc._get_objects = lambda stream: ([2, 0, 91, 10, 92, 20, _build(s2, b"2"), 0, 0], 3)
        doc.xrefs[0].table[1] = (None, 1, 5)     # genno 5 for object 1
        info = {"shape1": s1, "shape2": s2, "where2": where2, "caching": caching}
        for oid in (1, 2, 1):
            got = doc.getobj(oid)
            plain = values[oid]
            ex.require(_undo(got) == plain and type(got) == type(plain), "getobj(%d) changed the object beyond deciphering its strings: %r" % (oid, got), **info)
            want_dec = not (oid == 2 and where2 == 1)
            strs = _strings(got, [])
            ex.require(all(s.startswith(b"DEC:") and not s.startswith(b"DEC:DEC:") for s in strs) if want_dec else all(not s.startswith(b"DEC:") for s in strs),
                       "getobj(%d): strings deciphered %s, expected %s" % (oid, strs, "exactly once" if want_dec else "not at all (object-stream member)"), **info)
        exp_calls = [(1, 5, s) for s in _strings(values[1], [])] + ([(2, 0, s) for s in _strings(values[2], [])] if where2 == 0 else [])
        n_expected = len(exp_calls) if caching else len(exp_calls) + len(_strings(values[1], []))
        ex.require(sorted(set(calls)) == sorted(set(exp_calls)), "the cipher was called with %r, expected every non-empty string with the enclosing (objid, genno): %r" % (calls, exp_calls), **info)
        ex.require(len(calls) == n_expected, "%d cipher calls, expected %d" % (len(calls), n_expected), **info)

    def conc(m, info):
        return info
    return core.run_symx("H2_where", fn, [pt.decipher_all, pd.PDFDocument.getobj], {"objects": "two objects of shapes %r" % SHAPES, "object2": "direct or object-stream member", "caching": "on/off"},
                         timeout, concretize=conc)


def h3_padding(timeout=150, part=None, **kw):
    import pdfminer.pdfdocument as pd
    pd.bytes = sbytes.BytesT
    state = {}

    class FakeCipher:
        def __init__(self, *a, **k):
            pass

        def decryptor(self):
            return self

        def update(self, ct):
            state["ct"] = ct
            return state["padded"]
    pd.Cipher = FakeCipher
    pd.algorithms = types.SimpleNamespace(AES=lambda key: key)
    pd.modes = types.SimpleNamespace(CBC=lambda iv: iv)
    pd.default_backend = lambda: None
    pd.md5 = lambda data: types.SimpleNamespace(digest=lambda: b"0123456789abcdef")
    pd.struct = types.SimpleNamespace(pack=sym_pack)

    def fn(ex):
        which = ex.choice(2, "aes")              # AESV2 (128) / AESV3 (256)
        nblocks = 1 + ex.choice(2, "blocks")
        pad = ex.int("pad", 1, 16)
        k = pad.__index__()
        total = 16 * nblocks
        plain = sbytes.sym_bytes(ex, "p", total - k)
        state["padded"] = SByI(plain.els + [k] * k)
        data = bytes(range(16)) + bytes(total)
        if which == 0:
            h = _mk_handler(pd.PDFStandardSecurityHandlerV4, key=b"k" * 16)
            out = h.decrypt_aes128(3, 0, data)
        else:
            h = _mk_handler(pd.PDFStandardSecurityHandlerV5, key=b"k" * 32)
            out = h.decrypt_aes256(3, 0, data)
        info = {"pad": k, "plain": plain, "which": which}
        ex.require(state["ct"] == data[16:], "the first 16 bytes (initialisation vector) were not split off the cipher text", **info)
        ex.require(len(out) == len(plain) and (len(plain) == 0 or SBy.of(out) == plain), "decrypted data of %d bytes with %d bytes of padding is returned as %d bytes" % (total, k, len(out)), **info)

    def conc(m, info):
        return {"pad": info["pad"], "plain": sbytes.model_bytes(m, info["plain"]), "which": info["which"]}
    return core.run_symx("H3_padding", fn, [f for f in [getattr(pd, "unpad_aes", None)] if f] + [pd.PDFStandardSecurityHandlerV4.decrypt_aes128, pd.PDFStandardSecurityHandlerV5.decrypt_aes256],
                         {"pad_length": "symbolic 1..16", "plaintext": "all bytes symbolic, 1 or 2 blocks", "cipher": "stub returning plaintext || padding"}, timeout, concretize=conc, part=part,
                         int_lo=0, int_hi=17)


def h4_keys(timeout=100, **kw):
    import pdfminer.pdfdocument as pd
    shims = numshim.install("pdfdocument")
    rec = {}

    py_pack = sym_pack
    import struct as _struct
    pd.struct = types.SimpleNamespace(pack=py_pack, error=_struct.error)

    def fake_md5(data):
        rec["md5"] = data
        return types.SimpleNamespace(digest=lambda: b"0123456789abcdefXYZ"[:16])
    pd.md5 = fake_md5

    class FakeArc:
        def __init__(self, key):
            rec["rc4key"] = key

        def decrypt(self, data):
            return b"rc4(" + data + b")"
    pd.Arcfour = FakeArc

    class FakeCipher:
        def __init__(self, key, *a, **k):
            rec["aeskey"] = key

        def decryptor(self):
            return self

        def update(self, ct):
            return b"\x10" * 16
    pd.Cipher = FakeCipher
    pd.algorithms = types.SimpleNamespace(AES=lambda key: key)
    pd.modes = types.SimpleNamespace(CBC=lambda iv: iv)
    pd.default_backend = lambda: None

    def fn(ex):
        objid = ex.int("objid", 0, 2 ** 24 + 5)
        genno = ex.int("genno", 0, 70000)
        mode = ex.choice(2, "mode")              # RC4 / AESV2
        klen = [5, 16][ex.choice(2, "keylen")] if mode == 0 else 16      # AESV2 always has a 128-bit file key
        fkey = bytes(range(1, klen + 1))
        info = {"objid": objid, "genno": genno, "klen": klen, "mode": mode}
        if mode == 0:
            h = _mk_handler(pd.PDFStandardSecurityHandler, key=fkey)
            out = h.decrypt_rc4(objid, genno, b"DATA")
            ex.require(out == b"rc4(DATA)", "decrypt_rc4 does not return the cipher output", **info)
            used = rec["rc4key"]
        else:
            h = _mk_handler(pd.PDFStandardSecurityHandlerV4, key=fkey)
            h.decrypt_aes128(objid, genno, bytes(32))
            used = rec["aeskey"]
        hashed = SBy.of(rec["md5"])
        exp = list(fkey) + [objid.e % 256, (objid.e / 256) % 256, (objid.e / 65536) % 256, genno.e % 256, (genno.e / 256) % 256] + (list(b"sAlT") if mode == 1 else [])
        ex.require(len(hashed) == len(exp) and SBy(exp) == hashed, "the hashed key material is not key + objid[0:3] + genno[0:2] (little endian)%s" % (" + 'sAlT'" if mode else ""), **info)
        ex.require(used == b"0123456789abcdef"[:min(klen + 5, 16)], "the object key is not the first min(n+5,16) bytes of the hash", **info)

    def conc(m, info):
        return {"objid": symx.mval(m, info["objid"]), "genno": symx.mval(m, info["genno"]), "klen": info["klen"], "mode": info["mode"]}
    return core.run_symx("H4_keys", fn, [pd.PDFStandardSecurityHandler.decrypt_rc4, pd.PDFStandardSecurityHandlerV4.decrypt_aes128],
                         {"objid": "symbolic 0..2^24+5", "genno": "symbolic 0..70000", "file_key": "5 or 16 bytes", "method": "V2 / AESV2"}, timeout, concretize=conc,
                         shims={"namespace_shims": shims + ["struct.pack('<L') -> little-endian arithmetic", "md5 / Arcfour / Cipher recording stubs"]})


def h4_rc4(n=3, timeout=200, **kw):
    import pdfminer.arcfour as af
    af.bytes = sbytes.BytesT

    def fn(ex):
        key = [b"k", b"key12", bytes(range(16))][ex.choice(3, "key")]
        data = sbytes.sym_bytes(ex, "d", n)
        enc = af.Arcfour(key).process(SByI(data.els))
        dec = af.Arcfour(key).process(SByI(SBy.of(enc).els))
        ex.require(len(dec) == n and SBy.of(dec) == data, "RC4 applied twice with the same key is not the identity", data=data, key=key)

    def conc(m, info):
        return {"data": sbytes.model_bytes(m, info["data"]), "key": info["key"]}
    return core.run_symx("H4_rc4", fn, [af.Arcfour.process, af.Arcfour.__init__], {"data": "%d symbolic bytes" % n, "key": "3 fixed keys"}, timeout, concretize=conc)


def h5_metadata(timeout=60, **kw):
    import pdfminer.pdfdocument as pd
    from pdfminer.psparser import LIT

    def fn(ex):
        em = ex.choice(2, "encrypt_metadata") == 1
        typ = [None, "Metadata", "XObject", "Catalog"][ex.choice(4, "type")]
        has_attrs = ex.choice(2, "has_attrs") == 1
        h = _mk_handler(pd.PDFStandardSecurityHandlerV4, encrypt_metadata=em, strf="StdCF", cfm={"StdCF": lambda o, g, d: b"DEC:" + d, "Identity": lambda o, g, d: d})
        attrs = ({} if typ is None else {"Type": LIT(typ)}) if has_attrs else None
        out = h.decrypt(4, 0, b"data", attrs)
        exp = b"data" if (not em and attrs is not None and typ == "Metadata") else b"DEC:data"
        ex.require(out == exp, "decrypt(EncryptMetadata=%s, Type=%r) = %r, expected %r" % (em, typ, out, exp), em=em, typ=typ, has_attrs=has_attrs)

    def conc(m, info):
        return info
    return core.run_symx("H5_metadata", fn, [pd.PDFStandardSecurityHandlerV4.decrypt], {"EncryptMetadata": "true/false", "Type": [None, "Metadata", "XObject", "Catalog"], "attrs": "present/absent (strings)"},
                         timeout, concretize=conc)


# ---------------------------------------------------------------------------------------------------------------------------------
# H6: key derivation with the primitives as UNINTERPRETED FUNCTIONS.  md5 / sha256 / RC4 / AES are z3 functions over an uninterpreted
# state sort (absorb chain + output byte selector), so the solver decides - by congruence - whether the real derivation code hashes and
# enciphers exactly the byte strings that ISO 32000-1 Algorithms 2-7 (and 2.A of ISO 32000-2 for R5) prescribe.  The only laws assumed
# of the primitives (and of byte ^ constant, also uninterpreted): outputs are bytes; x ^ 0 = x; RC4 / AES-CBC deciphering with the same key (and IV) undoes enciphering.
# ---------------------------------------------------------------------------------------------------------------------------------
def _zt(e):
    return e if isinstance(e, z3.ExprRef) else symx.zi(e)


class Rep(SByI):
    """base * count, kept folded (the revision-6 hash enciphers 64 copies of a string)"""
    def __init__(self, base, count):
        self.base, self.count = base, count

    els = property(lambda self: self.base.els * self.count)

    def __len__(self):
        return len(self.base.els) * self.count


class Lazy(SByI):
    """the n output bytes of one cipher application, materialised byte by byte on demand"""
    def __init__(self, uf, blob, n):
        self.uf, self.blob, self.n = uf, blob, n
        self.fixed = {}                              # positions the harness fixes to concrete values

    def byte(self, j):
        if j in self.fixed:
            return self.fixed[j]
        t = self.uf.blob_byte(self.blob, z3.IntVal(j))
        if t.get_id() not in self.uf.ranged:
            self.uf.ranged.add(t.get_id())
            self.uf.ex.s.add(t >= 0, t <= 255)
        return t

    els = property(lambda self: [self.byte(j) for j in range(self.n)])

    def __len__(self):
        return self.n

    def __add__(self, o):
        return self if len(o) == 0 else SByI(self.els + SBy.of(o).els)

    def __radd__(self, o):
        return self if len(o) == 0 else SByI(SBy.of(o).els + self.els)

    def __getitem__(self, k):
        if isinstance(k, slice):
            return SByI([self.byte(j) for j in range(*k.indices(self.n))])
        if isinstance(k, SI):
            k = k.__index__()
        b = self.byte(k if k >= 0 else self.n + k)
        return b if isinstance(b, int) else SI(b, ub=8)


class UF:
    def __init__(self, ex):
        self.ex = ex
        self.St = z3.DeclareSort("HState")
        self.absorb = z3.Function("absorb", self.St, z3.IntSort(), self.St)
        self.out = z3.Function("outbyte", self.St, z3.IntSort(), z3.IntSort())
        self.Blob = z3.DeclareSort("Blob")
        self.absorb_blob = z3.Function("absorb_blob", self.St, self.Blob, self.St)
        self.blob_of = z3.Function("blob_of", self.St, self.Blob)
        self.blob_byte = z3.Function("blob_byte", self.Blob, z3.IntSort(), z3.IntSort())
        self.inits = {}
        self.ranged = set()
        self.calls = []
        self.injective = False             # (also: cipher keys compared by the solver, not syntactically)  collision freedom: equal digests only for equal inputs (needed where the code branches on a digest comparison with a wrong password)
        self.apps = {}

    def _init(self, name):
        if name not in self.inits:
            self.inits[name] = z3.Const("init_" + name, self.St)
        return self.inits[name]

    def chain(self, st, item):
        if isinstance(item, Lazy):                  # the whole output of one cipher application, absorbed in one step
            return self.absorb_blob(st, item.blob)
        if isinstance(item, Rep):                   # base * count: the base, then a marker
            for e in item.base.els:
                st = self.absorb(st, _zt(e))
            return self.absorb(st, z3.IntVal(1000 + item.count))
        for e in SBy.of(item).els:
            st = self.absorb(st, _zt(e))
        return st

    def apply(self, name, parts, nout):
        """parts: list of byte strings, separated in the chain by the non-byte 256"""
        st = self._init(name)
        for k, part in enumerate(parts):
            if k:
                st = self.absorb(st, z3.IntVal(256))
            for item in (part if isinstance(part, list) else [part]):
                st = self.chain(st, item)
        els = []
        for j in range(nout):
            o = self.out(st, z3.IntVal(j))
            if o.get_id() not in self.ranged:
                self.ranged.add(o.get_id())
                self.ex.s.add(o >= 0, o <= 255)
            els.append(o)
        self.calls.append(name)
        if self.injective and name in ("md5", "sha256"):
            flat = [_zt(e) for part in parts for item in (part if isinstance(part, list) else [part]) for e in SBy.of(item).els]
            for st2, flat2, els2 in self.apps.setdefault(name, []):
                if st2.eq(st):
                    break
                same_in = z3.And([a == b for a, b in zip(flat, flat2)]) if len(flat) == len(flat2) else z3.BoolVal(False)
                self.ex.s.add(z3.Implies(z3.And([a == b for a, b in zip(els, els2)]), same_in))
            else:
                self.apps[name].append((st, flat, els))
        return SByI(els)


def _same(ex, a, b, solver=False):
    a, b = SBy.of(a), SBy.of(b)
    if len(a) != len(b):
        return False
    conds = []
    for x, y in zip(a.els, b.els):
        if isinstance(x, int) and isinstance(y, int):
            if x != y:
                return False
        elif not (not isinstance(x, int) and not isinstance(y, int) and x.eq(y)):
            conds.append(_zt(x) == _zt(y))
    # no solver query here: keys that are equal only semantically count as different (the rewrite is then not applied: sound, possibly incomplete)
    if solver:
        return True if not conds else ex.holds(SB(z3.And(conds)))
    return True if not conds else z3.is_true(z3.simplify(z3.And(conds)))


def _install_uf(ex, pd):
    """replaces md5 / sha256 / Arcfour / Cipher in pdfdocument's namespace by uninterpreted functions; returns the UF object and reference-side helpers"""
    uf = UF(ex)

    class Hash:
        NAME, N = "md5", 16

        def __init__(self, data=b""):
            self.items = [data]

        def update(self, data):
            self.items.append(data)

        def digest(self):
            return uf.apply(self.NAME, [self.items], self.N)

    class Sha256(Hash):
        NAME, N = "sha256", 32

    class Sha384(Hash):
        NAME, N = "sha384", 48

    class Sha512(Hash):
        NAME, N = "sha512", 64
    uf.Sha384, uf.Sha512 = Sha384, Sha512

    def stream(name, key, data, iv=None):
        """a cipher applied to data: undoes itself on its own output with the same key (and IV), else a fresh application"""
        tag = getattr(data, "_ciph", None)
        if tag is not None and tag[0] == name and _same(ex, tag[1], key, uf.injective) and (iv is None or _same(ex, tag[2], iv, uf.injective)):
            return tag[3]
        out = uf.apply(name, [key, data] + ([iv] if iv is not None else []), len(data))
        out._ciph = (name, key, iv, data)
        return out

    class Arc:
        def __init__(self, key):
            self.key = SBy.of(key)

        def process(self, data):
            return stream("rc4", self.key, data if isinstance(data, SBy) else SByI(list(data)))
        encrypt = decrypt = process

    class Ciph:
        def __init__(self, key, mode, backend=None):
            self.key, self.iv = SBy.of(key), SBy.of(mode)

        def decryptor(self):
            return self

        def update(self, data):
            return stream("aes_cbc", self.key, data if isinstance(data, SBy) else SByI(list(data)), self.iv)

    py_pack = sym_pack
    xorf = z3.Function("xor8", z3.IntSort(), z3.IntSort(), z3.IntSort())

    def uf_xor(a, o):
        """byte ^ constant as an uninterpreted function (x ^ 0 = x is the only law used): div/mod bit arithmetic on digests stalls the solver"""
        if isinstance(o, int) and not isinstance(o, bool) and 0 <= o <= 255:
            if o == 0:
                return a
            t = xorf(a.e, z3.IntVal(o))
            if t.get_id() not in uf.ranged:
                uf.ranged.add(t.get_id())
                ex.s.add(t >= 0, t <= 255)
            return SI(t, ub=8)
        raise symx.Unsupported("xor of a symbolic byte with %r" % (o,))
    SI.__xor__ = SI.__rxor__ = uf_xor
    import struct as _struct
    pd.struct = types.SimpleNamespace(pack=py_pack, error=_struct.error)
    pd.md5, pd.sha256, pd.Arcfour, pd.Cipher = Hash, Sha256, Arc, Ciph
    pd.algorithms = types.SimpleNamespace(AES=lambda key: key)
    pd.modes = types.SimpleNamespace(CBC=lambda iv: iv)
    pd.default_backend = lambda: None
    def bytes_(x=b"", *a):
        # bytes((c,)) of a value already known to be a byte needs no solver query
        if isinstance(x, tuple) and len(x) == 1 and isinstance(x[0], SI) and x[0].e.get_id() in uf.ranged:
            return SBy([x[0].e])
        return sbytes.BytesT(x, *a)
    pd.bytes = bytes_
    return uf, Hash, Sha256, stream


PADDING = (b"(\xbfN^Nu\x8aAd\x00NV\xff\xfa\x01\x08" b"..\x00\xb6\xd0h>\x80/\x0c\xa9\xfedSiz")
PWLENS = [0, 1, 33]


def _xor_key(key, i):
    return SBy([(e ^ i) if isinstance(e, int) else (SI(e) ^ i).e for e in SBy.of(key).els])


def h6_keyderiv(rev=3, timeout=300, part=None, pwlens=None, keybytes=None, **kw):
    """Algorithms 2-7 for R2-R4 (RC4 / AESV2 handlers): both the user and the owner password derive the file key the standard prescribes"""
    import pdfminer.pdfdocument as pd
    shims = numshim.install("pdfdocument", "pdftypes")
    patched = sbytes.patch_module_in(pd)

    def fn(ex):
        uf, Hash, Sha256, stream = _install_uf(ex, pd)
        PW = list(pwlens or PWLENS)
        KB = list(keybytes or [5, 7, 16])
        n = 5 if rev == 2 else (16 if rev == 4 else KB[ex.choice(len(KB), "keybytes")])
        em = (ex.choice(2, "encrypt_metadata") == 1) if rev == 4 else True
        upw = SByI(sbytes.sym_bytes(ex, "u", PW[ex.choice(len(PW), "ulen")]).els)
        opw = SByI(sbytes.sym_bytes(ex, "o", PW[ex.choice(len(PW), "olen")]).els)
        docid = SByI(sbytes.sym_bytes(ex, "id", 2).els)
        Ps = ex.int("P", -2 ** 31, 2 ** 31 - 1)              # as stored: a signed 32-bit integer
        P = SI(z3.If(Ps.e < 0, Ps.e + 2 ** 32, Ps.e))
        tail = sbytes.sym_bytes(ex, "t", 16)                  # Algorithm 5: 16 bytes of arbitrary padding
        pad = lambda pw: (pw + PADDING)[:32]
        # ---- reference: Algorithm 3 (O), Algorithm 2 (key), Algorithms 4/5 (U)
        h = Hash(pad(opw)).digest()
        if rev >= 3:
            for _ in range(50):
                h = Hash(h).digest()
        okey = h[:n]
        O = stream("rc4", okey, pad(upw))
        if rev >= 3:
            for i in range(1, 20):
                O = stream("rc4", _xor_key(okey, i), O)
        hh = Hash(pad(upw))
        hh.update(O)
        hh.update(SBy([(P.e / 256 ** k) % 256 for k in range(4)]))
        hh.update(docid)
        if rev >= 4 and not em:
            hh.update(b"\xff\xff\xff\xff")
        key = hh.digest()
        if rev >= 3:
            for _ in range(50):
                key = Hash(key[:n]).digest()
        key = key[:n]
        if rev == 2:
            U = stream("rc4", key, SByI(list(PADDING)))
        else:
            x = Hash(PADDING)
            x.update(docid)
            x = stream("rc4", key, x.digest())
            for i in range(1, 20):
                x = stream("rc4", _xor_key(key, i), x)
            U = x + tail
        nref = len(uf.calls)
        # ---- the real handler
        cls = pd.PDFStandardSecurityHandlerV4 if rev == 4 else pd.PDFStandardSecurityHandler
        info = {"rev": rev, "n": n, "em": em, "upw": upw, "opw": opw, "docid": docid, "P": Ps, "tail": tail}
        hd = _mk_handler(cls, docid=[docid], r=rev, v=4 if rev == 4 else (1 if rev == 2 else 2), p=pd.uint_value(Ps, 32), o=O, u=U, length=n * 8, encrypt_metadata=em)
        for who, pw in (("user", upw), ("owner", opw)):
            try:
                got = hd.authenticate_user_password(pw) if who == "user" else hd.authenticate_owner_password(pw)
            except Exception as e:
                ex.require(False, "authenticating the %s password raises %r" % (who, e), who=who, **info)
            ex.require(got is not None, "the %s password is rejected" % who, who=who, **info)
            ex.require(len(got) == n and SBy.of(got) == key, "the %s password derives a file key other than the one of Algorithm 2" % who, who=who, **info)

    def conc(m, info):
        mb = lambda x: sbytes.model_bytes(m, x)
        return {"rev": info["rev"], "n": info["n"], "em": info["em"], "upw": mb(info["upw"]), "opw": mb(info["opw"]), "docid": mb(info["docid"]), "P": symx.mval(m, info["P"]),
                "tail": mb(info["tail"]), "who": info["who"]}
    H = pd.PDFStandardSecurityHandler
    return core.run_symx("H6_keyderiv", fn, [pd.uint_value, H.compute_encryption_key, H.compute_u, H.verify_encryption_key, H.authenticate_user_password, H.authenticate_owner_password],
                         {"revision": rev, "key bytes": "5" if rev == 2 else ("16" if rev == 4 else "%r" % (keybytes or [5, 7, 16])), "passwords": "user and owner, %r symbolic bytes each" % (pwlens or PWLENS), "P": "symbolic signed 32-bit, through the real uint_value",
                          "ID[0]": "2 symbolic bytes", "EncryptMetadata": "true/false (R4)", "primitives": "md5 / RC4 as uninterpreted functions"}, timeout, concretize=conc,
                         shims={"namespace_shims": shims + ["md5 / Arcfour -> uninterpreted functions (z3 UF over an absorb chain)", "struct.pack('<L') -> little-endian arithmetic", "pdfdocument.bytes"],
                                "ast_rewritten": patched}, part=part)


LONG_PASSWORDS = ["", "a", "a" * 127, "a" * 128, "a" * 200, "\u00e9" * 63 + "a", "\u00e9" * 64, "\u00e9" * 80, "\u00e9" + "a" * 130, "a" * 126 + "\u00e9", "\u20ac" * 50]


def h6_r5(rev=5, timeout=200, concrete=False, **kw):
    """Algorithm 2.A (AESV3): either password recovers the file key stored in UE / OE.  rev=5: SHA-256 hash (Adobe extension level 3); rev=6: the hash is Algorithm 2.B,
    here one more uninterpreted function (H6_r6hash checks _r6_password against 2.B), the password is assumed to be in SASLprep normal form"""
    import pdfminer.pdfdocument as pd
    shims = numshim.install("pdfdocument")

    class PW:
        """stands for the str password: utf-8 encodes to the symbolic bytes"""
        def __init__(self, b): self.b = b
        def __bool__(self): return len(self.b) > 0
        def encode(self, enc): return self.b
        def __getitem__(self, k): raise symx.Unsupported("character indexing of the symbolic password (only its UTF-8 bytes are modelled)")
        def __len__(self): raise symx.Unsupported("character count of the symbolic password")
        def __getattr__(self, name): raise symx.Unsupported("str.%s on the symbolic password" % name)

    def fn(ex):
        uf, Hash, Sha256, stream = _install_uf(ex, pd)
        uf.injective = True
        lo, hi = (0, 255) if rev == 5 else (33, 126)        # rev 6: printable ASCII, on which SASLprep is the identity
        if concrete:                                        # real str passwords around the 127-byte limit (UTF-8 encoded, THEN truncated: ISO 32000-2 7.6.4.3.2)
            ustr, ostr = LONG_PASSWORDS[ex.choice(len(LONG_PASSWORDS), "upw")], LONG_PASSWORDS[ex.choice(len(LONG_PASSWORDS), "opw")]
            upw, opw = SByI(list(ustr.encode("utf-8")[:127])), SByI(list(ostr.encode("utf-8")[:127]))
        else:
            ustr = ostr = None
            upw = SByI(sbytes.sym_bytes(ex, "u", [0, 1, 3][ex.choice(3, "ulen")], lo, hi).els)
            opw = SByI(sbytes.sym_bytes(ex, "o", [0, 1, 3][ex.choice(3, "olen")], lo, hi).els)
        fkey = SByI(sbytes.sym_bytes(ex, "k", 32).els)
        uvs, uks, ovs, oks = (SByI(sbytes.sym_bytes(ex, nm, 8).els) for nm in ("uvs", "uks", "ovs", "oks"))
        sha = lambda *parts: Sha256(sum(parts[1:], parts[0])).digest()
        if rev == 6:
            if not concrete:
                import pdfminer._saslprep as sp
                sp.saslprep = lambda p, **k: p
            r6 = lambda self, pw, salt, vector=None: uf.apply("sha256", [[b"2.B"], pw, salt, vector if vector is not None else b""], 32)     # shares sha256's collision freedom
            pd.PDFStandardSecurityHandlerV5._r6_password = r6
            sha = lambda pw, salt, vector=None: r6(None, pw, salt, vector)
        iv0 = SByI([0] * 16)
        U = sha(upw, uvs) + uvs + uks
        UE = stream("aes_cbc_enc", sha(upw, uks), fkey, iv0)
        UE._ciph = ("aes_cbc", UE._ciph[1], iv0, fkey)              # deciphering UE with that key and IV gives the file key
        O = sha(opw, ovs, U) + ovs + oks
        OE = stream("aes_cbc_enc", sha(opw, oks, U), fkey, iv0)
        OE._ciph = ("aes_cbc", OE._ciph[1], iv0, fkey)
        hd = _mk_handler(pd.PDFStandardSecurityHandlerV5, r=rev, v=5, u=U, o=O, ue=UE, oe=OE, o_hash=O[:32], o_validation_salt=O[32:40], o_key_salt=O[40:],
                         u_hash=U[:32], u_validation_salt=U[32:40], u_key_salt=U[40:])
        info = {"upw": upw, "opw": opw, "fkey": fkey, "salts": [uvs, uks, ovs, oks], "ustr": ustr, "ostr": ostr}
        for who, pw in (("user", upw), ("owner", opw)):
            try:
                got = hd.authenticate(PW(pw) if not concrete else (ustr if who == "user" else ostr))
            except symx.Violation:
                raise
            except Exception as e:
                ex.require(False, "authenticating the %s password raised %s: %s" % (who, type(e).__name__, e), who=who, **info)
            ex.require(got is not None, "the %s password is rejected" % who, who=who, **info)
            ex.require(len(got) == 32 and SBy.of(got) == fkey, "the %s password recovers a key other than the file key" % who, who=who, **info)

    def conc(m, info):
        mb = lambda x: sbytes.model_bytes(m, x)
        return {"rev": rev, "upw": mb(info["upw"]), "opw": mb(info["opw"]), "fkey": mb(info["fkey"]), "salts": [mb(x) for x in info["salts"]], "who": info["who"],
                "ustr": info["ustr"], "ostr": info["ostr"]}
    H = pd.PDFStandardSecurityHandlerV5
    return core.run_symx("H6_r5", fn, [H.authenticate, H._password_hash, H._r5_password, H._normalize_password],
                         {"revision": rev, "passwords": ("user and owner from %d real strings around the 127-byte UTF-8 limit" % len(LONG_PASSWORDS)) if concrete else "user and owner, 0 / 1 / 3 symbolic bytes", "salts, file key": "symbolic bytes", "primitives": "sha256 / AES-CBC as uninterpreted functions"},
                         timeout, concretize=conc, shims={"namespace_shims": shims + ["sha256 / Cipher -> uninterpreted functions"]})


def r6_reference(pw, salt, ud):
    """ISO 32000-2 Algorithm 2.B on the real primitives: (hash, rounds)"""
    import hashlib
    from cryptography.hazmat.primitives.ciphers import Cipher, algorithms, modes
    k = hashlib.sha256(pw + salt + ud).digest()
    i = 0
    while True:
        enc = Cipher(algorithms.AES(k[:16]), modes.CBC(k[16:32])).encryptor()
        e = enc.update((pw + k + ud) * 64) + enc.finalize()
        k = (hashlib.sha256, hashlib.sha384, hashlib.sha512)[int.from_bytes(e[:16], "big") % 3](e).digest()
        i += 1
        if i >= 64 and e[-1] <= i - 32:
            return k[:32], i


R6_PATTERNS = {"sha256": lambda r: 0, "sha384": lambda r: 1, "sha512": lambda r: 2, "cycle": lambda r: r % 3, "mixed": lambda r: (r * r + 1) % 3}
R6_EXTRA = 2


def h6_r6hash(pattern="cycle", timeout=300, extra=None, part=None, **kw):
    """Algorithm 2.B (ISO 32000-2 7.6.4.3.4): the revision-6 hash, with SHA-256/384/512 and AES-128-CBC as uninterpreted functions.  The AES outputs are constrained so
    that the SHA selection follows `pattern` and the loop ends after 64 .. 64+R6_EXTRA rounds; the last byte of the 64th.. outputs stays symbolic."""
    import pdfminer.pdfdocument as pd
    shims = numshim.install("pdfdocument")
    R6_EXTRA = globals()["R6_EXTRA"] if extra is None else extra

    def fn(ex):
        uf, Hash, Sha256, stream = _install_uf(ex, pd)
        pd.sha384, pd.sha512 = uf.Sha384, uf.Sha512
        SByI.__mul__ = lambda b, k: Rep(b, k)
        order, sel = [], {}

        def aes_enc(key, iv, data):
            st = uf._init("aes128_cbc_enc")
            for part in (key, iv, data):
                st = uf.absorb(uf.chain(st, part), z3.IntVal(256))
            blob = uf.blob_of(st)
            e = Lazy(uf, blob, len(data))
            if blob.get_id() in sel:
                e.fixed = {0: sel[blob.get_id()], **{j: 0 for j in range(1, 16)}}
            else:
                r = len(order)
                if r > 64 + R6_EXTRA + 2:
                    raise symx.Abort()                                   # outside the bound (more rounds than the constraints below allow: only a wrong loop gets here)
                order.append(blob)
                c = R6_PATTERNS[pattern](r)
                sel[blob.get_id()] = c
                e.fixed = {0: c, **{j: 0 for j in range(1, 16)}}          # first block (c, 0, .., 0): residues mod 3 as free constraints do not get a solver verdict in time
                if r >= 63 + R6_EXTRA:
                    ex.s.add(e.byte(len(data) - 1) <= (r + 1) - 32)      # the loop ends here at the latest
            return e

        class Ciph6:
            def __init__(self, key, mode, backend=None):
                self.key, self.iv = key, mode

            def encryptor(self):
                return self

            def update(self, data):
                return aes_enc(self.key, self.iv, data)

            def finalize(self):
                return b""
        pd.Cipher = Ciph6
        pw = SByI(sbytes.sym_bytes(ex, "p", [0, 1, 3][ex.choice(3, "pwlen")]).els)
        salt = SByI(sbytes.sym_bytes(ex, "s", 8).els)
        udata = SByI(sbytes.sym_bytes(ex, "v", 48).els) if ex.choice(2, "has_udata") else None
        info = {"pw": pw, "salt": salt, "udata": udata, "pattern": pattern}
        hd = _mk_handler(pd.PDFStandardSecurityHandlerV5, r=6)
        got = hd._password_hash(pw, salt, udata)
        # ---- reference: Algorithm 2.B
        ud = udata if udata is not None else SByI([])
        k = Sha256(pw + salt + ud).digest()
        i = 0
        while True:
            k1 = Rep(pw + k + ud, 64)
            e = aes_enc(k[:16], k[16:32], k1)
            c = sel[e.blob.get_id()]                                       # = (first 16 bytes as a big-endian number) mod 3, by the constraint on this output
            k = (Sha256, uf.Sha384, uf.Sha512)[c](e).digest()
            i += 1                                                         # rounds done
            if i >= 64 and not bool(SB(e.byte(len(e) - 1) > i - 32)):
                break
            if i > 64 + R6_EXTRA + 2:
                raise symx.Abort()
        ex.require(len(got) == 32 and SBy.of(got) == k[:32], "the revision-6 hash differs from Algorithm 2.B", rounds=i, **info)

    def conc(m, info):
        mb = lambda x: None if x is None else sbytes.model_bytes(m, x)
        return {"pw": mb(info["pw"]), "salt": mb(info["salt"]), "udata": mb(info["udata"]), "pattern": info["pattern"], "rounds": info["rounds"]}
    H = pd.PDFStandardSecurityHandlerV5
    return core.run_symx("H6_r6hash", fn, [H._password_hash, H._r6_password, H._bytes_mod_3, H._aes_cbc_encrypt],
                         {"password": "0 / 1 / 3 symbolic bytes", "salt": "8 symbolic bytes", "udata": "absent or 48 symbolic bytes", "sha selection": "pattern %r (the first AES output block is fixed to (c, 0, .., 0), c the pattern's residue mod 3)" % pattern,
                          "rounds": "64 .. %d (last byte of the AES output symbolic)" % (64 + R6_EXTRA), "primitives": "SHA-256/384/512, AES-128-CBC as uninterpreted functions; 64 copies kept folded"},
                         timeout, concretize=conc, shims={"namespace_shims": shims + ["sha256/384/512, Cipher -> uninterpreted functions"]}, int_lo=0, int_hi=2, part=part)


# ------------------------------------------------------------------------------------------ H7 really encrypted documents, opened in call histories
DOC_PAIRS = [("", ""), ("user", "owner"), ("", "own"), ("u" * 40, "\u00e9w"), ("p\u00b2", "\ufb01x")]
COMPAT_PAIR = 4          # compatibility characters (superscript two, fi ligature): an R6 writer stores the hash of the SASLprep form (RFC 4013 step 2: NFKC -> "p2", "fix"); not Latin-1, so only used with the V5 schemes
DOC_PS = [-44, -3904, -1, -64]
DOC_HISTORIES = ["alone", "then-other", "then-other-rejected", "other-first"]
DOC_TEXT = "Hello"


def _doc_objects(tag):
    from lib.pdfgen import Ref, Stream
    return {1: {"Type": "Catalog", "Pages": Ref(2), "Lang": b"lang-" + tag, "Metadata": Ref(6), "Extra": [b"in (an) array", {"K": b"in a \\ dict"}, [[b"twice nested", [b"thrice"]]]]},
            2: {"Type": "Pages", "Kids": [Ref(4)], "Count": 1}, 3: {"Type": "Font", "Subtype": "Type1", "BaseFont": "Helvetica"},
            4: {"Type": "Page", "Parent": Ref(2), "MediaBox": [0, 0, 200, 200], "Contents": Ref(5), "Resources": {"Font": {"F1": Ref(3)}}},
            5: Stream({}, b"BT /F1 10 Tf 10 100 Td (" + DOC_TEXT.encode() + b" " + tag + b") Tj ET"),
            6: Stream({"Type": "Metadata", "Subtype": "XML"}, b"<x:xmpmeta>" + tag + b"</x:xmpmeta>"),
            300: Stream({}, b"stream of object 300 " + tag)}


def _pw_bytes(rev, pw):
    if rev == 6:          # ISO 32000-2 7.6.4.3.2: SASLprep, then UTF-8. For the passwords used here SASLprep is the NFKC step alone (no mapped-to-nothing, prohibited or bidirectional characters)
        import unicodedata
        return unicodedata.normalize("NFKC", pw).encode("utf-8")
    return pw.encode("utf-8") if rev >= 5 else pw.encode("latin-1")


def _docs_check(sel):
    """a document encrypted by the reference encryptor (lib/pdfenc.py, written from ISO 32000-1 7.6 / 32000-2 7.6.4) is opened with the user or the owner password - alone, before or after another
    encrypted document is opened (or rejected) in the same process - and every string, stream, the extracted text and the permission flags are those of the plain original; reading twice gives the same"""
    import io
    from lib import pdfenc
    from pdfminer.pdfparser import PDFParser
    from pdfminer.pdfdocument import PDFDocument, PDFPasswordIncorrect
    from pdfminer.pdftypes import resolve1
    from pdfminer.high_level import extract_text
    scheme, other = pdfenc.SCHEMES[sel["scheme"]], pdfenc.SCHEMES[sel["other"]]
    upw, opw = DOC_PAIRS[sel["pair"] if (scheme >= "v5" or sel["pair"] != COMPAT_PAIR) else 1]
    P, em, caching, hist = DOC_PS[sel["P"]], bool(sel["em"]), bool(sel["caching"]), DOC_HISTORIES[sel["history"]]
    encA = pdfenc.Encryptor(scheme, *[_pw_bytes(2 if scheme < "v5" else (6 if scheme == "v5-r6" else 5), x) for x in (upw, opw)], P=P, encrypt_metadata=em)
    plain = _doc_objects(b"A")
    dataA = encA.document(plain)
    encB = pdfenc.Encryptor(other, b"bu", b"bo", docid=b"another-doc-id..", filekey=bytes(range(7, 39)))
    dataB = encB.document(_doc_objects(b"B"))
    pw = opw if sel["opener"] else upw
    desc = "%s document (user %r, owner %r, P=%d, EncryptMetadata=%s) opened with the %s password, caching=%s, history %s (other document: %s)" % (
        scheme, upw, opw, P, em, "owner" if sel["opener"] else "user", caching, hist, other)

    def open_b(password):
        try:
            d = PDFDocument(PDFParser(io.BytesIO(dataB)), password, caching=caching)
            d.getobj(1)
            return d
        except PDFPasswordIncorrect:
            return None
    try:
        if hist == "other-first":
            open_b("bu")
        doc = PDFDocument(PDFParser(io.BytesIO(dataA)), pw, caching=caching)
        if hist == "then-other":
            open_b("bo")
        elif hist == "then-other-rejected":
            if open_b("not the password") is not None:
                return "%s: the other document accepted a wrong password" % desc
        for rnd in (1, 2):
            cat = doc.getobj(1)
            got = (cat["Lang"], resolve1(cat["Extra"])[0], resolve1(cat["Extra"])[1]["K"], doc.getobj(5).get_data(), doc.getobj(6).get_data(), doc.getobj(300).get_data(), resolve1(cat["Extra"])[2])
            exp = (plain[1]["Lang"], plain[1]["Extra"][0], plain[1]["Extra"][1]["K"], plain[5].data, plain[6].data, plain[300].data, plain[1]["Extra"][2])
            if got != exp:
                k = [i for i in range(len(exp)) if got[i] != exp[i]][0]
                return "%s: reading %d: %s is %r, the original has %r" % (desc, rnd, ["the catalog string", "the string in an array", "the string in a nested dictionary", "the content stream", "the metadata stream", "stream 300", "the strings in nested arrays"][k], got[k][:40], exp[k][:40])
            if rnd == 1 and not caching:
                for n in (5, 6, 300):                    # with caching off every getobj parses and deciphers again
                    if doc.getobj(n).get_data() != plain[n].data:
                        return "%s: stream %d read a second time differs from the original" % (desc, n)
        flags = (doc.is_printable, doc.is_modifiable, doc.is_extractable)
        if flags != (bool(P & 4), bool(P & 8), bool(P & 16)):
            return "%s: permissions (print, modify, extract) reported as %r, P has %r" % (desc, flags, (bool(P & 4), bool(P & 8), bool(P & 16)))
        if P & 16:
            txt = extract_text(io.BytesIO(dataA), password=pw, caching=caching)
            if txt.strip() != DOC_TEXT + " A":
                return "%s: extracted text %r, the original shows %r" % (desc, txt, DOC_TEXT + " A")
        for wrong in ("no", "x" + upw):
            if wrong not in (upw, opw):
                try:
                    PDFDocument(PDFParser(io.BytesIO(dataA)), wrong, caching=caching)
                    return "%s: the password %r was accepted" % (desc, wrong)
                except PDFPasswordIncorrect:
                    pass
    except Exception as e:
        return "%s: raised %s: %s" % (desc, type(e).__name__, e)
    return None


def h7_docs(timeout=300, part=None, **kw):
    import pdfminer.pdfdocument as pd
    from lib import pdfenc

    def fn(ex):
        sel = {"scheme": ex.choice(len(pdfenc.SCHEMES), "scheme"), "pair": ex.choice(len(DOC_PAIRS), "pair"), "opener": ex.choice(2, "opener"), "history": ex.choice(len(DOC_HISTORIES), "history"),
               "caching": ex.choice(2, "caching")}
        sel["other"] = ex.choice(len(pdfenc.SCHEMES), "other") if sel["history"] else sel["scheme"]
        sel["em"] = ex.choice(2, "em") if sel["scheme"] >= 2 else 1
        sel["P"] = ex.choice(len(DOC_PS), "P") if (sel["history"] == 0 and sel["pair"] == 1) else 0
        r = _docs_check(sel)
        if r is not None:               # paths share this process: report a history that fails from a cold start
            sc = core.self_contained("C10", "_docs_check", sel, [dict(sel, history=h, other=sel["other"]) for h in range(len(DOC_HISTORIES)) if h != sel["history"]])
            if sc is not None:
                sel, r = sc
        ex.require(r is None, r or "", sel=sel)

    def conc(m, info):
        return info
    H = pd.PDFStandardSecurityHandler
    return core.run_symx("H7_docs", fn, [pd.PDFDocument._initialize_password, H.init_params, H.authenticate, H.decrypt, pd.PDFStandardSecurityHandlerV4.init_params, pd.PDFStandardSecurityHandlerV4.decrypt,
                                         pd.PDFStandardSecurityHandlerV5.authenticate, pd.PDFDocument.getobj],
                         {"document": "7 objects incl. strings at three nesting levels, a Metadata stream and object number 300; schemes %r" % (pdfenc.SCHEMES,), "passwords": DOC_PAIRS, "P": DOC_PS,
                          "histories": DOC_HISTORIES, "caching": "on/off", "primitives": "real (hashlib, cryptography, Arcfour)"}, timeout, concretize=conc, part=part)


def replay(harness, inp):
    if harness == "H7_docs":
        return _docs_check(inp["sel"])
    import pdfminer.pdfdocument as pd
    if harness == "H1_permissions":
        P = inp["P"]
        h = _mk_handler(pd.PDFStandardSecurityHandler, param={"V": 1, "R": 2, "P": P, "O": b"o" * 32, "U": b"u" * 32}, docid=[b"id"], password="")
        h.init_params()
        for name, k in (("is_printable", 2), ("is_modifiable", 3), ("is_extractable", 4)):
            if getattr(h, name)() != bool((P >> k) & 1):
                return "P=%d: %s() = %s, bit %d of P is %d" % (P, name, getattr(h, name)(), k + 1, (P >> k) & 1)
        return None
    if harness == "H3_padding":
        from cryptography.hazmat.primitives.ciphers import Cipher, algorithms, modes
        plain, k = inp["plain"], inp["pad"]
        padded = plain + bytes([k]) * k
        if inp["which"] == 0:
            from hashlib import md5
            import struct
            fkey = b"k" * 16
            okey = md5(fkey + struct.pack("<L", 3)[:3] + struct.pack("<L", 0)[:2] + b"sAlT").digest()[:16]
            h = _mk_handler(pd.PDFStandardSecurityHandlerV4, key=fkey)
            f = h.decrypt_aes128
        else:
            okey = b"k" * 32
            h = _mk_handler(pd.PDFStandardSecurityHandlerV5, key=okey)
            f = h.decrypt_aes256
        iv = bytes(range(16))
        enc = Cipher(algorithms.AES(okey), modes.CBC(iv)).encryptor()
        ct = enc.update(padded) + enc.finalize()
        out = f(3, 0, iv + ct)
        return None if out == plain else "AES-%s: plaintext %r padded with %d bytes decrypts to %r" % ("128" if inp["which"] == 0 else "256", plain, k, out)
    if harness == "H4_keys":
        import struct
        from hashlib import md5
        from pdfminer.arcfour import Arcfour
        fkey = bytes(range(1, inp["klen"] + 1))
        objid, genno = inp["objid"], inp["genno"]
        mat = fkey + struct.pack("<L", objid)[:3] + struct.pack("<L", genno)[:2]
        if inp["mode"] == 0:
            h = _mk_handler(pd.PDFStandardSecurityHandler, key=fkey)
            exp = Arcfour(md5(mat).digest()[:min(len(mat), 16)]).decrypt(b"DATA")
            got = h.decrypt_rc4(objid, genno, b"DATA")
            return None if got == exp else "decrypt_rc4(objid=%d, genno=%d) does not use key + 3 bytes objid + 2 bytes genno" % (objid, genno)
        from cryptography.hazmat.primitives.ciphers import Cipher, algorithms, modes
        okey = md5(mat + b"sAlT").digest()[:16]
        iv = bytes(16)
        enc = Cipher(algorithms.AES(okey), modes.CBC(iv)).encryptor()
        ct = enc.update(b"sixteen byte msg" + b"\x10" * 16) + enc.finalize()
        h = _mk_handler(pd.PDFStandardSecurityHandlerV4, key=fkey)
        got = h.decrypt_aes128(objid, genno, iv + ct)
        return None if got == b"sixteen byte msg" else "decrypt_aes128(objid=%d, genno=%d) does not use key + 3 bytes objid + 2 bytes genno + sAlT" % (objid, genno)
    if harness == "H4_rc4":
        from pdfminer.arcfour import Arcfour
        d = inp["data"]
        return None if Arcfour(inp["key"]).process(Arcfour(inp["key"]).process(d)) == d else "RC4 twice is not the identity on %r" % d
    if harness == "H5_metadata":
        from pdfminer.psparser import LIT
        h = _mk_handler(pd.PDFStandardSecurityHandlerV4, encrypt_metadata=inp["em"], strf="StdCF", cfm={"StdCF": lambda o, g, d: b"DEC:" + d, "Identity": lambda o, g, d: d})
        attrs = ({} if inp["typ"] is None else {"Type": LIT(inp["typ"])}) if inp["has_attrs"] else None
        out = h.decrypt(4, 0, b"data", attrs)
        exp = b"data" if (not inp["em"] and attrs is not None and inp["typ"] == "Metadata") else b"DEC:data"
        return None if out == exp else "decrypt with EncryptMetadata=%s on an object of Type %r returns %r, expected %r" % (inp["em"], inp["typ"], out, exp)
    if harness == "H2_where":
        return core.replay_by_choices(h2_where, {}, inp["_choices"])
    if harness == "H6_keyderiv":
        from hashlib import md5

        def rc4(key, data):
            S, j, out = list(range(256)), 0, bytearray()
            for i in range(256):
                j = (j + S[i] + key[i % len(key)]) % 256
                S[i], S[j] = S[j], S[i]
            i = j = 0
            for c in data:
                i = (i + 1) % 256
                j = (j + S[i]) % 256
                S[i], S[j] = S[j], S[i]
                out.append(c ^ S[(S[i] + S[j]) % 256])
            return bytes(out)
        rev, n, em, upw, opw, docid, P, tail = (inp[k] for k in ("rev", "n", "em", "upw", "opw", "docid", "P", "tail"))
        pad = lambda pw: (pw + PADDING)[:32]
        h = md5(pad(opw)).digest()
        if rev >= 3:
            for _ in range(50):
                h = md5(h).digest()
        okey = h[:n]
        O = rc4(okey, pad(upw))
        if rev >= 3:
            for i in range(1, 20):
                O = rc4(bytes(c ^ i for c in okey), O)
        key = md5(pad(upw) + O + (P % 2 ** 32).to_bytes(4, "little") + docid + (b"\xff" * 4 if rev >= 4 and not em else b"")).digest()
        if rev >= 3:
            for _ in range(50):
                key = md5(key[:n]).digest()
        key = key[:n]
        if rev == 2:
            U = rc4(key, PADDING)
        else:
            x = rc4(key, md5(PADDING + docid).digest())
            for i in range(1, 20):
                x = rc4(bytes(c ^ i for c in key), x)
            U = x + tail
        from pdfminer.psparser import LIT
        param = {"V": 4 if rev == 4 else (1 if rev == 2 else 2), "R": rev, "P": P, "O": O, "U": U, "Length": n * 8}
        cls = pd.PDFStandardSecurityHandler
        if rev == 4:
            cls = pd.PDFStandardSecurityHandlerV4
            param.update({"CF": {"StdCF": {"CFM": LIT("AESV2")}}, "StmF": LIT("StdCF"), "StrF": LIT("StdCF"), "EncryptMetadata": em})
        pw = upw if inp["who"] == "user" else opw
        try:
            hd = cls([docid], param, pw.decode("latin1"))
        except pd.PDFPasswordIncorrect:
            return "R%d, %d-byte key, P=%d, ID=%r, EncryptMetadata=%s: the %s password %r is rejected (user %r, owner %r)" % (rev, n, P, docid, em, inp["who"], pw, upw, opw)
        except Exception as e:
            return "R%d, %d-byte key, P=%d, ID=%r: opening with the %s password %r raises %r" % (rev, n, P, docid, inp["who"], pw, e)
        return None if hd.key == key else "R%d, %d-byte key, P=%d, ID=%r, EncryptMetadata=%s: the %s password %r derives key %s, Algorithm 2 gives %s" % (
            rev, n, P, docid, em, inp["who"], pw, hd.key.hex(), key.hex())
    if harness == "H6_r6hash":
        ref = r6_reference
        hd = _mk_handler(pd.PDFStandardSecurityHandlerV5, r=6)
        salt, ud = inp["salt"], inp["udata"]
        # the symbolic counterexample fixes the shape (lengths, presence of udata, round count); which concrete password / salt meets the round count depends on the
        # real SHA / AES values, so inputs of that shape are tried until the real function and Algorithm 2.B disagree (bounded search; the model's values first)
        import random
        rnd = random.Random(0)
        n = len(inp["pw"])
        cands = [(inp["pw"], salt)] + [(bytes(rnd.randrange(33, 127) for _ in range(n)), bytes(rnd.randrange(256) for _ in range(8))) for _ in range(3000)]
        for pw, sl in cands:
            try:
                got = hd._password_hash(pw, sl, ud)
            except Exception as e:
                return "_r6_password(%r, %r, %r) raises %r" % (pw, sl, ud, e)
            exp, rounds = ref(pw, sl, ud or b"")
            if got != exp:
                return "revision-6 hash of password %r, salt %r, udata %r: %s, Algorithm 2.B (%d rounds) gives %s" % (pw, sl, ud, got.hex(), rounds, exp.hex())
        return None
    if harness == "H6_r5":
        from hashlib import sha256
        from cryptography.hazmat.primitives.ciphers import Cipher, algorithms, modes
        upw, opw, fkey = inp["upw"], inp["opw"], inp["fkey"]
        uvs, uks, ovs, oks = inp["salts"]

        def enc(k, data):
            e = Cipher(algorithms.AES(k), modes.CBC(bytes(16))).encryptor()
            return e.update(data) + e.finalize()
        rev = inp.get("rev", 5)
        H = (lambda *parts: sha256(b"".join(parts)).digest()) if rev == 5 else (lambda pw, salt, ud=b"": r6_reference(pw, salt, ud)[0])
        U = H(upw, uvs) + uvs + uks
        UE = enc(H(upw, uks), fkey)
        O = H(opw, ovs, U) + ovs + oks
        OE = enc(H(opw, oks, U), fkey)
        from pdfminer.psparser import LIT
        param = {"V": 5, "R": rev, "P": -4, "O": O, "U": U, "OE": OE, "UE": UE, "Length": 256, "CF": {"StdCF": {"CFM": LIT("AESV3")}}, "StmF": LIT("StdCF"), "StrF": LIT("StdCF")}
        pw = upw if inp["who"] == "user" else opw
        given = inp.get("ustr") if inp["who"] == "user" else inp.get("ostr")
        try:
            s_pw = given if given is not None else pw.decode("utf-8")
        except UnicodeDecodeError:
            return None                      # not a password a caller can pass as str
        try:
            hd = pd.PDFStandardSecurityHandlerV5([b"id"], param, s_pw)
        except pd.PDFPasswordIncorrect:
            return "R%d: the %s password %r is rejected" % (rev, inp["who"], pw)
        return None if hd.key == fkey else "R%d: the %s password %r recovers %s, the file key is %s" % (rev, inp["who"], pw, hd.key.hex(), fkey.hex())
    raise KeyError(harness)


def jobs(tier):
    if tier == "quick":
        KD = [Job("H6_keyderiv:R2", "h6_keyderiv", {"rev": 2}, 600, "H6_keyderiv")] + [Job("H6_keyderiv:R4:%d" % k, "h6_keyderiv", {"rev": 4, "part": [k, 4, 3]}, 600, "H6_keyderiv") for k in range(4)] + \
             [Job("H6_keyderiv:R3:%d" % k, "h6_keyderiv", {"rev": 3, "part": [k, 6, 4]}, 600, "H6_keyderiv") for k in range(6)] + \
             [Job("H6_r5", "h6_r5", {}, 300), Job("H6_r5:R6", "h6_r5", {"rev": 6}, 300, "H6_r5"), Job("H6_r5:long", "h6_r5", {"concrete": True}, 300, "H6_r5"),
              Job("H6_r5:R6:long", "h6_r5", {"rev": 6, "concrete": True}, 300, "H6_r5")] + \
             [Job("H6_r6hash:%s" % pt, "h6_r6hash", {"pattern": pt}, 600, "H6_r6hash") for pt in ("cycle", "mixed")]
    else:               # more password lengths (around the 32-byte pad), every key length that is a multiple of 8 bits, all five SHA-selection patterns with up to 4 extra rounds
        PW, KB = [0, 1, 31, 32, 33], [5, 6, 7, 8, 10, 12, 13, 16]
        KD = [Job("H6_keyderiv:R2:%d" % k, "h6_keyderiv", {"rev": 2, "pwlens": PW, "part": [k, 2, 3]}, 1200, "H6_keyderiv") for k in range(2)] + \
             [Job("H6_keyderiv:R4:%d" % k, "h6_keyderiv", {"rev": 4, "pwlens": PW, "part": [k, 10, 5]}, 1800, "H6_keyderiv") for k in range(10)] + \
             [Job("H6_keyderiv:R3:%d" % k, "h6_keyderiv", {"rev": 3, "pwlens": [0, 1, 33], "keybytes": KB, "part": [k, 16, 6]}, 1800, "H6_keyderiv") for k in range(16)] + \
             [Job("H6_r5", "h6_r5", {}, 300), Job("H6_r5:R6", "h6_r5", {"rev": 6}, 300, "H6_r5"), Job("H6_r5:long", "h6_r5", {"concrete": True}, 300, "H6_r5"),
              Job("H6_r5:R6:long", "h6_r5", {"rev": 6, "concrete": True}, 300, "H6_r5")] + \
             [Job("H6_r6hash:%s:%d" % (pt, k), "h6_r6hash", {"pattern": pt, "extra": 4, "part": [k, 2, 3]}, 1800, "H6_r6hash") for pt in sorted(R6_PATTERNS) for k in range(2)]
    J = KD + [Job("H1_permissions", "h1_permissions", {}, 60), Job("H2_where", "h2_where", {}, 150), Job("H4_keys", "h4_keys", {}, 150), Job("H5_metadata", "h5_metadata", {}, 60)]
    for k in range(4):
        J.append(Job("H7_docs:%d" % k, "h7_docs", {"part": [k, 4, 4]}, 300, "H7_docs"))
    for k in range(2):
        J.append(Job("H3_padding:%d" % k, "h3_padding", {"part": [k, 2, 5]}, 200, "H3_padding"))
    # H4_rc4 (RC4 twice = identity on symbolic data) is not registered: the XOR of two symbolic bytes does not get a solver verdict within
    # the query timeout (int<->bit-vector conversions); cipher correctness is not claimed anyway (DESIGN.md section 5).
    return J
