"""module-namespace shims that let the real numeric code of pdfminer run on symx proxies"""
from engine import symx, sbytes

_done = set()


def install(*modnames):
    """int/float (type-like: callable and usable in isinstance), range for the named pdfminer modules"""
    import importlib
    out = []
    for name in modnames:
        if name in _done:
            continue
        mod = importlib.import_module("pdfminer." + name)
        mod.int = sbytes.IntT
        mod.float = sbytes.FloatT
        if name in ("utils", "layout", "ccitt", "pdfdocument"):
            mod.range = symx.sym_range
        _done.add(name)
        out += ["%s.int" % name, "%s.float" % name]
    return out
