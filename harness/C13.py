"""C13 - damaged input: errors stay in the library's family and work stays bounded (unit level + replay through extract_text).

Whole-document fault sequences are whole-program runs and are not claimed as such.  Claimed for the units every fault passes through:
H1 typed accessors (resolve1, *_value, safe_*, parse_rect) on a symbolically chosen member of the PDF value universe incl. reference graphs
   with self-loops, cycles and dangling references: terminate within a bounded number of look-ups, raise only the library family.
H2 chain walkers on cyclic structures: object stored in itself as object stream, number-tree / name-tree Kids cycles (page tree: C04.H2,
   outlines: C17.H5, xref Prev/XRefStm: C02.H3).
H3 leaf decoders on arbitrary (symbolic) input and parameters: rldecode, predictors incl. zero/odd geometry, ASCIIHex / ASCII85 framing, CCITT params.
H4 single structural faults (site x kind, chosen symbolically) applied to a small seed document and run through the real extract_text.
Every counterexample is replayed through extract_text on a generated PDF where the unit is reachable from a document.
"""
import io
import signal

import z3

from engine import symx, sbytes
from engine.symx import SB, SI
from engine.sbytes import SBy, SByI
from harness import numshim
from lib import core, pdfgen
from lib.core import Job
from lib.pdfgen import Ref, Stream

ASSUMPTIONS = [
    "tolerated outcomes: normal return, or an exception that is a PSException/PDFException subclass; AssertionError is tolerated as in the repository's own fuzz harness",
    "non-strict mode (settings.STRICT = False, the default)",
    "work bound: at most 50 object look-ups per accessor call on a 3-object graph; 5 s wall per extract_text replay",
]
OUTSIDE = ["fault sequences over large real documents", "instruction-count bounds", "faults inside Flate/DCT/JBIG2 payloads (C libraries)"]


def ok_exc(e):
    from pdfminer.psexceptions import PSException
    return isinstance(e, (PSException, AssertionError))


class Doc:
    def __init__(self, limit=50):
        self.objs = {}
        self.calls = 0
        self.limit = limit

    def getobj(self, n):
        from pdfminer.pdfexceptions import PDFObjectNotFound
        self.calls += 1
        if self.calls > self.limit:
            raise WorkLimit()
        if n not in self.objs:
            raise PDFObjectNotFound(n)
        return self.objs[n]


class WorkLimit(BaseException):
    pass


KINDS = ["int", "float", "bool", "none", "name", "bytes", "list", "dict", "stream", "ref1", "ref2", "ref3", "ref9"]


def make_value(doc, kind):
    from pdfminer.psparser import LIT
    from pdfminer.pdftypes import PDFObjRef, PDFStream
    return {"int": 7, "float": 2.5, "bool": True, "none": None, "name": LIT("N"), "bytes": b"s", "list": [1, 2, 3, 4], "dict": {"A": 1},
            "stream": PDFStream({"Length": 0}, b""), "ref1": PDFObjRef(doc, 1), "ref2": PDFObjRef(doc, 2), "ref3": PDFObjRef(doc, 3), "ref9": PDFObjRef(doc, 9)}[kind]


def h1_accessors(timeout=200, part=None, **kw):
    import pdfminer.pdftypes as pt
    import pdfminer.casting as ca
    import pdfminer.utils as u
    import pdfminer.pdfpage as pp
    accessors = [("resolve1", pt.resolve1), ("resolve_all", pt.resolve_all), ("int_value", pt.int_value), ("float_value", pt.float_value), ("num_value", pt.num_value),
                 ("uint_value", lambda x: pt.uint_value(x, 32)), ("str_value", pt.str_value), ("list_value", pt.list_value), ("dict_value", pt.dict_value),
                 ("stream_value", pt.stream_value), ("safe_int", ca.safe_int), ("safe_float", ca.safe_float), ("safe_rect_list", ca.safe_rect_list),
                 ("page_boxes", lambda x: (pp.PDFPage._parse_mediabox(None, x), pp.PDFPage._parse_cropbox(None, x, (0, 0, 1, 1))))]

    def fn(ex):
        doc = Doc()
        kinds = {}
        pools = {1: KINDS, 2: ["ref1", "ref2", "ref3", "ref9", "int", "list"], 3: ["ref1", "ref3", "dict"]}
        for n in (1, 2, 3):
            kinds[n] = pools[n][ex.choice(len(pools[n]), "obj%d" % n)]
        for n in (1, 2, 3):
            doc.objs[n] = make_value(doc, kinds[n])
        arg_kind = KINDS[ex.choice(len(KINDS), "arg")]
        ai = ex.choice(len(accessors), "accessor")
        name, f = accessors[ai]
        doc.calls = 0
        info = {"objs": kinds, "arg": arg_kind, "accessor": name}
        try:
            f(make_value(doc, arg_kind))
        except WorkLimit:
            ex.require(False, "%s does not terminate on the reference graph (more than 50 look-ups)" % name, **info)
        except RecursionError:
            ex.require(False, "%s exhausts the recursion limit on the reference graph" % name, **info)
        except Exception as e:
            ex.require(ok_exc(e), "%s raised %s: %s (not in the library's exception family)" % (name, type(e).__name__, e), **info)

    def conc(m, info):
        return info
    return core.run_symx("H1_accessors", fn, [pt.resolve1, pt.resolve_all, pt.int_value, pt.float_value, pt.num_value, pt.uint_value, pt.str_value, pt.list_value, pt.dict_value,
                                              pt.stream_value, ca.safe_int, ca.safe_float, ca.safe_rect_list, u.parse_rect],
                         {"objects": "3 indirect objects, each any of %r" % KINDS, "argument": "any kind incl. references (self-loop, cycle, dangling)", "accessors": len(accessors)},
                         timeout, concretize=conc, part=part)


# ------------------------------------------------------------------------------------------ H2
def h2_cycles(timeout=100, **kw):
    import pdfminer.pdfdocument as pd
    import pdfminer.data_structures as ds
    from pdfminer.pdftypes import PDFObjRef
    from harness import C02

    def fn(ex):
        which = [0, 2][ex.choice(2, "which")]      # (name-tree cycles concern get_dest, which is not an extraction entry point: see C17)
        target = ex.choice(3, "target")
        info = {"which": which, "target": target}
        doc = Doc(200)
        R = lambda n: PDFObjRef(doc, n)
        try:
            if which == 0:               # number tree: node 1 -> kids [2], node 2 -> kids [target]
                doc.objs[1] = {"Kids": [R(2)]}
                doc.objs[2] = {"Kids": [R(1 + target)], "Nums": [0, {}]}
                doc.objs[3] = {"Nums": [1, {}]}
                vals = ds.NumberTree(R(1)).values
                labels = pd.PageLabels(R(1)).labels
                next(labels)
            elif which == 1:             # name tree
                d = pd.PDFDocument.__new__(pd.PDFDocument)
                doc.objs[1] = {"Kids": [R(2)]}
                doc.objs[2] = {"Kids": [R(1 + target)]}
                doc.objs[3] = {"Names": [b"a", [0]]}
                d.catalog = {"Names": {"Dests": R(1)}}
                try:
                    d.get_dest(b"zz")
                except pd.PDFDestinationNotFound:
                    pass
            else:                        # an object whose cross-reference entry says it lives in object stream `target`, which lives in ... itself
                spec = [{}]
                d, log = C02.make_doc(spec, True)
                chain = {5: 6, 6: 5 + target % 2 if target < 2 else 6}
                d.xrefs[0].table = {5: (chain[5], 0, 0), 6: (chain[6], 0, 0)}
                try:
                    d.getobj(5)
                except pd.PDFObjectNotFound:
                    pass
        except WorkLimit:
            ex.require(False, "a Kids cycle makes the tree walk run without bound", **info)
        except RecursionError:
            ex.require(False, "a cyclic structure exhausts the recursion limit", **info)
        except symx.Violation:
            raise
        except Exception as e:
            ex.require(ok_exc(e), "cyclic structure: %s: %s is not in the library's exception family" % (type(e).__name__, e), **info)

    def conc(m, info):
        return info
    return core.run_symx("H2_cycles", fn, [ds.NumberTree._parse, pd.PDFDocument.lookup_name, pd.PDFDocument.getobj],
                         {"structures": "number tree / name tree Kids pointing back (every target), object-stream containers containing each other"}, timeout, concretize=conc)


# ------------------------------------------------------------------------------------------ H3
def h3_rl(n=3, timeout=200, part=None, **kw):
    import pdfminer.runlength as rl
    rl.bytes = sbytes.BytesT

    def fn(ex):
        k = ex.choice(n + 1, "len")
        data = sbytes.sym_bytes(ex, "d", k)
        try:
            out = rl.rldecode(SByI(data.els))
        except symx.Violation:
            raise
        except Exception as e:
            ex.require(ok_exc(e), "rldecode raised %s: %s" % (type(e).__name__, e), data=data, what="rl")

    def conc(m, info):
        return {"what": "rl", "data": sbytes.model_bytes(m, info["data"])}
    return core.run_symx("H3_decoders", fn, [rl.rldecode], {"decoder": "RunLength", "data": "0..%d symbolic bytes (every value)" % n}, timeout, concretize=conc, part=part, int_lo=-1, int_hi=260)


def h3_predictors(timeout=200, part=None, **kw):
    import pdfminer.utils as u
    numshim.install("utils")
    u.bytes = sbytes.BytesT

    def fn(ex):
        which = ex.choice(2, "which")
        GEOM = [0, 1, 2, 3, -1, -8, 10 ** 9]             # incl. negative values and one far beyond any data (work must stay bounded by the data)
        colors = GEOM[ex.choice(5, "colors")]
        columns = GEOM[ex.choice(len(GEOM), "columns")]
        bpc = [8, 1, 0, 4, 16][ex.choice(5, "bpc")]
        n = ex.choice(5, "len")
        data = sbytes.sym_bytes(ex, "d", n, 0, 5) if which == 0 else sbytes.sym_bytes(ex, "d", n)
        info = {"which": which, "colors": colors, "columns": columns, "bpc": bpc, "data": data}
        import signal
        name = ["PNG", "TIFF"][which]

        def onalarm(*a):
            raise Hang()
        # work bound: a concrete run on zero bytes of the same length under an alarm (the symbolic run below spends its time in the solver, so it cannot be timed)
        import resource
        old = signal.signal(signal.SIGALRM, onalarm)
        signal.alarm(5)
        soft, hard = resource.getrlimit(resource.RLIMIT_AS)
        with open("/proc/self/statm") as f:
            cur = int(f.read().split()[0]) * resource.getpagesize()
        _cap_as(cur + (1 << 30), hard)          # at most 1 GiB more address space for a few bytes of data
        try:
            if which == 0:
                u.apply_png_predictor(12, colors, columns, bpc, bytes(n))
            else:
                u.apply_tiff_predictor(colors, columns, bpc, bytes(n))
        except Hang:
            ex.require(False, "%s predictor (colors=%d, columns=%d, bits=%d) on %d bytes did not return within 5 s" % (name, colors, columns, bpc, n), **info)
        except MemoryError:
            ex.require(False, "%s predictor (colors=%d, columns=%d, bits=%d) on %d bytes ran out of memory" % (name, colors, columns, bpc, n), **info)
        except Exception:
            pass
        finally:
            _cap_as(soft, hard)
            signal.alarm(0)
            signal.signal(signal.SIGALRM, old)
        try:
            if which == 0:
                u.apply_png_predictor(12, colors, columns, bpc, SByI(data.els))
            else:
                u.apply_tiff_predictor(colors, columns, bpc, SByI(data.els))
        except symx.Violation:
            raise
        except Exception as e:
            ex.require(ok_exc(e), "%s predictor (colors=%d, columns=%d, bits=%d) raised %s: %s" % (name, colors, columns, bpc, type(e).__name__, e), **info)

    def conc(m, info):
        return {"what": "pred", "which": info["which"], "colors": info["colors"], "columns": info["columns"], "bpc": info["bpc"], "data": sbytes.model_bytes(m, info["data"])}
    return core.run_symx("H3_decoders", fn, [u.apply_png_predictor, u.apply_tiff_predictor],
                         {"decoder": "PNG / TIFF predictor", "colors": "0..3, -1", "columns": "0..3, -1, -8, 10^9", "bits": [8, 1, 0, 4, 16], "data": "0..4 symbolic bytes", "work": "a concrete pre-run under a 5 s alarm and a 1 GiB address-space allowance"}, timeout, concretize=conc, part=part,
                         int_lo=-1, int_hi=40)


ALPH = [b"4", b"g", b">", b" ", b"~", b"<", b"z", b"\xff", b"u", b"!"]


def h3_ascii(timeout=200, part=None, **kw):
    import pdfminer.pdftypes as pt
    from pdfminer.psparser import LIT

    def fn(ex):
        filt = ["ASCIIHexDecode", "ASCII85Decode", "CCITTFaxDecode", "LZWDecode"][ex.choice(4, "filter")]
        n = ex.choice(4, "len")
        data = b"".join(ALPH[ex.choice(len(ALPH), "c%d" % i)] for i in range(n))
        parms = [None, {}, {"K": -1}, {"K": -1, "Columns": LIT("x")}, {"K": 0, "Columns": 8}][ex.choice(5, "parms")] if filt == "CCITTFaxDecode" else None
        attrs = {"Filter": LIT(filt)}
        if parms is not None:
            attrs["DecodeParms"] = parms
        st = pt.PDFStream(attrs, data)
        try:
            st.get_data()
        except Exception as e:
            ex.require(ok_exc(e), "PDFStream.get_data with /%s on %r (parms %r) raised %s: %s" % (filt, data, parms, type(e).__name__, e), filt=filt, data=data, parms=repr(parms), what="filter",
                       pi=None if parms is None else [None, {}, {"K": -1}, {"K": -1, "Columns": "x"}, {"K": 0, "Columns": 8}].index(parms if "Columns" not in parms or not hasattr(parms["Columns"], "name") else {"K": -1, "Columns": "x"}))

    def conc(m, info):
        return {"what": "filter", "filt": info["filt"], "data": info["data"], "pi": info["pi"]}
    return core.run_symx("H3_decoders", fn, [pt.PDFStream.decode], {"filters": "ASCIIHex / ASCII85 / CCITTFax / LZW", "data": "every string of <= 3 symbols from %r" % ALPH,
                                                                   "ccitt_parms": "none / {} / K=-1 / K=-1 + ill-typed Columns / K=0"}, timeout, concretize=conc, part=part)


# ------------------------------------------------------------------------------------------ H4 single faults through extract_text
CONTENT = b"q 1 0 0 1 5 5 cm BT /F1 10 Tf 12 TL 10 100 Td (hi) Tj T* [(a) 20 (b)] TJ ET Q /Im0 Do 0.5 g 10 10 30 30 re f"


def seed_objects():
    return {
        1: {"Type": "Catalog", "Pages": Ref(2), "Outlines": Ref(10), "PageLabels": {"Nums": [0, {"S": "D"}, 1, {"S": "r", "St": 2}]}},
        2: {"Type": "Pages", "Kids": [Ref(4)], "Count": 1, "MediaBox": [0, 0, 200, 200]},
        3: {"Type": "Font", "Subtype": "Type1", "BaseFont": "Helvetica", "Encoding": {"Type": "Encoding", "Differences": [65, "B"]}},
        4: {"Type": "Page", "Parent": Ref(2), "Contents": Ref(5), "Resources": Ref(6), "Rotate": 0},
        5: Stream({}, CONTENT),
        6: {"Font": {"F1": Ref(3)}, "XObject": {"Im0": Ref(7)}, "ProcSet": ["PDF", "Text"]},
        7: Stream({"Type": "XObject", "Subtype": "Image", "Width": 1, "Height": 1, "BitsPerComponent": 8, "ColorSpace": "DeviceGray"}, b"\x00"),
        10: {"Type": "Outlines", "Count": 0},
    }


T1_HEADER = b"%!PS-AdobeFont-1.0: Foo 001.000\n/FontName /Foo def\n/Encoding 256 array\n0 1 255 {1 index exch /.notdef put} for\ndup 65 /B put\ndup 66 /A put\nreadonly def\ncurrentfile eexec\n"


def seed_objects2():
    """second seed document: composite font (Type0 + CIDFontType2 with W, DW, ToUnicode, CIDSystemInfo), Type 3 font with CharProcs and FontMatrix, TrueType simple font with
    FontDescriptor / Widths / FirstChar, form XObject with Matrix and its own Resources, filtered image with DecodeParms, outline items with Dest / A, named destinations, label tree with Kids"""
    tounicode = b"/CIDInit /ProcSet findresource begin 12 dict begin begincmap /CMapName /T def /CMapType 2 def 1 begincodespacerange <0000> <FFFF> endcodespacerange " \
                b"1 beginbfchar <0001> <0041> endbfchar 1 beginbfrange <0002> <0003> <0042> endbfrange endcmap end end"
    return {
        1: {"Type": "Catalog", "Pages": Ref(2), "Outlines": Ref(20), "PageLabels": {"Kids": [Ref(23)]}, "Names": {"Dests": {"Names": [b"d1", [Ref(4), "Fit"]]}}, "Dests": Ref(24)},
        2: {"Type": "Pages", "Kids": [Ref(4)], "Count": 1, "MediaBox": [0, 0, 300, 300], "Resources": Ref(6), "Rotate": 90, "CropBox": [10, 10, 290, 290]},
        4: {"Type": "Page", "Parent": Ref(2), "Contents": [Ref(5), Ref(15)]},
        5: Stream({}, b"q BT /F0 10 Tf 10 200 Td <000100020003> Tj /F3 8 Tf (ab) Tj /FT 9 Tf (AB) Tj /FP 7 Tf (AB) Tj ET Q "),
        15: Stream({}, b"/Fm1 Do /Im1 Do BI /W 1 /H 1 /BPC 8 /CS /G ID \x00\nEI"),
        6: {"Font": {"F0": Ref(7), "F3": Ref(10), "FT": Ref(12), "FP": Ref(26)}, "XObject": {"Fm1": Ref(16), "Im1": Ref(17)}, "ColorSpace": {"CS0": ["ICCBased", Ref(18)]}},
        7: {"Type": "Font", "Subtype": "Type0", "BaseFont": "ABCDEF+Comp", "Encoding": "Identity-H", "DescendantFonts": [Ref(8)], "ToUnicode": Ref(9)},
        8: {"Type": "Font", "Subtype": "CIDFontType2", "BaseFont": "ABCDEF+Comp", "CIDSystemInfo": {"Registry": b"Adobe", "Ordering": b"Identity", "Supplement": 0},
            "FontDescriptor": Ref(13), "DW": 900, "W": [1, [500, 600], 3, 5, 700], "CIDToGIDMap": "Identity"},
        9: Stream({}, tounicode),
        10: {"Type": "Font", "Subtype": "Type3", "FontBBox": [0, 0, 10, 10], "FontMatrix": [0.1, 0, 0, 0.1, 0, 0], "CharProcs": {"a": Ref(11), "b": Ref(11)},
             "Encoding": {"Type": "Encoding", "Differences": [97, "a", "b"]}, "FirstChar": 97, "LastChar": 98, "Widths": [8, 9], "Resources": {}},
        11: Stream({}, b"8 0 0 0 8 8 d1 0 0 8 8 re f"),
        12: {"Type": "Font", "Subtype": "TrueType", "BaseFont": "Arial", "FirstChar": 65, "LastChar": 66, "Widths": [600, 700], "FontDescriptor": Ref(13), "Encoding": "WinAnsiEncoding"},
        13: {"Type": "FontDescriptor", "FontName": "Arial", "Flags": 32, "FontBBox": [-100, -200, 1000, 900], "ItalicAngle": 0, "Ascent": 900, "Descent": -200, "CapHeight": 700, "StemV": 80,
             "MissingWidth": 400, "Leading": 1100},
        16: Stream({"Type": "XObject", "Subtype": "Form", "BBox": [0, 0, 50, 50], "Matrix": [2, 0, 0, 2, 10, 10], "Resources": {"Font": {"F9": Ref(12)}}}, b"BT /F9 6 Tf 1 1 Td (A) Tj ET"),
        17: Stream({"Type": "XObject", "Subtype": "Image", "Width": 2, "Height": 1, "BitsPerComponent": 8, "ColorSpace": "DeviceGray", "Filter": ["ASCIIHexDecode", "RunLengthDecode"],
                    "DecodeParms": [None, {}]}, b"01 00 01 80>"),
        18: Stream({"N": 3, "Alternate": "DeviceRGB"}, b"icc"),
        20: {"Type": "Outlines", "First": Ref(21), "Last": Ref(22), "Count": 2},
        21: {"Title": b"One", "Parent": Ref(20), "Next": Ref(22), "Dest": [Ref(4), "XYZ", 0, 300, None]},
        22: {"Title": b"\xfe\xff\x00T\x00w\x00o", "Parent": Ref(20), "Prev": Ref(21), "A": {"S": "GoTo", "D": b"d1"}, "SE": Ref(25)},
        23: {"Nums": [0, {"S": "r", "St": 3, "P": b"p-"}, 1, {"S": "A"}], "Limits": [0, 1]},
        24: {"old": [Ref(4), "Fit"]},
        25: {"Type": "StructElem"},
        # Type 1 font without /Encoding whose encoding comes from the embedded font program
        26: {"Type": "Font", "Subtype": "Type1", "BaseFont": "Prog", "FontDescriptor": Ref(27), "FirstChar": 65, "LastChar": 66, "Widths": [500, 600]},
        27: {"Type": "FontDescriptor", "FontName": "Prog", "Flags": 4, "FontBBox": [0, 0, 1000, 1000], "FontFile": Ref(28)},
        28: Stream({"Length1": len(T1_HEADER), "Length2": 0, "Length3": 0}, T1_HEADER),
    }


SEEDS = {1: seed_objects, 2: seed_objects2}

REPLACEMENTS = ["int", "name", "bytes", "list", "dict", "null", "bool", "self", "missing", "cycle", "remove", "real"]


def sites(objs, depth=1):
    """fault sites: (object number, key) for every top-level key; with depth > 1 also the entries of nested dictionaries and the elements of arrays, as paths (n, k1, k2, ..)"""
    out = []

    def walk(path, v, d):
        if d >= depth:
            return
        if isinstance(v, dict):
            for k in v:
                out.append(path + (k,))
                walk(path + (k,), v[k], d + 1)
        elif isinstance(v, list):
            for i in range(len(v)):
                out.append(path + (i,))
                walk(path + (i,), v[i], d + 1)
    for n, o in sorted(objs.items()):
        if isinstance(o, pdfgen.Raw):
            continue
        walk((n,), o.d if isinstance(o, Stream) else o, 0)
    return out


def apply_fault(objs, site, rep):
    n, path = site[0], list(site[1:])
    o = objs[n]
    d = o.d if isinstance(o, Stream) else o
    for k in path[:-1]:
        d = d[k]
    k = path[-1]
    if rep == "remove":
        del d[k]
        return
    val = {"int": 7, "name": "Nm", "bytes": b"str", "list": [1, "A", b"x"], "dict": {"A": 1}, "null": None, "bool": True, "self": Ref(n), "missing": Ref(99),
           "cycle": Ref(50), "real": -2.5}[rep]
    if rep == "cycle":
        objs[50] = pdfgen.Raw(b"51 0 R")
        objs[51] = pdfgen.Raw(b"50 0 R")
    d[k] = val


class Hang(Exception):
    pass


def _cap_as(soft, hard):
    """lower the soft address-space limit; where the hard limit does not allow it (or the platform has none) the memory part of the work bound is simply not enforced"""
    import resource
    try:
        if hard != resource.RLIM_INFINITY and soft > hard:
            soft = hard
        resource.setrlimit(resource.RLIMIT_AS, (soft, hard))
    except (ValueError, OSError):
        pass


ENTRIES = ["text", "xml", "html", "pages", "images"]


def run_extract(data, seconds=5, entry="text"):
    """entry: extract_text / extract_text_to_fp(xml | html, with layout analysis) / extract_pages / extract_text_to_fp(xml) with image export into a scratch directory"""
    from pdfminer.high_level import extract_text, extract_text_to_fp, extract_pages
    from pdfminer.layout import LAParams
    name = {"text": "extract_text", "xml": "extract_text_to_fp(xml)", "html": "extract_text_to_fp(html)", "pages": "extract_pages", "images": "extract_text_to_fp(xml, output_dir=...)"}[entry]
    outdir = None

    def onalarm(*a):
        raise Hang()
    import resource
    # the work bound is measured in CPU time of this process (ITIMER_PROF), so that a loaded machine cannot turn a slow but finite run into a "hang";
    # a wall-clock alarm of 12 x the bound stays as a backstop for a call that blocks without computing
    old = signal.signal(signal.SIGALRM, onalarm)
    oldp = signal.signal(signal.SIGPROF, onalarm)
    signal.setitimer(signal.ITIMER_PROF, seconds)
    signal.alarm(12 * seconds)
    soft, hard = resource.getrlimit(resource.RLIMIT_AS)
    with open("/proc/self/statm") as f:
        cur = int(f.read().split()[0]) * resource.getpagesize()
    _cap_as(cur + (2 << 30), hard)          # work bounded in proportion to the input: at most 2 GiB more address space for these few-KB documents
    try:
        if entry == "text":
            extract_text(io.BytesIO(data))
        elif entry == "pages":
            for pg in extract_pages(io.BytesIO(data)):
                list(pg)
        elif entry == "images":
            import tempfile
            outdir = tempfile.mkdtemp(prefix="verif-c13-")
            extract_text_to_fp(io.BytesIO(data), io.BytesIO(), output_type="xml", laparams=LAParams(), codec="utf-8", output_dir=outdir)
            import os
            written = sum(os.path.getsize(os.path.join(outdir, f)) for f in os.listdir(outdir))
            if written > (64 << 20):
                return "%s wrote %d bytes of image files for a document of %d bytes" % (name, written, len(data))
        else:
            extract_text_to_fp(io.BytesIO(data), io.BytesIO(), output_type=entry, laparams=LAParams(), codec="utf-8")
        return None
    except Hang:
        return "%s did not return within %d s of CPU time" % (name, seconds)
    except RecursionError:
        return "%s exhausted the recursion limit" % name
    except MemoryError:
        return "%s needed more than 2 GiB of memory for a document of %d bytes" % (name, len(data))
    except Exception as e:
        return None if ok_exc(e) else "%s raised %s: %s" % (name, type(e).__name__, str(e)[:200])
    finally:
        signal.setitimer(signal.ITIMER_PROF, 0)
        signal.alarm(0)
        _cap_as(soft, hard)
        signal.signal(signal.SIGALRM, old)
        signal.signal(signal.SIGPROF, oldp)
        if outdir is not None:
            import shutil
            shutil.rmtree(outdir, ignore_errors=True)


def h4_faults(timeout=300, part=None, exclude=(), seed=1, depth=1, **kw):
    base = SEEDS[seed]()
    S = sites(base, depth)

    def fn(ex):
        si = ex.choice(len(S), "site")
        ri = ex.choice(len(REPLACEMENTS), "kind")
        key = "%d/%s:%s" % (S[si][0], S[si][1], REPLACEMENTS[ri])
        if key in exclude or ("%d/%s:*" % S[si][:2]) in exclude:
            raise symx.Abort()
        objs = SEEDS[seed]()
        apply_fault(objs, S[si], REPLACEMENTS[ri])
        try:
            data = pdfgen.build(objs)
        except Exception:
            raise symx.Abort()
        entry = ENTRIES[ex.choice(len(ENTRIES), "entry")]
        r = run_extract(data, entry=entry)
        ex.require(r is None, "object %d entry %s replaced by %s: %s" % (S[si][0], "/".join(map(str, S[si][1:])), REPLACEMENTS[ri], r), site=list(S[si]), kind=REPLACEMENTS[ri], entry=entry)

    def conc(m, info):
        return {"what": "fault", "site": info["site"], "kind": info["kind"], "seed": seed, "entry": info["entry"]}
    from pdfminer import high_level
    seed_desc = {1: "8-object document (page tree, font with Differences, content stream, image, outlines, page labels)",
                 2: "24-object document (Type0 + CIDFontType2 with W/DW/ToUnicode, Type 3 font with CharProcs, TrueType font with descriptor, form XObject with Matrix, filtered image, "
                    "inline image, two content streams, outline items with Dest / A, name tree, legacy Dests, label tree with Kids, inherited Resources / Rotate / CropBox)"}[seed]
    return core.run_symx("H4_faults", fn, [high_level.extract_text], {"seed": seed_desc, "site depth": "top-level keys" if depth == 1 else "keys, nested entries and array elements to depth %d" % depth,
                                                                       "sites": len(S), "fault_kinds": REPLACEMENTS, "entry points": ENTRIES, "note": "enumeration through symbolic choices; concrete per path"},
                         timeout, concretize=conc, part=part)


def h4_faults2(timeout=1800, part=None, **kw):
    """two simultaneous faults at different sites of the seed document (thorough tier)"""
    base = seed_objects()
    S = sites(base)

    def fn(ex):
        s1 = ex.choice(len(S), "site1")
        s2 = ex.choice(len(S), "site2")
        if s2 <= s1:
            raise symx.Abort()
        r1 = ex.choice(len(REPLACEMENTS), "kind1")
        r2 = ex.choice(len(REPLACEMENTS), "kind2")
        objs = seed_objects()
        try:
            apply_fault(objs, S[s1], REPLACEMENTS[r1])
            apply_fault(objs, S[s2], REPLACEMENTS[r2])
            data = pdfgen.build(objs)
        except Exception:
            raise symx.Abort()
        r = run_extract(data)
        ex.require(r is None, "object %d /%s replaced by %s and object %d /%s replaced by %s: %s" % (S[s1][0], S[s1][1], REPLACEMENTS[r1], S[s2][0], S[s2][1], REPLACEMENTS[r2], r),
                   sites=[list(S[s1]), list(S[s2])], kinds=[REPLACEMENTS[r1], REPLACEMENTS[r2]])

    def conc(m, info):
        return {"what": "fault2", "sites": info["sites"], "kinds": info["kinds"]}
    from pdfminer import high_level
    return core.run_symx("H4_faults", fn, [high_level.extract_text], {"seed": "8-object document", "faults": "every pair of single faults at two different sites (%d sites x %d kinds each)" % (len(S), len(REPLACEMENTS))},
                         timeout, concretize=conc, part=part)


def h4_truncate(timeout=300, part=None, seed=1, **kw):
    data = pdfgen.build(SEEDS[seed]())

    def fn(ex):
        cut = ex.int("cut", 0, len(data))
        n = cut.__index__()
        r = run_extract(data[:n])
        ex.require(r is None, "document truncated after %d of %d bytes: %s" % (n, len(data), r), cut=n)

    def conc(m, info):
        return {"what": "truncate", "cut": info["cut"], "seed": seed}
    from pdfminer import high_level
    return core.run_symx("H4_faults", fn, [high_level.extract_text], {"truncation": "every prefix of the %d-byte seed document %d" % (len(data), seed)}, timeout, concretize=conc, part=part,
                         int_lo=0, int_hi=len(data))


# ---- the same seed document stored the PDF 1.5 way: objects inside an object stream, cross-reference stream
OBJSTM_FAULTS = [("N", v) for v in (0, 1, "less", "more", 1000, -1, "name", None)] + [("First", v) for v in (0, "less", "more", 100000, -1, "name", None)] + \
                [("Type", "XRef"), ("Type", None), ("Filter", "ASCIIHexDecode"), ("Filter", "Nonsense")]
XREF_FAULTS = [("W", v) for v in ([0, 3, 1], [1, 0, 1], [1, 3, 0], [1, 3], [], [1, 3, 1, 1], ["A", 3, 1], 7, [1, 3000000, 1], [-1, 3, 1])] + \
              [("Index", v) for v in ([], [0], [0, 100000], [5, -1], ["A", 2], 7, [0, 1, 0, 1])] + [("Size", v) for v in (0, -1, "name", None)] + [("Type", None), ("Root", None), ("Prev", 0), ("Prev", 10 ** 9), ("Prev", "self")]


def _packed_doc(objstm_fault=None, xref_fault=None):
    objs = seed_objects()
    rev = {"objs": objs, "form": "stream", "packed": {n for n, o in objs.items() if not isinstance(o, Stream)}, "objstm_fault": objstm_fault, "xref_fault": xref_fault}
    return pdfgen.build_history([rev])


def _dict_fault(key, v):
    def f(d, data):
        d = dict(d)
        cur = d.get(key)
        if v is None:
            d.pop(key, None)
        elif v == "less":
            d[key] = cur - 1
        elif v == "more":
            d[key] = cur + 1
        elif v == "self":
            d[key] = 9                       # a byte offset inside the header: not a cross-reference section
        else:
            d[key] = v
        return d, data
    return f


def h4_objstm(timeout=300, part=None, **kw):
    """damage to the PDF 1.5 containers of the seed document: every truncation of the object-stream payload and of the cross-reference-stream payload,
    ill-valued /N /First /W /Index /Size /Prev ...: extract_text terminates and raises nothing outside the library's family"""
    good = _packed_doc()
    lens = {}
    _packed_doc(lambda d, data: (lens.__setitem__("o", len(data)), (d, data))[1], lambda d, data: (lens.__setitem__("x", len(data)), (d, data))[1])

    def fn(ex):
        kind = ex.choice(4, "kind")
        if kind == 0:
            n = ex.int("cut", 0, lens["o"]).__index__()
            what, data = "object-stream payload cut to %d of %d bytes" % (n, lens["o"]), _packed_doc(objstm_fault=lambda d, p: (d, p[:n]))
            info = {"kind": "ocut", "n": n}
        elif kind == 1:
            n = ex.int("cut", 0, lens["x"]).__index__()
            what, data = "cross-reference-stream payload cut to %d of %d bytes" % (n, lens["x"]), _packed_doc(xref_fault=lambda d, p: (d, p[:n]))
            info = {"kind": "xcut", "n": n}
        elif kind == 2:
            i = ex.choice(len(OBJSTM_FAULTS), "of")
            k, v = OBJSTM_FAULTS[i]
            what, data = "object stream /%s set to %r" % (k, v), _packed_doc(objstm_fault=_dict_fault(k, v))
            info = {"kind": "odict", "n": i}
        else:
            i = ex.choice(len(XREF_FAULTS), "xf")
            k, v = XREF_FAULTS[i]
            what, data = "cross-reference stream /%s set to %r" % (k, v), _packed_doc(xref_fault=_dict_fault(k, v))
            info = {"kind": "xdict", "n": i}
        r = run_extract(data)
        ex.require(r is None, "%s: %s" % (what, r), **info)

    def conc(m, info):
        return {"what": "objstm", "kind": info["kind"], "n": info["n"]}
    from pdfminer import high_level
    return core.run_symx("H4_faults", fn, [high_level.extract_text], {"seed": "the 8-object document with all non-stream objects inside one object stream and a cross-reference stream (%d bytes)" % len(good),
                                                                       "faults": "every truncation of both payloads; %d object-stream and %d cross-reference-stream dictionary faults" % (len(OBJSTM_FAULTS), len(XREF_FAULTS))},
                         timeout, concretize=conc, part=part, int_lo=0, int_hi=max(lens.values()) + 1)


# ---- numbers far beyond the document's size in entries that drive loops or allocations ("work bounded in proportion to the input size")
HUGE = [10 ** 9, 2 ** 31, 10 ** 20, -1, -(2 ** 31) - 1]
HUGE_SITES = [("seed2", (8, "W", 1)), ("seed2", (8, "W", 3)), ("seed2", (8, "W", 4)), ("seed2", (8, "DW",)), ("seed2", (10, "FirstChar")), ("seed2", (10, "LastChar")), ("seed2", (12, "FirstChar")),
              ("seed2", (2, "Count")), ("seed2", (17, "Width")), ("seed2", (17, "Height")), ("seed2", (20, "Count")), ("seed2", (23, "Nums", 0)), ("seed2", (23, "Nums", 1, "St")),
              ("seed1", (2, "Count")), ("seed1", (7, "Width")), ("seed1", (1, "PageLabels", "Nums", 0)),
              ("xref", "Size"), ("xref", "Index0"), ("xref", "Index1"), ("xref", "W0"), ("xref", "W1"), ("xref", "W2"), ("xref", "Prev"), ("objstm", "N"), ("objstm", "First")]


def huge_doc(where, site, val):
    if where in ("seed1", "seed2"):
        objs = SEEDS[int(where[-1])]()
        o = objs[site[0]]
        d = o.d if isinstance(o, Stream) else o
        for k in site[1:-1]:
            d = d[k]
        d[site[-1]] = val
        return pdfgen.build(objs)
    if where == "objstm":
        return _packed_doc(objstm_fault=_dict_fault(site, val))

    def xf(d, data):
        d = dict(d)
        if site.startswith("Index"):
            ix = list(d["Index"])
            ix[int(site[-1])] = val
            d["Index"] = ix
        elif site.startswith("W"):
            w = list(d["W"])
            w[int(site[-1])] = val
            d["W"] = w
        else:
            d[site] = val
        return d, data
    return _packed_doc(xref_fault=xf)


def h4_huge(timeout=300, part=None, **kw):
    """counts, ranges, sizes and offsets replaced by numbers far beyond the document's size (10^9, 2^31, 10^20, negative): extract_text returns or raises a library error within
    5 s and 2 GiB - the loops and buffers these numbers drive are bounded by the data actually present"""
    def fn(ex):
        i = ex.choice(len(HUGE_SITES), "site")
        j = ex.choice(len(HUGE), "value")
        where, site = HUGE_SITES[i]
        try:
            data = huge_doc(where, site, HUGE[j])
        except Exception:
            raise symx.Abort()
        entry = ("text", "images")[ex.choice(2, "entry")]
        r = run_extract(data, entry=entry)
        ex.require(r is None, "%s entry %s set to %d: %s" % (where, site, HUGE[j], r), i=i, j=j, entry=entry)

    def conc(m, info):
        return {"what": "huge", "i": info["i"], "j": info["j"], "entry": info["entry"]}
    from pdfminer import high_level
    return core.run_symx("H4_faults", fn, [high_level.extract_text], {"sites": [str(x) for x in HUGE_SITES], "values": HUGE, "work bound": "5 s alarm, 2 GiB address-space allowance"}, timeout, concretize=conc, part=part)


# ---- faults in the encryption dictionary (the document opens with the empty user password, so the handler is fully initialised)
ENC_ID = b"0123456789abcdef"


def _rc4(key, data):
    S, j, out = list(range(256)), 0, bytearray()
    for i in range(256):
        j = (j + S[i] + key[i % len(key)]) % 256
        S[i], S[j] = S[j], S[i]
    i = j = 0
    for c in data:
        i = (i + 1) % 256
        j = (j + S[i]) % 256
        S[i], S[j] = S[j], S[i]
        out.append(c ^ S[(S[i] + S[j]) % 256])
    return bytes(out)


def enc_dict(rev):
    """standard security handler dictionary for empty user and owner passwords (ISO 32000-1 Algorithms 2-5)"""
    from hashlib import md5
    PAD = (b"(\xbfN^Nu\x8aAd\x00NV\xff\xfa\x01\x08" b"..\x00\xb6\xd0h>\x80/\x0c\xa9\xfedSiz")
    n, P = (5 if rev == 2 else 16), -44
    h = md5(PAD).digest()
    if rev >= 3:
        for _ in range(50):
            h = md5(h).digest()
    okey = h[:n]
    O = _rc4(okey, PAD)
    if rev >= 3:
        for i in range(1, 20):
            O = _rc4(bytes(c ^ i for c in okey), O)
    key = md5(PAD + O + (P % 2 ** 32).to_bytes(4, "little") + ENC_ID).digest()
    if rev >= 3:
        for _ in range(50):
            key = md5(key[:n]).digest()
    key = key[:n]
    if rev == 2:
        U = _rc4(key, PAD)
    else:
        x = _rc4(key, md5(PAD + ENC_ID).digest())
        for i in range(1, 20):
            x = _rc4(bytes(c ^ i for c in key), x)
        U = x + bytes(16)
    d = {"Filter": "Standard", "V": 1 if rev == 2 else (4 if rev == 4 else 2), "R": rev, "O": O, "U": U, "P": P, "Length": n * 8}
    if rev == 4:
        d.update({"CF": {"StdCF": {"CFM": "V2", "AuthEvent": "DocOpen", "Length": 16}}, "StmF": "StdCF", "StrF": "StdCF", "EncryptMetadata": True})
    return d


def encrypted_doc(rev, fault=None):
    objs = seed_objects()
    objs[30] = enc_dict(rev)
    if fault:
        apply_fault(objs, fault[0], fault[1])
    data = pdfgen.build(objs)
    return data.replace(b"/Root 1 0 R", b"/Root 1 0 R /Encrypt 30 0 R /ID [<%s> <%s>]" % (ENC_ID.hex().encode(), ENC_ID.hex().encode()))


def h4_encrypt(timeout=300, part=None, **kw):
    """every entry (nested ones too) of the encryption dictionary of an RC4 40-bit (R2), 128-bit (R3) and crypt-filter (R4) document replaced by a value of another type or removed"""
    SITES = {rev: sites({30: enc_dict(rev)}, 3) for rev in (2, 3, 4)}

    def fn(ex):
        rev = (2, 3, 4)[ex.choice(3, "rev")]
        S = SITES[rev]
        si = ex.choice(len(S), "site")
        ri = ex.choice(len(REPLACEMENTS), "kind")
        try:
            data = encrypted_doc(rev, (S[si], REPLACEMENTS[ri]))
        except Exception:
            raise symx.Abort()
        r = run_extract(data)
        ex.require(r is None, "R%d encryption dictionary, entry %s replaced by %s: %s" % (rev, "/".join(map(str, S[si][1:])), REPLACEMENTS[ri], r), rev=rev, site=list(S[si]), kind=REPLACEMENTS[ri])

    def conc(m, info):
        return {"what": "encrypt", "rev": info["rev"], "site": info["site"], "kind": info["kind"]}
    from pdfminer import high_level
    return core.run_symx("H4_faults", fn, [high_level.extract_text], {"document": "the 8-object seed document with a standard-security-handler dictionary (R2 / R3 / R4, empty passwords) and /ID",
                                                                       "faults": "%d kinds at every entry of the dictionary (%s sites)" % (len(REPLACEMENTS), [len(v) for v in SITES.values()])},
                         timeout, concretize=conc, part=part)


# ---- faults inside a content stream: operands of every operator kind, entries of an inline image dictionary
CONTENT_TOKENS = [
    b"q", b"1", b"0", b"0", b"1", b"5", b"5", b"cm", b"2", b"w", b"[3 1]", b"0", b"d", b"1", b"J", b"1", b"j", b"4", b"M", b"/GS0", b"gs", b"/Perceptual", b"ri", b"1", b"i",
    b"0.5", b"g", b"0.1", b"0.2", b"0.3", b"rg", b"0", b"0", b"0", b"1", b"k", b"0.5", b"G", b"0.1", b"0.2", b"0.3", b"RG", b"0", b"0", b"0", b"1", b"K",
    b"/DeviceRGB", b"cs", b"0.1", b"0.2", b"0.3", b"sc", b"/DeviceRGB", b"CS", b"0.1", b"0.2", b"0.3", b"SCN", b"0.4", b"0.5", b"0.6", b"scn",
    b"10", b"10", b"m", b"20", b"20", b"l", b"1", b"2", b"3", b"4", b"5", b"6", b"c", b"1", b"2", b"3", b"4", b"v", b"1", b"2", b"3", b"4", b"y", b"h", b"S",
    b"10", b"10", b"30", b"30", b"re", b"W", b"n", b"1", b"1", b"5", b"5", b"re", b"f", b"/Sh0", b"sh",
    b"BT", b"/F1", b"10", b"Tf", b"12", b"TL", b"1", b"Tc", b"2", b"Tw", b"90", b"Tz", b"1", b"Ts", b"0", b"Tr", b"10", b"100", b"Td", b"5", b"-5", b"TD",
    b"1", b"0", b"0", b"1", b"20", b"80", b"Tm", b"(hi)", b"Tj", b"T*", b"[(a) 20 (b)]", b"TJ", b"(c)", b"'", b"1", b"2", b"(d)", b'"', b"ET",
    b"/Tag", b"BMC", b"/Tag", b"<< /MCID 0 >>", b"BDC", b"EMC", b"/Tag", b"MP", b"/Tag", b"<< /A 1 >>", b"DP", b"/Im0", b"Do", b"/Fm1", b"Do", b"10", b"0", b"d0", b"Q",
]
CONTENT_BAD = [b"", b"/N", b"(s)", b"[1 /A (x)]", b"[]", b"<< /A 1 >>", b"<< >>", b"true", b"null", b"7", b"-2.5", b"99999999999999999999", b"<41>"]
CONTENT_OPERATORS = {b"q", b"cm", b"w", b"d", b"J", b"j", b"M", b"gs", b"ri", b"i", b"g", b"rg", b"k", b"G", b"RG", b"K", b"cs", b"sc", b"CS", b"SCN", b"scn", b"m", b"l", b"c", b"v", b"y", b"h", b"S",
                     b"re", b"W", b"n", b"f", b"sh", b"BT", b"Tf", b"TL", b"Tc", b"Tw", b"Tz", b"Ts", b"Tr", b"Td", b"TD", b"Tm", b"Tj", b"T*", b"TJ", b"'", b'"', b"ET", b"BMC", b"BDC", b"EMC",
                     b"MP", b"DP", b"Do", b"d0", b"Q"}
INLINE_ENTRIES = [(b"/W", b"1"), (b"/H", b"1"), (b"/BPC", b"8"), (b"/CS", b"/G"), (b"/F", b"/AHx"), (b"/DP", b"<< /K 0 >>"), (b"/IM", b"false"), (b"/I", b"true"), (b"/D", b"[0 1]")]


def content_doc(content):
    objs = seed_objects()
    objs[5] = Stream({}, content)
    objs[6] = {"Font": {"F1": Ref(3)}, "XObject": {"Im0": Ref(7), "Fm1": Ref(8)}, "ProcSet": ["PDF", "Text"], "ExtGState": {"GS0": {"LW": 2}},
               "Shading": {"Sh0": {"ShadingType": 2, "ColorSpace": "DeviceGray", "Coords": [0, 0, 1, 1], "Function": {"FunctionType": 2, "Domain": [0, 1], "N": 1}}}}
    objs[8] = Stream({"Type": "XObject", "Subtype": "Form", "BBox": [0, 0, 10, 10], "Resources": {"Font": {"F1": Ref(3)}}}, b"BT /F1 5 Tf (f) Tj ET")
    return pdfgen.build(objs)


def content_fault(kind, i, j):
    """kind 'op': operand token i of CONTENT_TOKENS replaced by CONTENT_BAD[j] ('' = removed); kind 'inline': entry i of the inline image dictionary: value replaced /
    j = len(CONTENT_BAD): key removed, +1: value only removed (odd count), +2: key duplicated"""
    base = b" ".join(CONTENT_TOKENS)
    if kind == "op":
        toks = list(CONTENT_TOKENS)
        toks[i] = CONTENT_BAD[j]
        return b" ".join(t for t in toks if t != b"" or True).replace(b"  ", b" "), "operand %d (%r before %r) replaced by %r" % (i, CONTENT_TOKENS[i], next(t for t in CONTENT_TOKENS[i:] if t in CONTENT_OPERATORS), CONTENT_BAD[j])
    ents = [list(e) for e in INLINE_ENTRIES]
    k, v = ents[i]
    if j < len(CONTENT_BAD):
        ents[i][1] = CONTENT_BAD[j]
        what = "inline image entry %s replaced by %r" % (k.decode(), CONTENT_BAD[j])
    elif j == len(CONTENT_BAD):
        del ents[i]
        what = "inline image entry %s removed" % k.decode()
    elif j == len(CONTENT_BAD) + 1:
        ents[i] = [k]
        what = "inline image entry %s left without a value" % k.decode()
    else:
        ents.insert(i, [k, v])
        what = "inline image entry %s given twice" % k.decode()
    inline = b"BI " + b" ".join(b" ".join(e) for e in ents) + b" ID 00>\nEI"
    return base + b" " + inline + b" BT /F1 10 Tf 5 5 Td (z) Tj ET", what


def h5_content(timeout=300, part=None, **kw):
    """every operand of a content stream that uses every operator kind replaced by a value of another type (or removed), and every entry of an inline image dictionary
    replaced / removed / left without a value / given twice: extract_text returns or raises an error of the library's family"""
    operand_sites = [i for i, t in enumerate(CONTENT_TOKENS) if t not in CONTENT_OPERATORS]

    def fn(ex):
        if ex.choice(2, "where") == 0:
            i = operand_sites[ex.choice(len(operand_sites), "site")]
            j = ex.choice(len(CONTENT_BAD), "bad")
            kind = "op"
        else:
            i = ex.choice(len(INLINE_ENTRIES), "entry")
            j = ex.choice(len(CONTENT_BAD) + 3, "bad")
            kind = "inline"
        content, what = content_fault(kind, i, j)
        r = run_extract(content_doc(content))
        ex.require(r is None, "%s: %s" % (what, r), kind=kind, i=i, j=j)

    def conc(m, info):
        return {"what": "content", "kind": info["kind"], "i": info["i"], "j": info["j"]}
    from pdfminer import high_level
    return core.run_symx("H5_content", fn, [high_level.extract_text], {"content": "%d tokens using %d operator kinds; %d operand sites x %d replacement kinds" % (len(CONTENT_TOKENS), len(CONTENT_OPERATORS), len(operand_sites), len(CONTENT_BAD)),
                                                                        "inline image": "%d entries x %d replacements / removal / missing value / duplicate" % (len(INLINE_ENTRIES), len(CONTENT_BAD))},
                         timeout, concretize=conc, part=part)


# ---- token faults in an embedded ToUnicode CMap program
CMAP_TOKENS = [b"/CIDInit", b"/ProcSet", b"findresource", b"begin", b"12", b"dict", b"begin", b"begincmap", b"/CIDSystemInfo", b"<< /Registry (Adobe) /Ordering (UCS) /Supplement 0 >>", b"def",
               b"/CMapName", b"/T", b"def", b"/CMapType", b"2", b"def", b"/WMode", b"0", b"def", b"1", b"begincodespacerange", b"<0000>", b"<FFFF>", b"endcodespacerange",
               b"1", b"beginbfchar", b"<0001>", b"<0041>", b"endbfchar", b"2", b"beginbfrange", b"<0002>", b"<0003>", b"<0042>", b"<0004>", b"<0005>", b"[<0050> <0051>]", b"endbfrange",
               b"1", b"begincidrange", b"<0000>", b"<00FF>", b"0", b"endcidrange", b"1", b"begincidchar", b"<0100>", b"7", b"endcidchar", b"1", b"beginnotdefrange", b"<0000>", b"<001F>", b"1",
               b"endnotdefrange", b"/Other", b"usecmap", b"endcmap", b"CMapName", b"currentdict", b"/CMap", b"defineresource", b"pop", b"end", b"end"]
CMAP_BAD = [b"", b"/N", b"(s)", b"[1 /A (x)]", b"[]", b"<< /A 1 >>", b"true", b"null", b"7", b"-2.5", b"<41>", b"<>", b"<0102030405>", b"endbfrange", b"usecmap", b"def", b"endcidrange", b"begincmap"]


def cmap_doc(program):
    objs = seed_objects2()
    objs[9] = Stream({}, program)
    return pdfgen.build(objs)


def h5_cmap(timeout=300, part=None, **kw):
    """every token of a ToUnicode CMap program (all section kinds) replaced by a token of another kind, an operator out of place, or removed"""
    def fn(ex):
        i = ex.choice(len(CMAP_TOKENS), "token")
        j = ex.choice(len(CMAP_BAD), "bad")
        toks = list(CMAP_TOKENS)
        toks[i] = CMAP_BAD[j]
        r = run_extract(cmap_doc(b" ".join(toks)))
        ex.require(r is None, "ToUnicode CMap with token %d (%r) replaced by %r: %s" % (i, CMAP_TOKENS[i], CMAP_BAD[j], r), i=i, j=j)

    def conc(m, info):
        return {"what": "cmap", "i": info["i"], "j": info["j"]}
    from pdfminer import high_level
    return core.run_symx("H5_content", fn, [high_level.extract_text], {"program": "ToUnicode CMap of %d tokens (def, codespacerange, bfchar, bfrange incl. array form, cidrange, cidchar, notdefrange, usecmap)" % len(CMAP_TOKENS),
                                                                        "faults": "%d replacement tokens at every position" % len(CMAP_BAD)}, timeout, concretize=conc, part=part)


# ---- truncated / corrupted embedded font programs


def tt_program():
    from harness import C07
    return bytes(C07.tt_font([(0x41, 0x42, 1, None), (0x50, 0x51, 0, 0)], [5, 6]))


def fontfile_doc(kind, data):
    if kind == "tt":                 # CID font with Adobe-Identity collection, no ToUnicode: the Unicode map comes from the embedded TrueType cmap
        objs = seed_objects2()
        objs[13] = dict(objs[13], FontFile2=Ref(40))
        objs[40] = Stream({"Length1": len(data)}, data)
        del objs[7]["ToUnicode"]
    else:                            # Type 1 font without /Encoding: the built-in encoding is read from the font program's header
        objs = seed_objects()
        objs[3] = {"Type": "Font", "Subtype": "Type1", "BaseFont": "Foo", "FontDescriptor": Ref(41), "FirstChar": 65, "LastChar": 66, "Widths": [500, 600]}
        objs[41] = {"Type": "FontDescriptor", "FontName": "Foo", "Flags": 4, "FontBBox": [0, 0, 1000, 1000], "FontFile": Ref(42)}
        objs[42] = Stream({"Length1": len(data), "Length2": 0, "Length3": 0}, data)
    return pdfgen.build(objs)


def fontfile_fault(kind, mode, pos, v):
    data = tt_program() if kind == "tt" else T1_HEADER
    if mode == "cut":
        return data[:pos], "%s font program cut to %d of %d bytes" % (kind, pos, len(data))
    d = bytearray(data)
    d[pos] = [0, 255, d[pos] ^ 1, d[pos] ^ 0x80][v]
    return bytes(d), "%s font program with byte %d set to %d" % (kind, pos, d[pos])


def h5_fontfile(timeout=300, part=None, **kw):
    """the embedded TrueType (cmap table) and Type 1 (header) font programs truncated at every length and with every single byte set to 0 / 255 / one bit flipped (low, high)"""
    sizes = {"tt": len(tt_program()), "t1": len(T1_HEADER)}

    def fn(ex):
        kind = ("tt", "t1")[ex.choice(2, "font")]
        mode = ("cut", "byte")[ex.choice(2, "mode")]
        pos = ex.int("pos", 0, sizes[kind] - (0 if mode == "cut" else 1)).__index__()
        v = ex.choice(4, "value") if mode == "byte" else 0
        data, what = fontfile_fault(kind, mode, pos, v)
        r = run_extract(fontfile_doc(kind, data))
        ex.require(r is None, "%s: %s" % (what, r), kind=kind, mode=mode, pos=pos, v=v)

    def conc(m, info):
        return {"what": "fontfile", "kind": info["kind"], "mode": info["mode"], "pos": info["pos"], "v": info["v"]}
    from pdfminer import high_level
    return core.run_symx("H5_content", fn, [high_level.extract_text], {"font programs": "generated TrueType file with a two-segment format-4 cmap (%d bytes); Type 1 header with an Encoding array (%d bytes)" % (sizes["tt"], sizes["t1"]),
                                                                        "faults": "every truncation; every byte set to 0, 255, or with bit 0 / bit 7 flipped"}, timeout, concretize=conc, part=part,
                         int_lo=0, int_hi=max(sizes.values()) + 1)


# ------------------------------------------------------------------------------------------ replay: through extract_text where possible
def _doc_with_stream(attrs, payload):
    objs = seed_objects()
    objs[5] = Stream(attrs, payload)
    return pdfgen.build(objs)


# ------------------------------------------------------------------------------------------ H4 page trees whose /Kids share nodes or point back (work must stay proportional)
GRAPH_SHAPES = [("chain-dup", 28, 2), ("chain-dup", 18, 3), ("chain-dup", 6, 2), ("diamond", 24, 2), ("diamond", 12, 3), ("clique", 11, 0), ("clique", 6, 0), ("back-edges", 20, 0)]


def pagegraph_doc(shape, n, k):
    """a page tree of n /Pages nodes over one leaf page, damaged so that nodes are reachable along many paths: every node lists its only child k times (chain-dup); layers of k nodes that each
    list every node of the next layer (diamond); n nodes that all list each other (clique); a chain where every node also lists all its ancestors (back-edges)"""
    objs = {1: {"Type": "Catalog", "Pages": Ref(10)}, 3: {"Type": "Font", "Subtype": "Type1", "BaseFont": "Helvetica"},
            4: {"Type": "Page", "Parent": Ref(10), "MediaBox": [0, 0, 200, 200], "Contents": Ref(5), "Resources": {"Font": {"F1": Ref(3)}}}, 5: Stream({}, b"BT /F1 10 Tf 10 100 Td (Hello) Tj ET")}
    leaf = Ref(4)
    if shape == "chain-dup":
        for i in range(n):
            objs[10 + i] = {"Type": "Pages", "Kids": [Ref(10 + i + 1) if i + 1 < n else leaf] * k, "Count": 1}
    elif shape == "diamond":
        ids = [[10 + i * k + j for j in range(k)] for i in range(n)]
        ids[0] = [10]
        for i in range(n):
            for x in ids[i]:
                objs[x] = {"Type": "Pages", "Kids": [Ref(y) for y in ids[i + 1]] if i + 1 < n else [leaf], "Count": 1}
    elif shape == "clique":
        for i in range(n):
            objs[10 + i] = {"Type": "Pages", "Kids": [Ref(10 + j) for j in range(n) if j != i] + [leaf], "Count": 1}
    else:
        for i in range(n):
            objs[10 + i] = {"Type": "Pages", "Kids": [Ref(10 + j) for j in range(i + 1)] + [Ref(10 + i + 1) if i + 1 < n else leaf], "Count": 1}
    return pdfgen.build(objs)


# ---- H4_prevchain: /Prev offsets that land anywhere around a cross-reference section (on it, on the white space before it, inside it), in one- and two-section files ----------
PREV_D1 = list(range(-8, 9))
PREV_D2 = [-2, -1, 0, 1, 2]


def prevchain_doc(two, d1, d2):
    """a classic-table file whose trailer has /Prev = (offset of its own section) + d1; with `two`, an incremental update follows whose section has /Prev = (first section) + d2 while the
    first section's /Prev = (second section) + d1: every chain leads back into itself, exactly or through neighbouring bytes"""
    from lib import pdfgen
    d0 = bytes(pdfgen.build(_prev_objs(), trailer_extra={"Prev": 1111111111}))
    x1 = int(d0.rsplit(b"startxref", 1)[1].split()[0])
    if not two:
        return d0.replace(b"1111111111", b"%010d" % max(0, x1 + d1))
    x2 = len(d0) + 1
    upd = b"\nxref\n0 1\n0000000000 65535 f \ntrailer\n<< /Size 8 /Root 1 0 R /Prev %d >>\nstartxref\n%d\n%%%%EOF\n" % (max(0, x1 + d2), x2)
    return d0.replace(b"1111111111", b"%010d" % max(0, x2 + d1)) + upd


def _prev_objs():
    from lib.pdfgen import Ref, Stream
    return {1: {"Type": "Catalog", "Pages": Ref(2)}, 2: {"Type": "Pages", "Kids": [Ref(4)], "Count": 1}, 3: {"Type": "Font", "Subtype": "Type1", "BaseFont": "Helvetica"},
            4: {"Type": "Page", "Parent": Ref(2), "MediaBox": [0, 0, 200, 200], "Contents": Ref(5), "Resources": {"Font": {"F1": Ref(3)}}}, 5: Stream({}, b"BT /F1 10 Tf 10 100 Td (prev) Tj ET")}


def h4_prevchain(timeout=300, part=None, **kw):
    from pdfminer import high_level
    import pdfminer.pdfdocument as pd

    def fn(ex):
        two = ex.choice(2, "two")
        d1 = PREV_D1[ex.choice(len(PREV_D1), "d1")]
        d2 = PREV_D2[ex.choice(len(PREV_D2), "d2")] if two else 0
        entry = ENTRIES[ex.choice(2, "entry") * 3]            # extract_text / extract_pages
        r = run_extract(prevchain_doc(two, d1, d2), entry=entry)
        ex.require(r is None, "%s-section file, /Prev = a section's offset %+d%s: %s" % (["one", "two"][two], d1, (" and %+d" % d2) if two else "", r), two=two, d1=d1, d2=d2, entry=entry)

    def conc(m, info):
        return {"what": "prevchain", "two": info["two"], "d1": info["d1"], "d2": info["d2"], "entry": info["entry"]}
    return core.run_symx("H4_faults", fn, [pd.PDFDocument.read_xref_from, high_level.extract_text],
                         {"sections": [1, 2], "Prev": "own / other section's offset %+d..%+d (two sections: x %+d..%+d)" % (PREV_D1[0], PREV_D1[-1], PREV_D2[0], PREV_D2[-1]),
                          "work bound": "5 s of CPU time, 2 GiB address-space allowance"}, timeout, concretize=conc, part=part)


def h4_pagegraph(timeout=200, part=None, **kw):
    from pdfminer import high_level

    def fn(ex):
        si = ex.choice(len(GRAPH_SHAPES), "shape")
        entry = ENTRIES[ex.choice(2, "entry") * 3]            # extract_text / extract_pages
        shape, n, k = GRAPH_SHAPES[si]
        r = run_extract(pagegraph_doc(shape, n, k), entry=entry)
        ex.require(r is None, "page tree %s (%d nodes, multiplicity %d; a %d-byte document): %s" % (shape, n, k, len(pagegraph_doc(shape, n, k)), r), si=si, entry=entry)

    def conc(m, info):
        return {"what": "pagegraph", "si": info["si"], "entry": info["entry"]}
    from pdfminer.pdfpage import PDFPage
    return core.run_symx("H4_faults", fn, [PDFPage.create_pages, high_level.extract_text], {"page trees": [str(x) for x in GRAPH_SHAPES], "work bound": "5 s alarm, 2 GiB address-space allowance"}, timeout, concretize=conc, part=part)


# ------------------------------------------------------------------------------------------ H4 every byte of a Flate payload corrupted
def flate_doc(pos, mode):
    """the 8-object seed document with its content stream Flate-compressed; payload byte `pos` inverted (mode 0), zeroed (1), or the payload cut there (2); pos None: intact"""
    import zlib
    objs = seed_objects()
    payload = zlib.compress(CONTENT * 3, 9)
    if pos is not None:
        payload = payload[:pos] + (bytes([payload[pos] ^ 0xFF]) if mode == 0 else b"\0" if mode == 1 else b"") + (payload[pos + 1:] if mode != 2 else b"")
    objs[5] = Stream({"Filter": "FlateDecode"}, payload)
    return pdfgen.build(objs)


def flate_len():
    import zlib
    return len(zlib.compress(CONTENT * 3, 9))


def h4_flate(timeout=300, part=None, **kw):
    from pdfminer import high_level
    n = flate_len()

    def fn(ex):
        pos = ex.choice(n, "pos")
        mode = ex.choice(3, "mode")
        entry = ENTRIES[ex.choice(2, "entry") * 3]
        r = run_extract(flate_doc(pos, mode), entry=entry)
        ex.require(r is None, "content stream /FlateDecode, payload byte %d of %d %s: %s" % (pos, n, ["inverted", "zeroed", "and the rest cut off"][mode], r), pos=pos, mode=mode, entry=entry)

    def conc(m, info):
        return {"what": "flate", "pos": info["pos"], "mode": info["mode"], "entry": info["entry"]}
    import pdfminer.pdftypes as pt
    return core.run_symx("H4_faults", fn, [pt.PDFStream.decode, pt.decompress_corrupted, high_level.extract_text], {"payload": "%d bytes of zlib data, every byte inverted / zeroed / cut" % n, "entry points": "extract_text, extract_pages"},
                         timeout, concretize=conc, part=part)


def replay(harness, inp):
    import pdfminer.pdftypes as pt
    if harness == "H1_accessors":
        # build a real document whose page dictionary holds the argument under the key the accessor is used for, and run extract_text
        doc = Doc(2000)
        for n in (1, 2, 3):
            doc.objs[n] = make_value(doc, inp["objs"][str(n)] if str(n) in inp["objs"] else inp["objs"][n])
        import pdfminer.casting as ca
        import pdfminer.utils as u
        import pdfminer.pdfpage as pp
        acc = {"resolve1": pt.resolve1, "resolve_all": pt.resolve_all, "int_value": pt.int_value, "float_value": pt.float_value, "num_value": pt.num_value,
               "uint_value": lambda x: pt.uint_value(x, 32), "str_value": pt.str_value, "list_value": pt.list_value, "dict_value": pt.dict_value, "stream_value": pt.stream_value,
               "safe_int": ca.safe_int, "safe_float": ca.safe_float, "safe_rect_list": ca.safe_rect_list,
               "page_boxes": lambda x: (pp.PDFPage._parse_mediabox(None, x), pp.PDFPage._parse_cropbox(None, x, (0, 0, 1, 1)))}[inp["accessor"]]
        try:
            acc(make_value(doc, inp["arg"]))
        except WorkLimit:
            return "%s(%s) with objects %r does not terminate" % (inp["accessor"], inp["arg"], inp["objs"])
        except RecursionError:
            return "%s(%s) with objects %r: RecursionError" % (inp["accessor"], inp["arg"], inp["objs"])
        except Exception as e:
            return None if ok_exc(e) else "%s(%s) with objects %r raised %s: %s" % (inp["accessor"], inp["arg"], inp["objs"], type(e).__name__, e)
        return None
    if harness == "H2_cycles":
        objs = seed_objects()
        t = inp["target"]
        if inp["which"] == 0:
            objs[1]["PageLabels"] = Ref(21)
            objs[21] = {"Kids": [Ref(22)]}
            objs[22] = {"Kids": [Ref(21 + t)], "Nums": [0, {}]}
            objs[23] = {"Nums": [1, {}]}
            r = run_extract(pdfgen.build(objs))
            return None if r is None else "page-label number tree whose Kids lead back to node %d: %s" % (21 + t, r)
        if inp["which"] == 1:
            import pdfminer.pdfdocument as pd
            from pdfminer.pdfparser import PDFParser
            objs[1]["Names"] = {"Dests": Ref(21)}
            objs[21] = {"Kids": [Ref(22)]}
            objs[22] = {"Kids": [Ref(21 + t)]}
            objs[23] = {"Names": [b"a", [0]]}
            d = pd.PDFDocument(PDFParser(io.BytesIO(pdfgen.build(objs))))
            try:
                d.get_dest(b"zz")
            except RecursionError:
                return "name tree whose Kids lead back to node %d: get_dest exhausts the recursion limit" % (21 + t)
            except Exception as e:
                return None if ok_exc(e) else "name tree cycle: get_dest raised %r" % e
            return None
        from harness import C02
        import pdfminer.pdfdocument as pd
        d, log = C02.make_doc([{}], True)
        chain = {5: 6, 6: 5 + t % 2 if t < 2 else 6}
        d.xrefs[0].table = {5: (chain[5], 0, 0), 6: (chain[6], 0, 0)}
        try:
            d.getobj(5)
        except RecursionError:
            return "cross-reference entries placing object 5 in object stream 6 and 6 in %d: getobj(5) exhausts the recursion limit" % chain[6]
        except Exception as e:
            return None if ok_exc(e) else "object-stream cycle: getobj raised %r" % e
        return None
    what = inp.get("what")
    if what == "rl":
        from pdfminer.psparser import LIT
        r = run_extract(_doc_with_stream({"Filter": "RunLengthDecode"}, inp["data"]))
        return None if r is None else "content stream with /RunLengthDecode payload %r: %s" % (inp["data"], r)
    if what == "pred":
        import zlib
        parms = {"Predictor": 12 if inp["which"] == 0 else 2, "Colors": inp["colors"], "Columns": inp["columns"], "BitsPerComponent": inp["bpc"]}
        r = run_extract(_doc_with_stream({"Filter": "FlateDecode", "DecodeParms": parms}, zlib.compress(inp["data"])))
        return None if r is None else "content stream with /FlateDecode and DecodeParms %r over %r: %s" % (parms, inp["data"], r)
    if what == "filter":
        parms = None if inp["pi"] is None else [None, {}, {"K": -1}, {"K": -1, "Columns": "x"}, {"K": 0, "Columns": 8}][inp["pi"]]
        attrs = {"Filter": inp["filt"]}
        if parms is not None:
            attrs["DecodeParms"] = parms
        r = run_extract(_doc_with_stream(attrs, inp["data"]))
        return None if r is None else "content stream with /%s (DecodeParms %r) payload %r: %s" % (inp["filt"], parms, inp["data"], r)
    if what == "fault2":
        objs = seed_objects()
        for st, kd in zip(inp["sites"], inp["kinds"]):
            apply_fault(objs, tuple(st), kd)
        r = run_extract(pdfgen.build(objs))
        return None if r is None else "seed document with faults %r at %r: %s" % (inp["kinds"], inp["sites"], r)
    if what == "fault":
        objs = SEEDS[inp.get("seed", 1)]()
        apply_fault(objs, tuple(inp["site"]), inp["kind"])
        r = run_extract(pdfgen.build(objs), entry=inp.get("entry", "text"))
        return None if r is None else "seed document %d with object %d entry %s replaced by %s: %s" % (inp.get("seed", 1), inp["site"][0], "/".join(map(str, inp["site"][1:])), inp["kind"], r)
    if what == "fontfile":
        data, desc = fontfile_fault(inp["kind"], inp["mode"], inp["pos"], inp["v"])
        r = run_extract(fontfile_doc(inp["kind"], data))
        return None if r is None else "%s (%s): %s" % (desc, data.hex(), r)
    if what == "flate":
        r = run_extract(flate_doc(inp["pos"], inp["mode"]), entry=inp["entry"])
        return None if r is None else "content stream /FlateDecode, payload byte %d %s: %s" % (inp["pos"], ["inverted", "zeroed", "and the rest cut off"][inp["mode"]], r)
    if what == "prevchain":
        r = run_extract(prevchain_doc(inp["two"], inp["d1"], inp["d2"]), entry=inp["entry"])
        return None if r is None else "%s-section file, /Prev = a section's offset %+d / %+d: %s" % (["one", "two"][inp["two"]], inp["d1"], inp["d2"], r)
    if what == "pagegraph":
        shape, n, k = GRAPH_SHAPES[inp["si"]]
        r = run_extract(pagegraph_doc(shape, n, k), entry=inp["entry"])
        return None if r is None else "page tree %s (%d nodes, multiplicity %d): %s" % (shape, n, k, r)
    if what == "huge":
        where, site = HUGE_SITES[inp["i"]]
        r = run_extract(huge_doc(where, site, HUGE[inp["j"]]), entry=inp.get("entry", "text"))
        return None if r is None else "%s document with entry %s set to %d: %s" % (where, site, HUGE[inp["j"]], r)
    if what == "cmap":
        toks = list(CMAP_TOKENS)
        toks[inp["i"]] = CMAP_BAD[inp["j"]]
        r = run_extract(cmap_doc(b" ".join(toks)))
        return None if r is None else "ToUnicode CMap %r (token %d replaced by %r): %s" % (b" ".join(toks), inp["i"], CMAP_BAD[inp["j"]], r)
    if what == "encrypt":
        r = run_extract(encrypted_doc(inp["rev"], (tuple(inp["site"]), inp["kind"])))
        return None if r is None else "R%d encryption dictionary with entry %s replaced by %s: %s" % (inp["rev"], "/".join(map(str, inp["site"][1:])), inp["kind"], r)
    if what == "content":
        content, desc = content_fault(inp["kind"], inp["i"], inp["j"])
        r = run_extract(content_doc(content))
        return None if r is None else "page content %r (%s): %s" % (content, desc, r)
    if what == "objstm":
        k, n = inp["kind"], inp["n"]
        if k == "ocut":
            what2, data = "object-stream payload cut to %d bytes" % n, _packed_doc(objstm_fault=lambda d, p: (d, p[:n]))
        elif k == "xcut":
            what2, data = "cross-reference-stream payload cut to %d bytes" % n, _packed_doc(xref_fault=lambda d, p: (d, p[:n]))
        elif k == "odict":
            what2, data = "object stream /%s set to %r" % OBJSTM_FAULTS[n], _packed_doc(objstm_fault=_dict_fault(*OBJSTM_FAULTS[n]))
        else:
            what2, data = "cross-reference stream /%s set to %r" % XREF_FAULTS[n], _packed_doc(xref_fault=_dict_fault(*XREF_FAULTS[n]))
        r = run_extract(data)
        return None if r is None else "seed document stored in an object stream + cross-reference stream, %s: %s" % (what2, r)
    if what == "truncate":
        data = pdfgen.build(SEEDS[inp.get("seed", 1)]())
        r = run_extract(data[:inp["cut"]])
        return None if r is None else "seed document truncated after %d bytes: %s" % (inp["cut"], r)
    raise KeyError(harness)


def jobs(tier):
    J = [Job("H2_cycles", "h2_cycles", {}, 100, "H2_cycles")]
    for k in range(4):
        J.append(Job("H1_accessors:%d" % k, "h1_accessors", {"part": [k, 4, 8]}, 300, "H1_accessors"))
    for k in range(8):
        J.append(Job("H3_rl:%d" % k, "h3_rl", {"n": 3 if tier == "quick" else 4, "part": [k, 8, 10]}, 300 if tier == "quick" else 1800, "H3_decoders"))
    for k in range(12):
        J.append(Job("H3_predictors:%d" % k, "h3_predictors", {"part": [k, 12, 11]}, 300, "H3_decoders"))
    J.append(Job("H3_ascii", "h3_ascii", {}, 300, "H3_decoders"))
    for k in range(2):
        J.append(Job("H4_faults:seed1:%d" % k, "h4_faults", {"depth": 3, "part": [k, 2, 6]}, 300, "H4_faults"))
    for k in range(6):
        J.append(Job("H4_faults:seed2:%d" % k, "h4_faults", {"seed": 2, "depth": 3, "part": [k, 6, 8]}, 300, "H4_faults"))
    for k in range(2):
        J.append(Job("H4_truncate:%d" % k, "h4_truncate", {"part": [k, 2, 5]}, 300, "H4_faults"))
    for k in range(4):
        J.append(Job("H4_truncate:seed2:%d" % k, "h4_truncate", {"seed": 2, "part": [k, 4, 6]}, 300, "H4_faults"))
    for k in range(2):
        J.append(Job("H4_objstm:%d" % k, "h4_objstm", {"part": [k, 2, 5]}, 300, "H4_faults"))
    J.append(Job("H4_encrypt", "h4_encrypt", {}, 300, "H4_faults"))
    J.append(Job("H4_huge", "h4_huge", {}, 300, "H4_faults"))
    J.append(Job("H4_pagegraph", "h4_pagegraph", {}, 300, "H4_faults"))
    J.append(Job("H4_prevchain", "h4_prevchain", {}, 300, "H4_faults"))
    J.append(Job("H4_flate", "h4_flate", {}, 300, "H4_faults"))
    J.append(Job("H5_cmap", "h5_cmap", {}, 300, "H5_content"))
    for k in range(2):
        J.append(Job("H5_fontfile:%d" % k, "h5_fontfile", {"part": [k, 2, 4]}, 300, "H5_content"))
    for k in range(2):
        J.append(Job("H5_content:%d" % k, "h5_content", {"part": [k, 2, 4]}, 300, "H5_content"))
    if tier != "quick":
        for k in range(16):
            J.append(Job("H4_faults2:%d" % k, "h4_faults2", {"part": [k, 16, 10]}, 1800, "H4_faults"))
    return J
