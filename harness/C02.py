"""C02 - cross-reference resolution: newest definition wins, in every physical form.

H1 PDFXRefStream.get_pos / get_objids on symbolic /Index ranges, field widths, entry bytes and object number vs. ISO 32000-1 7.5.8.
H2 PDFDocument.getobj over symbolic revision tables (stub sections; parser stubbed): first section that defines the id, caching on/off,
   object-stream member arithmetic.
H3 PDFDocument.read_xref_from over a symbolic pointer graph of sections (Prev / XRefStm, incl. cycles): order and termination.
H4 classic table text: real PDFXRef.load on a real PDFParser; subsection partition and the three 2-byte EOL forms chosen symbolically.
H5 find_xref / revreadlines: startxref located for every read-buffer size and EOL form.
"""
import io

import z3

from engine import symx, sbytes
from engine.symx import SB, SI
from engine.sbytes import SBy, SByI
from harness import numshim
from lib import core
from lib.core import Job

ASSUMPTIONS = [
    "a free entry ('f', or type 0 in a cross-reference stream) is treated as 'this section does not define the object' - pdfminer then looks in older sections; "
    "the property speaks only of revisions that define n",
    "H1: the /Index ranges do not overlap (ISO 32000-1 7.5.8.2)",
    "H2/H3: the parser is replaced by stubs answering from symbolic tables (history = symbolic variables)",
]
OUTSIDE = ["the body-scan fallback (PDFXRefFallback): whole-file scan", "hybrid files beyond the chaining order (H3)", "more than 3 revisions / 3 ranges"]


def py_from_bytes(b, byteorder="big", signed=False):
    if isinstance(b, SBy):
        v = 0
        for e in b.els:
            v = v * 256 + (e if isinstance(e, int) else SI(e))
        return v
    return int.from_bytes(b, byteorder=byteorder, signed=signed)


def _shims():
    s = numshim.install("utils", "pdfdocument", "pdftypes", "casting")
    sbytes.IntT.from_bytes = staticmethod(py_from_bytes)
    return s + ["int.from_bytes -> big-endian sum"]


# ---------------------------------------------------------------------------------------------- H1
def h1_xrefstream(nranges=2, timeout=200, part=None, **kw):
    shims = _shims()
    import pdfminer.pdfdocument as pd

    def fn(ex):
        fl1 = ex.choice(2, "fl1")
        fl2 = 1 + ex.choice(2, "fl2")
        fl3 = ex.choice(3, "fl3")
        entlen = fl1 + fl2 + fl3
        k = 1 + ex.choice(nranges, "nranges")
        ranges = []
        total = 0
        for r in range(k):
            start = ex.int("s%d" % r, 0, 12)
            cnt = 1 + ex.choice(2, "n%d" % r)
            ranges.append((start, cnt))
            total += cnt
        # non-overlapping ranges
        for i in range(k):
            for j in range(i + 1, k):
                (a, n), (b, m) = ranges[i], ranges[j]
                ex.assume(SB(z3.Or(a.e + n <= b.e, b.e + m <= a.e)))
        data = sbytes.sym_bytes(ex, "e", total * entlen)
        x = pd.PDFXRefStream()
        x.ranges = list(ranges)
        x.fl1, x.fl2, x.fl3, x.entlen = fl1, fl2, fl3, entlen
        x.data = SByI(data.els)
        objid = ex.int("objid", 0, 15)
        info = {"ranges": ranges, "W": [fl1, fl2, fl3], "data": data, "objid": objid}
        # reference decoding of 7.5.8: entries follow each other over the subsections in order
        ents = []
        for e in range(total):
            b = data.els[e * entlen:(e + 1) * entlen]
            f = lambda bs: sum((v * (256 ** (len(bs) - 1 - i)) for i, v in enumerate(bs)), z3.IntVal(0)) if bs else None
            t = f(b[:fl1])
            ents.append((z3.IntVal(1) if t is None else t, f(b[fl1:fl1 + fl2]), z3.IntVal(0) if fl3 == 0 else f(b[fl1 + fl2:])))
        try:
            got = x.get_pos(objid)
            err = None
        except KeyError:
            got, err = None, "KeyError"
        except symx.Violation:
            raise
        except Exception as e:
            ex.require(False, "get_pos raised %s: %s" % (type(e).__name__, e), **info)
        # expected, as one formula over the symbolic objid
        cases = []
        idx = 0
        for (start, cnt) in ranges:
            for i in range(cnt):
                t, f2, f3 = ents[idx + i]
                here = objid.e == start.e + i
                if got is None:
                    cases.append(z3.Implies(here, z3.And(t != 1, t != 2)))
                else:
                    g0 = z3.IntVal(-1) if got[0] is None else symx.zi(got[0])
                    cases.append(z3.Implies(here, z3.Or(z3.And(t == 1, g0 == -1, symx.zi(got[1]) == f2, symx.zi(got[2]) == f3),
                                                        z3.And(t == 2, g0 == f2, symx.zi(got[1]) == f3, symx.zi(got[2]) == 0))))
            idx += cnt
        inany = z3.Or([z3.And(objid.e >= s.e, objid.e < s.e + c) for s, c in ranges])
        if got is not None:
            cases.append(inany)
        ex.require(SB(z3.And(cases)), "get_pos(objid) differs from the 7.5.8 decoding (result %r)" % (got if got is not None else err,), **info)
        ids = list(x.get_objids())
        conds = []
        idx = 0
        gi = 0
        for (start, cnt) in ranges:
            for i in range(cnt):
                t = ents[idx + i][0]
                inuse = z3.Or(t == 1, t == 2)
                has = gi < len(ids) and bool(SB(symx.zi(ids[gi]) == start.e + i)) if False else None
                conds.append((inuse, start.e + i))
            idx += cnt
        # ids must be exactly the in-use numbers in table order: count and membership
        exp_count = sum((z3.If(c, 1, 0) for c, _ in conds), z3.IntVal(0))
        ex.require(SB(exp_count == len(ids)), "get_objids reports %d objects, the table has a different number in use" % len(ids), **info)
        for got_id in ids:
            ex.require(SB(z3.Or([z3.And(c, symx.zi(got_id) == n) for c, n in conds])), "get_objids reports an object number that is not in use in the table", **info)

    def conc(m, info):
        return {"ranges": [[symx.mval(m, s), c] for s, c in info["ranges"]], "W": info["W"], "data": sbytes.model_bytes(m, info["data"]), "objid": symx.mval(m, info["objid"])}
    return core.run_symx("H1_xrefstream", fn, [pd.PDFXRefStream.get_pos, pd.PDFXRefStream.get_objids],
                         {"ranges": "1..%d subsections, symbolic start 0..12, 1..2 entries each" % nranges, "W": "[0|1, 1|2, 0|1|2]", "entries": "all bytes symbolic", "objid": "symbolic 0..15"},
                         timeout, concretize=conc, shims={"namespace_shims": shims}, part=part, int_lo=-2, int_hi=70000)


# ---------------------------------------------------------------------------------------------- H2
class StubXRef:
    def __init__(self, table, trailer=None):
        self.table = table            # objid -> (strmid, index, genno)
        self.trailer = trailer or {}

    def get_trailer(self):
        return self.trailer

    def get_objids(self):
        return sorted(self.table)

    def get_pos(self, objid):
        from pdfminer.pdfexceptions import PDFKeyError
        if objid not in self.table:
            raise PDFKeyError(objid)
        return self.table[objid]


def make_doc(spec, caching):
    """spec: list (newest first) of {objid: ('d', offset) | ('s', strmid, index)}; stream containers are direct objects of their revision"""
    import pdfminer.pdfdocument as pd
    import pdfminer.pdftypes as pt
    from pdfminer.psparser import LIT
    doc = pd.PDFDocument.__new__(pd.PDFDocument)
    doc.caching = caching
    doc._cached_objs = {}
    doc._parsed_objs = {}
    doc._opening_objstms = set()
    doc.decipher = None
    doc.xrefs = []
    parse_log = []
    streams = {}
    for ri, rev in enumerate(spec):
        tab = {}
        for oid, ent in rev.items():
            if ent[0] == "d":
                tab[oid] = (None, 1000 * ri + oid, 0)
            else:
                strmid = 20 + ri
                tab[oid] = (strmid, ent[1], 0)
                tab[strmid] = (None, 1000 * ri + strmid, 0)
        doc.xrefs.append(StubXRef(tab))

    def _getobj_parse(pos, objid):
        parse_log.append((pos, objid))
        ri, oid = divmod(pos, 1000)
        if oid >= 20:
            st = pt.PDFStream({"Type": LIT("ObjStm"), "N": 3}, b"")
            st.tag = ri
            return st
        return ("direct", ri, oid)

    def _get_objects(stream):
        ri = stream.tag
        # three members: header pairs (objnum offset) then the objects
        members = sorted(o for o, e in spec[ri].items() if e[0] == "s")
        objs = []
        for k in range(3):
            objs += [members[k] if k < len(members) else 90 + k, 10 * k]
        objs += [("member", ri, k) for k in range(3)]
        return (objs, 3)
    doc._getobj_parse = _getobj_parse
    doc._get_objects = _get_objects
    return doc, parse_log


def expected_lookup(spec, objid):
    for ri, rev in enumerate(spec):
        if objid in rev:
            e = rev[objid]
            return ("direct", ri, objid) if e[0] == "d" else ("member", ri, e[1])
    return None


def h2_lookup(nrev=2, timeout=200, part=None, **kw):
    import pdfminer.pdfdocument as pd
    from pdfminer.pdfexceptions import PDFObjectNotFound

    def fn(ex):
        spec = []
        for ri in range(nrev):
            rev = {}
            for oid in (1, 2, 3):
                k = ex.choice(4, "r%do%d" % (ri, oid))        # absent / direct / member 0 / member 2
                if k == 1:
                    rev[oid] = ("d",)
                elif k >= 2:
                    rev[oid] = ("s", [0, 2][k - 2])
            spec.append(rev)
        caching = ex.choice(2, "caching") == 1
        doc, log = make_doc(spec, caching)
        info = {"spec": [{str(k): list(v) for k, v in r.items()} for r in spec], "caching": caching}
        for oid in (1, 2, 3, 2):                              # object 2 is looked up twice
            exp = expected_lookup(spec, oid)
            try:
                got = doc.getobj(oid)
            except PDFObjectNotFound:
                got = None
            except symx.Violation:
                raise
            except Exception as e:
                ex.require(False, "getobj(%d) raised %s: %s" % (oid, type(e).__name__, e), **info)
            ex.require(got == exp, "getobj(%d) = %r, the newest revision defining it gives %r" % (oid, got, exp), **info)
        for ri, xr in enumerate(doc.xrefs):
            ids = [i for i in xr.get_objids() if i < 20]
            ex.require(ids == sorted(spec[ri]), "in-use ids of revision %d: %r" % (ri, ids), **info)

    def conc(m, info):
        return info
    return core.run_symx("H2_lookup", fn, [pd.PDFDocument.getobj, pd.PDFDocument._getobj_objstm],
                         {"revisions": nrev, "objects": "1..3, each absent / direct / member of that revision's object stream (index 0 or 2)", "caching": "on/off", "lookups": "1,2,3,2"},
                         timeout, concretize=conc, part=part)


# ---------------------------------------------------------------------------------------------- H3
def h3_chain(nsec=3, timeout=200, part=None, **kw):
    import pdfminer.pdfdocument as pd
    from pdfminer.psparser import KWD

    def fn(ex):
        # sections live at offsets 100, 200, 300; each is a table or a stream and may carry Prev / XRefStm pointing anywhere (incl. itself)
        offs = [100 * (i + 1) for i in range(nsec)]
        secs = {}
        for o in offs:
            kind = ex.choice(2, "k%d" % o)
            prev = ex.choice(nsec + 1, "p%d" % o)
            xs = ex.choice(nsec + 1, "x%d" % o) if kind == 0 else nsec
            secs[o] = (kind, offs[prev] if prev < nsec else None, offs[xs] if xs < nsec else None)
        loaded = []

        class P:
            KEYWORD_XREF = KWD(b"xref")

            def seek(self, pos):
                self.pos = pos

            def reset(self):
                pass

            def nexttoken(self):
                return (self.pos, 7 if secs[self.pos][0] == 1 else self.KEYWORD_XREF)

            def nextline(self):
                return (self.pos, b"xref\n")
        parser = P()

        def mkload(kindname):
            def load(self, p):
                loaded.append(p.pos)
                if len(loaded) > 3 * nsec + 3:
                    raise symx.Violation("read_xref_from does not terminate on the section graph", secs={str(k): list(v) for k, v in secs.items()})
                _, prev, xs = secs[p.pos]
                self.trailer = {}
                if prev is not None:
                    self.trailer["Prev"] = prev
                if xs is not None:
                    self.trailer["XRefStm"] = xs
            return load
        o1, o2 = pd.PDFXRef.load, pd.PDFXRefStream.load
        pd.PDFXRef.load = mkload("table")
        pd.PDFXRefStream.load = mkload("stream")
        try:
            doc = pd.PDFDocument.__new__(pd.PDFDocument)
            xrefs = []
            info = {"secs": {str(k): list(v) for k, v in secs.items()}}
            try:
                doc.read_xref_from(parser, offs[0], xrefs)
            except symx.Violation:
                raise
            except RecursionError:
                ex.require(False, "read_xref_from exhausts the recursion limit on a pointer cycle", **info)
            except Exception as e:
                ex.require(False, "read_xref_from raised %s: %s" % (type(e).__name__, e), **info)
        finally:
            pd.PDFXRef.load, pd.PDFXRefStream.load = o1, o2
        # expected: depth-first newest -> its XRefStm -> its Prev, each section once
        exp = []

        def walk(o):
            if o is None or o in exp:
                return
            exp.append(o)
            walk(secs[o][2])
            walk(secs[o][1])
        walk(offs[0])
        ex.require(loaded == exp and len(xrefs) == len(exp), "sections loaded in order %r, expected newest -> XRefStm -> Prev: %r" % (loaded, exp), **info)

    def conc(m, info):
        return info
    return core.run_symx("H3_chain", fn, [pd.PDFDocument.read_xref_from],
                         {"sections": nsec, "kind": "table/stream", "Prev": "none or any section (cycles allowed)", "XRefStm": "none or any section (tables only)"},
                         timeout, concretize=conc, part=part)


# ---------------------------------------------------------------------------------------------- H4 / H5 (concrete bytes, structure by symbolic choice)
EOLS = [b" \n", b" \r", b"\r\n"]


def classic_table(entries, partition, eols, subeol):
    """entries: list of (objid, offset, gen, use); partition: list of subsection lengths; returns bytes of 'xref ... trailer'"""
    out = b"xref" + subeol
    i = 0
    for n in partition:
        out += b"%d %d" % (entries[i][0], n) + subeol
        for k in range(n):
            oid, off, gen, use = entries[i + k]
            out += b"%010d %05d %s" % (off, gen, use) + eols[(i + k) % len(eols)]
        i += n
    return out + b"trailer" + subeol + b"<</Size 9/Root 1 0 R>>" + subeol


ENTRIES = [(0, 0, 65535, b"f"), (1, 17, 0, b"n"), (2, 300, 1, b"n"), (3, 0, 7, b"f"), (4, 4567, 0, b"n")]


def h4_classic(timeout=100, **kw):
    import pdfminer.pdfdocument as pd
    import pdfminer.pdfparser as pp

    def fn(ex):
        parts = [[5], [1, 4], [2, 3], [3, 2], [2, 2, 1], [1, 1, 1, 1, 1]][ex.choice(6, "partition")]
        eols = [EOLS[ex.choice(3, "eol%d" % i)] for i in range(3)]
        subeol = [b"\n", b"\r\n", b"\r"][ex.choice(3, "subeol")]
        bufsiz = [4096, 1, 7, 20][ex.choice(4, "buf")]
        data = classic_table(ENTRIES, parts, eols, subeol)

        class P(pp.PDFParser):
            BUFSIZ = bufsiz
        p = P(io.BytesIO(b"%PDF-1.4\n" + data))
        p.seek(9)
        p.nextline()
        x = pd.PDFXRef()
        info = {"data": data, "bufsiz": bufsiz}
        try:
            x.load(p)
        except Exception as e:
            ex.require(False, "PDFXRef.load raised %s: %s" % (type(e).__name__, e), **info)
        exp = {oid: (None, off, gen) for oid, off, gen, use in ENTRIES if use == b"n"}
        ex.require(x.offsets == exp, "classic table read as %r, written %r" % (x.offsets, exp), **info)
        ex.require(sorted(x.get_objids()) == sorted(exp) and x.get_trailer().get("Size") == 9, "in-use ids or trailer wrong", **info)

    def conc(m, info):
        return info
    return core.run_symx("H4_classic", fn, [pd.PDFXRef.load, pd.PDFXRef.load_trailer],
                         {"entries": 5, "subsection_partitions": 6, "entry_eol": "SP LF / SP CR / CR LF mixed per entry", "line_eol": "LF/CRLF/CR", "bufsiz": [4096, 1, 7, 20],
                          "note": "concrete bytes per path (choices)"}, timeout, concretize=conc)


def h5_findxref(timeout=100, **kw):
    import pdfminer.pdfdocument as pd
    import pdfminer.pdfparser as pp

    def fn(ex):
        e1 = [b"\n", b"\r\n", b"\r"][ex.choice(3, "e1")]
        e2 = [b"\n", b"\r\n", b"\r"][ex.choice(3, "e2")]
        e3 = [b"\n", b"\r\n", b"\r", b""][ex.choice(4, "e3")]
        off = [0, 7, 123456, 4096][ex.choice(4, "off")]
        tail = b"endobj" + e1 + b"startxref" + e1 + b"%d" % off + e2 + b"%%EOF" + e3
        n = len(tail)
        bufsiz = 1 + ex.choice(n + 1, "buf")
        if bufsiz > n:
            bufsiz = 4096

        class P(pp.PDFParser):
            BUFSIZ = bufsiz
        p = P(io.BytesIO(b"%PDF-1.4 filler filler\n" + tail))
        doc = pd.PDFDocument.__new__(pd.PDFDocument)
        info = {"tail": tail, "bufsiz": bufsiz, "off": off}
        try:
            got = doc.find_xref(p)
        except Exception as e:
            ex.require(False, "find_xref raised %s: %s" % (type(e).__name__, e), **info)
        ex.require(got == off, "find_xref returns %r, startxref says %r" % (got, off), **info)

    def conc(m, info):
        return info
    return core.run_symx("H5_findxref", fn, [pd.PDFDocument.find_xref],
                         {"tail": "endobj startxref <offset> %%EOF with LF/CRLF/CR line ends", "bufsiz": "every size 1..len and 4096", "note": "concrete bytes per path (choices)"},
                         timeout, concretize=conc)


# ---------------------------------------------------------------------------------------------- H6 whole files in every physical form
def _history(spec):
    """spec: {"forms": [...], "defs": [[obj numbers defined by revision k]], "packed": [[...]], "eol": b".."} -> (file bytes, expected {n: tag})"""
    from lib import pdfgen
    from lib.pdfgen import Ref, Stream
    base = {1: {"Type": "Catalog", "Pages": Ref(2), "Rev": 0}, 2: {"Type": "Pages", "Kids": [Ref(4)], "Count": 1},
            3: {"Type": "Font", "Subtype": "Type1", "BaseFont": "Helvetica"},
            4: {"Type": "Page", "Parent": Ref(2), "MediaBox": [0, 0, 200, 200], "Contents": Ref(5), "Resources": {"Font": {"F1": Ref(3)}}},
            5: Stream({}, b"BT /F1 10 Tf 10 10 Td (r0) Tj ET"), 6: {"Marker": 0}}
    revs, expected = [], {}
    for k, form in enumerate(spec["forms"]):
        objs = dict(base) if k == 0 else {}
        for n in spec["defs"][k]:
            if n == 5:
                objs[5] = Stream({}, b"BT /F1 10 Tf 10 10 Td (r%d) Tj ET" % k)
            elif n == 1:
                objs[1] = {"Type": "Catalog", "Pages": Ref(2), "Rev": k}
            else:
                objs[n] = {"Marker": k, "Obj": n}
        for n in objs:
            expected[n] = k
        revs.append({"objs": objs, "form": form, "packed": set(spec["packed"][k]) & set(objs)})
    return pdfgen.build_history(revs, eol=spec["eol"]), expected


def _check_history(spec, caching, bufsiz):
    """returns None or a description of the first disagreement between the real PDFDocument and the logical history"""
    import pdfminer.pdfdocument as pd
    import pdfminer.pdfparser as pp
    import pdfminer.pdftypes as pt
    from pdfminer.high_level import extract_text
    data, expected = _history(spec)

    class P(pp.PDFParser):
        BUFSIZ = bufsiz
    try:
        doc = pd.PDFDocument(P(io.BytesIO(data)), caching=caching)
    except Exception as e:
        return "PDFDocument raised %r" % e
    for n, k in sorted(expected.items()):
        try:
            o = doc.getobj(n)
        except Exception as e:
            return "getobj(%d) raised %r, revision %d defines it" % (n, e, k)
        if n == 5:
            got = o.get_data() if isinstance(o, pt.PDFStream) else o
            if got != b"BT /F1 10 Tf 10 10 Td (r%d) Tj ET" % k:
                return "getobj(5) is the content stream %r, the newest definition is revision %d" % (got, k)
        elif n in (6, 7, 8):
            if o != ({"Marker": k, "Obj": n} if not (n == 6 and k == 0 and "Obj" not in o) else {"Marker": 0}):
                return "getobj(%d) = %r, the newest definition is revision %d" % (n, o, k)
    if doc.catalog.get("Rev") != expected[1]:
        return "the catalog comes from revision %r, the newest one defining it is %d" % (doc.catalog.get("Rev"), expected[1])
    # in-use object numbers of every section = exactly those it defines (the reserved container / xref stream numbers aside)
    nrev = len(spec["forms"])
    secs = [sorted(i for i in x.get_objids() if i < 800) for x in doc.xrefs]
    want = []
    for k in range(nrev - 1, -1, -1):
        defined = sorted((set(range(1, 7)) if k == 0 else set()) | set(spec["defs"][k]))
        packed = sorted(set(spec["packed"][k]) & set(defined) - {5}) if spec["forms"][k] != "table" else []
        if spec["forms"][k] == "hybrid":
            want.append(sorted(set(defined) - set(packed)))
            if True:
                want.append(packed)
        else:
            want.append(defined)
    if [s_ for s_ in secs if s_] != [w for w in want if w]:
        return "in-use object numbers per section %r, the revisions define %r" % (secs, want)
    try:
        txt = extract_text(io.BytesIO(data), caching=caching)
    except Exception as e:
        return "extract_text raised %r" % e
    if txt != "r%d\n\n\x0c" % expected[5]:
        return "extract_text gives %r, the newest content stream is revision %d" % (txt, expected[5])
    return None


def h6_forms(nrev=2, timeout=300, part=None, **kw):
    import pdfminer.pdfdocument as pd
    FORMS = ["table", "stream", "hybrid"]

    def fn(ex):
        forms = [FORMS[ex.choice(3, "form%d" % k)] for k in range(nrev)]
        defs, packed = [[]], [[3, 6] if ex.choice(2, "pack0") else []]
        for k in range(1, nrev):
            d = [n for n in (1, 5, 6, 7) if ex.choice(2, "def%d_%d" % (k, n))]
            if not d:
                raise symx.Abort()
            defs.append(d)
            packed.append([n for n in d if n in (6, 7) and ex.choice(2, "pk%d_%d" % (k, n))])
        spec = {"forms": forms, "defs": defs, "packed": packed, "eol": [b"\n", b"\r\n"][ex.choice(2, "eol")]}
        caching = ex.choice(2, "caching") == 1
        bufsiz = [4096, 16][ex.choice(2, "buf")]
        r = _check_history(spec, caching, bufsiz)
        ex.require(r is None, "history %r (caching=%s, BUFSIZ=%d): %s" % (spec, caching, bufsiz, r), spec={k: (v if k != "eol" else v.decode()) for k, v in spec.items()}, caching=caching, bufsiz=bufsiz)

    def conc(m, info):
        return info
    return core.run_symx("H6_forms", fn, [pd.PDFDocument.__init__, pd.PDFDocument.getobj, pd.PDFDocument.read_xref_from, pd.PDFXRef.load, pd.PDFXRefStream.load, pd.PDFDocument._get_objects],
                         {"revisions": nrev, "form_per_revision": FORMS, "defined_objects": "any non-empty subset of catalog / content stream / 2 dictionaries per update", "packing": "direct or object stream",
                          "caching": "on/off", "bufsiz": [4096, 16], "eol": "LF/CRLF", "note": "whole generated files through the real PDFDocument and extract_text; concrete per path (choices)"},
                         timeout, concretize=conc, part=part)


# ---------------------------------------------------------------------------------------------- replay
# ------------------------------------------------------------------------------------------ H7 damaged startxref / cross-reference table of a single-revision classic file
FB_EOLS = [(b"\n", b" \n"), (b"\r\n", b"\r\n"), (b"\r", b" \r")]
FB_DAMAGES = ["none", "sx-zero", "sx-header", "sx-beyond", "sx-midobj", "sx-neg", "sx-word", "sx-nonumber", "kw", "hdr-1field", "hdr-3fields", "hdr-word", "entry-2fields", "entry-4fields", "entry-1field",
              "count-large", "count-huge"]
FB_TEXT = "Hello fallback"


def fb_doc(eol, eeol, damage, sameline=False, tight=False):
    """a single-revision file with a classic table, every line ended by `eol` (table entries by the two-byte `eeol`), with one damage that makes the startxref offset or the table unreadable"""
    from lib.pdfgen import ser, Ref as R
    objs = {1: {"Type": "Catalog", "Pages": R(2)}, 2: {"Type": "Pages", "Kids": [R(4)], "Count": 1}, 3: {"Type": "Font", "Subtype": "Type1", "BaseFont": "Helvetica"},
            4: {"Type": "Page", "Parent": R(2), "MediaBox": [0, 0, 200, 200], "Contents": R(5), "Resources": {"Font": {"F1": R(3)}}}, 6: b"a (string)", 7: [1, 2.5, "Name", [b"x"]]}
    content = b"BT /F1 10 Tf 10 100 Td (" + FB_TEXT.encode() + b") Tj ET"
    out = b"%PDF-1.4" + eol
    offs = {}
    for n in range(1, 8):
        offs[n] = len(out)
        out += b"%d 0 obj" % n + (b"" if sameline else eol)          # sameline: the body starts right after `obj` (dictionaries, arrays and strings begin with a delimiter)
        if n == 5:
            out += ser({"Length": len(content)}) + eol + b"stream\n" + content + (b"" if tight else b"\n") + b"endstream" + eol      # tight: no end-of-line between the data and `endstream` (7.3.8.1: "should", Length is exact)
        else:
            out += ser(objs[n]) + eol
        out += b"endobj" + eol
    xpos = len(out)
    entries = [b"0000000000 65535 f" + eeol] + [b"%010d 00000 n" % offs[n] + eeol for n in range(1, 8)]
    kw, hdr = b"xref", b"0 8"
    if damage == "kw": kw = b"xreg"
    if damage == "hdr-1field": hdr = b"8"
    if damage == "hdr-3fields": hdr = b"0 8 1"
    if damage == "hdr-word": hdr = b"0 x"
    if damage == "count-large": hdr = b"0 9"
    if damage == "count-huge": hdr = b"0 800"
    if damage == "entry-2fields": entries[3] = b"%010d n       " % offs[3] + eeol
    if damage == "entry-4fields": entries[3] = b"%08d 0 0 n  " % offs[3] + eeol
    if damage == "entry-1field": entries[3] = b"%018d" % offs[3] + eeol
    sx = {"sx-zero": b"0", "sx-header": b"5", "sx-beyond": b"%d" % (len(out) + 4000), "sx-midobj": b"%d" % (offs[3] + 3), "sx-neg": b"-7", "sx-word": b"abc", "sx-nonumber": None}.get(damage, b"%d" % xpos)
    out += kw + eol + hdr + eol + b"".join(entries) + b"trailer" + eol + ser({"Size": 8, "Root": R(1)}) + eol + b"startxref" + eol + (sx + eol if sx is not None else b"") + b"%%EOF" + eol
    return out, objs, content


def _fb_plain(x):
    from pdfminer.pdftypes import PDFObjRef
    from pdfminer.psparser import PSLiteral
    if isinstance(x, dict): return {k: _fb_plain(v) for k, v in x.items()}
    if isinstance(x, list): return [_fb_plain(v) for v in x]
    if isinstance(x, PDFObjRef): return ("ref", x.objid)
    if isinstance(x, PSLiteral): return ("name", x.name)
    return x


def _fb_expect(x):
    from lib.pdfgen import Ref as R
    if isinstance(x, dict): return {k: _fb_expect(v) for k, v in x.items()}
    if isinstance(x, list): return [_fb_expect(v) for v in x]
    if isinstance(x, R): return ("ref", x.n)
    if isinstance(x, str): return ("name", x)
    return x


def _fb_check(sel):
    import io
    from pdfminer.pdfparser import PDFParser
    from pdfminer.pdfdocument import PDFDocument
    from pdfminer.high_level import extract_text
    (eol, eeol), damage, caching = FB_EOLS[sel["eol"]], FB_DAMAGES[sel["damage"]], bool(sel["caching"])
    data, objs, content = fb_doc(eol, eeol, damage, bool(sel.get("sameline")), bool(sel.get("tight")))
    desc = "single-revision classic-table file (line ends %r%s), damage %s, caching=%s" % (eol, (", object bodies on the `obj` line" if sel.get("sameline") else "") + (", `endstream` directly after the data" if sel.get("tight") else ""), damage, caching)
    try:
        doc = PDFDocument(PDFParser(io.BytesIO(data)), caching=caching)
        for n in (1, 2, 3, 4, 6, 7):
            got = _fb_plain(doc.getobj(n))
            if got != _fb_expect(objs[n]):
                return "%s: object %d reads %r, the file defines %r" % (desc, n, got, _fb_expect(objs[n]))
        if doc.getobj(5).get_data().rstrip(b"\r\n") != content:          # the scan reads a stream up to `endstream`; the end-of-line before that keyword may stay attached
            return "%s: stream 5 reads %r" % (desc, doc.getobj(5).get_data())
        if _fb_plain(doc.catalog) != _fb_expect(objs[1]):
            return "%s: the catalog is %r" % (desc, doc.catalog)
        ids = sorted(set(i for x in doc.xrefs for i in x.get_objids()))
        if ids != [1, 2, 3, 4, 5, 6, 7]:
            return "%s: in-use object numbers reported %r, defined are 1..7" % (desc, ids)
        txt = extract_text(io.BytesIO(data), caching=caching)
        if txt.strip() != FB_TEXT:
            return "%s: extracted text %r, the undamaged file gives %r" % (desc, txt, FB_TEXT)
    except Exception as e:
        return "%s: raised %s: %s" % (desc, type(e).__name__, str(e)[:200])
    return None


def h7_fallback(timeout=200, part=None, **kw):
    """if the startxref offset or the cross-reference table of a single-revision classic-table file is unreadable, scanning the body still finds every object, the catalog and the same text"""
    import pdfminer.pdfdocument as pd

    def fn(ex):
        sel = {"eol": ex.choice(len(FB_EOLS), "eol"), "damage": ex.choice(len(FB_DAMAGES), "damage"), "caching": ex.choice(2, "caching"), "sameline": ex.choice(2, "sameline"), "tight": ex.choice(2, "tight")}
        r = _fb_check(sel)
        ex.require(r is None, r or "", fb=sel)

    def conc(m, info):
        return {"fb": info["fb"]}
    return core.run_symx("H7_fallback", fn, [pd.PDFDocument.__init__, pd.PDFXRef.load, pd.PDFXRefFallback.load, pd.PDFDocument.find_xref, pd.PDFDocument.read_xref_from],
                         {"damages": FB_DAMAGES, "line ends": [e[0].decode("latin-1").encode("unicode_escape").decode() for e in FB_EOLS], "caching": "on/off", "object body": "on its own line / on the `obj` line", "endstream": "after an end-of-line / directly after the data"},
                         timeout, concretize=conc, part=part)


def replay(harness, inp):
    if "fb" in inp:
        return _fb_check(inp["fb"])
    if harness == "H6_forms":
        spec = dict(inp["spec"])
        spec["eol"] = spec["eol"].encode()
        r = _check_history(spec, inp["caching"], inp["bufsiz"])
        return None if r is None else "document history %r (caching=%s, BUFSIZ=%d): %s" % (inp["spec"], inp["caching"], inp["bufsiz"], r)
    import pdfminer.pdfdocument as pd
    import pdfminer.pdfparser as pp
    if harness == "H1_xrefstream":
        x = pd.PDFXRefStream()
        x.ranges = [tuple(r) for r in inp["ranges"]]
        x.fl1, x.fl2, x.fl3 = inp["W"]
        x.entlen = sum(inp["W"])
        x.data = inp["data"]
        ents = {}
        k = 0
        ib = lambda b: int.from_bytes(b, "big")
        for s, c in x.ranges:
            for i in range(c):
                b = x.data[k * x.entlen:(k + 1) * x.entlen]
                t = ib(b[:x.fl1]) if x.fl1 else 1
                ents[s + i] = (t, ib(b[x.fl1:x.fl1 + x.fl2]), ib(b[x.fl1 + x.fl2:]) if x.fl3 else 0)
                k += 1
        oid = inp["objid"]
        try:
            got = x.get_pos(oid)
        except KeyError:
            got = None
        e = ents.get(oid)
        exp = None if (e is None or e[0] not in (1, 2)) else ((None, e[1], e[2]) if e[0] == 1 else (e[1], e[2], 0))
        if got != exp:
            return "xref stream Index %r W %r data %r: get_pos(%d) = %r, 7.5.8 decoding gives %r" % (x.ranges, inp["W"], x.data, oid, got, exp)
        ids = list(x.get_objids())
        expids = [n for s, c in x.ranges for n in range(s, s + c) if ents[n][0] in (1, 2)]
        return None if ids == expids else "xref stream Index %r W %r data %r: get_objids() = %r, in use are %r" % (x.ranges, inp["W"], x.data, ids, expids)
    if harness == "H2_lookup":
        from pdfminer.pdfexceptions import PDFObjectNotFound
        spec = [{int(k): tuple(v) for k, v in r.items()} for r in inp["spec"]]
        doc, log = make_doc(spec, inp["caching"])
        for oid in (1, 2, 3, 2):
            exp = expected_lookup(spec, oid)
            try:
                got = doc.getobj(oid)
            except PDFObjectNotFound:
                got = None
            except Exception as e:
                return "revisions (newest first) %r: getobj(%d) raised %r" % (spec, oid, e)
            if got != exp:
                return "revisions (newest first) %r, caching=%s: getobj(%d) = %r, the newest revision defining it gives %r" % (spec, inp["caching"], oid, got, exp)
        return None
    if harness == "H3_chain":
        return _replay_chain(inp)
    if harness == "H4_classic":
        class P(pp.PDFParser):
            BUFSIZ = inp["bufsiz"]
        p = P(io.BytesIO(b"%PDF-1.4\n" + inp["data"]))
        p.seek(9)
        p.nextline()
        x = pd.PDFXRef()
        try:
            x.load(p)
        except Exception as e:
            return "PDFXRef.load on %r (BUFSIZ %d) raised %r" % (inp["data"], inp["bufsiz"], e)
        exp = {oid: (None, off, gen) for oid, off, gen, use in ENTRIES if use == b"n"}
        return None if x.offsets == exp else "classic table %r (BUFSIZ %d) read as %r, written %r" % (inp["data"], inp["bufsiz"], x.offsets, exp)
    if harness == "H5_findxref":
        class P(pp.PDFParser):
            BUFSIZ = inp["bufsiz"]
        p = P(io.BytesIO(b"%PDF-1.4 filler filler\n" + inp["tail"]))
        try:
            got = pd.PDFDocument.__new__(pd.PDFDocument).find_xref(p)
        except Exception as e:
            return "find_xref on tail %r BUFSIZ %d raised %r" % (inp["tail"], inp["bufsiz"], e)
        return None if got == inp["off"] else "find_xref on tail %r BUFSIZ %d = %r" % (inp["tail"], inp["bufsiz"], got)
    raise KeyError(harness)


def _replay_chain(inp):
    import pdfminer.pdfdocument as pd
    from pdfminer.psparser import KWD
    secs = {int(k): tuple(v) for k, v in inp["secs"].items()}
    loaded = []

    class P:
        KEYWORD_XREF = KWD(b"xref")

        def seek(self, pos):
            self.pos = pos

        def reset(self):
            pass

        def nexttoken(self):
            return (self.pos, 7 if secs[self.pos][0] == 1 else self.KEYWORD_XREF)

        def nextline(self):
            return (self.pos, b"xref\n")

    class Stop(Exception):
        pass

    def load(self, p):
        loaded.append(p.pos)
        if len(loaded) > 40:
            raise Stop()
        _, prev, xs = secs[p.pos]
        self.trailer = {}
        if prev is not None:
            self.trailer["Prev"] = prev
        if xs is not None:
            self.trailer["XRefStm"] = xs
    o1, o2 = pd.PDFXRef.load, pd.PDFXRefStream.load
    pd.PDFXRef.load = pd.PDFXRefStream.load = load
    try:
        try:
            pd.PDFDocument.__new__(pd.PDFDocument).read_xref_from(P(), min(secs), [])
        except Stop:
            return "sections %r (offset: kind, Prev, XRefStm): read_xref_from keeps loading: %r..." % (secs, loaded[:12])
        except RecursionError:
            return "sections %r: RecursionError" % (secs,)
    finally:
        pd.PDFXRef.load, pd.PDFXRefStream.load = o1, o2
    exp = []

    def walk(o):
        if o is None or o in exp:
            return
        exp.append(o)
        walk(secs[o][2])
        walk(secs[o][1])
    walk(min(secs))
    return None if loaded == exp else "sections %r (offset: kind, Prev, XRefStm): loaded in order %r, expected %r" % (secs, loaded, exp)


def jobs(tier):
    J = [Job("H4_classic", "h4_classic", {}, 150), Job("H5_findxref", "h5_findxref", {}, 150), Job("H7_fallback", "h7_fallback", {}, 200)]
    if tier == "quick":
        for k in range(6):
            J.append(Job("H1_xrefstream:2:%d" % k, "h1_xrefstream", {"nranges": 2, "part": [k, 6, 9]}, 300, "H1_xrefstream"))
        for k in range(2):
            J.append(Job("H2_lookup:2:%d" % k, "h2_lookup", {"nrev": 2, "part": [k, 2, 7]}, 300, "H2_lookup"))
        for k in range(2):
            J.append(Job("H3_chain:3:%d" % k, "h3_chain", {"nsec": 3, "part": [k, 2, 7]}, 300, "H3_chain"))
        for k in range(4):
            J.append(Job("H6_forms:2:%d" % k, "h6_forms", {"nrev": 2, "part": [k, 4, 7]}, 300, "H6_forms"))
    else:
        for k in range(16):
            J.append(Job("H6_forms:3:%d" % k, "h6_forms", {"nrev": 3, "part": [k, 16, 10]}, 1800, "H6_forms"))
        for k in range(16):
            J.append(Job("H1_xrefstream:3:%d" % k, "h1_xrefstream", {"nranges": 3, "part": [k, 16, 11]}, 1800, "H1_xrefstream"))
        for k in range(8):
            J.append(Job("H2_lookup:3:%d" % k, "h2_lookup", {"nrev": 3, "part": [k, 8, 10]}, 1800, "H2_lookup"))
        for k in range(8):
            J.append(Job("H3_chain:4:%d" % k, "h3_chain", {"nsec": 4, "part": [k, 8, 10]}, 1800, "H3_chain"))
    return J
