"""C16 - painted paths become shapes with the right points, class and graphics state (ISO 32000-1 8.5).

The real path-construction, painting, graphics-state and colour operators of PDFPageInterpreter and the real
PDFLayoutAnalyzer.paint_path run on symbolic real operands; a reference model of 8.5 gives the expected shapes.
"""
import z3

from engine import symx
from engine.symx import SB, SV, SI
from harness import C05
from lib import core
from lib.core import Job

ASSUMPTIONS = [
    "floats are exact reals, |coordinate| <= 1000 (well below pdfminer's INF sentinel)",
    "a path starts with m or re (ISO 8.5.2); h occurs only as the last operator of a subpath; every subpath has at least one segment",
    "a degenerate quadrilateral whose last corner coincides with its first (e.g. 're' with zero height) may be reported as a curve",
    "the redundant-l rule: an l that returns to the start point directly before h may be dropped from the reported points (accepted either way)",
    "'m l h' may be reported as a line or as a curve (the property's 'one straight segment' is ambiguous for a closed two-point path)",
]
OUTSIDE = ["the obsolete F operator", "colour spaces with 2 or more than 4 components (the item colours are gray, RGB or CMYK values)", "ColorSpace resources named like a device family", "clipping (W, W*)", "shading", "sc/scn after a colour-space change (covered by C05.H6 only for totality)", "more construction operators than the bound"]

CONS = ["l", "c", "v", "y", "re", "m", "h"]
PAINT = {"S": (True, False, False, False), "s": (True, False, False, True), "f": (False, True, False, False), "f*": (False, True, True, False),
         "B": (True, True, False, False), "B*": (True, True, True, False), "b": (True, True, False, True), "b*": (True, True, True, True), "n": None}
PAINT_NAMES = list(PAINT)
I6 = (1, 0, 0, 1, 0, 0)
R = 1000


def _setup():
    import pdfminer.pdfinterp as pi
    import pdfminer.converter as cv
    from pdfminer.layout import LTPage
    rm = pi.PDFResourceManager()
    dev = cv.PDFPageAggregator(rm, laparams=None)
    dev.cur_item = LTPage(1, (0, 0, 1000, 1000))
    it = pi.PDFPageInterpreter(rm, dev)
    it.init_resources({})
    it.init_state(I6)
    return it, dev


def apt(m, p):
    return (m[0] * p[0] + m[2] * p[1] + m[4], m[1] * p[0] + m[3] * p[1] + m[5])


def zeq(a, b):
    return symx.zr(a) == symx.zr(b)


def pts_eq(A, B):
    return z3.And([z3.And(zeq(a[0], b[0]), zeq(a[1], b[1])) for a, b in zip(A, B)]) if A else z3.BoolVal(True)


class Model:
    """reference: graphics state + path accumulation per ISO 32000-1 8.4/8.5"""

    def __init__(s):
        s.ctm = I6
        s.lw = 0
        s.dash = None
        s.sc = None
        s.nc = None
        s.scs = 1           # number of components of the current stroking / non-stroking colour space (initially DeviceGray)
        s.ncs = 1
        s.stack = []
        s.sub = []          # list of subpaths: dict(ops=[(op, operands)], pts=[...], kind)
        s.shapes = []

    def state_op(s, o, a):
        if o == "q":
            s.stack.append((s.ctm, s.lw, s.dash, s.sc, s.nc, s.scs, s.ncs))
        elif o == "Q":
            if s.stack:
                (s.ctm, s.lw, s.dash, s.sc, s.nc, s.scs, s.ncs) = s.stack.pop()
        elif o == "cm":
            s.ctm = C05.mm(tuple(a), s.ctm)
        elif o == "w":
            s.lw = a[0]
        elif o == "d":
            s.dash = (a[0], a[1])
        elif o == "G":
            s.sc, s.scs = a[0], 1
        elif o == "g":
            s.nc, s.ncs = a[0], 1
        elif o == "RG":
            s.sc, s.scs = tuple(a[:3]), 3
        elif o == "rg":
            s.nc, s.ncs = tuple(a[:3]), 3
        elif o == "K":
            s.sc, s.scs = tuple(a[:4]), 4
        elif o == "k":
            s.nc, s.ncs = tuple(a[:4]), 4
        elif o == "CS":
            s.scs = CSN[a[0]]
        elif o == "cs":
            s.ncs = CSN[a[0]]
        elif o in ("SC", "SCN"):
            s.sc = a[0] if s.scs == 1 else tuple(a[:s.scs])
        elif o in ("sc", "scn"):
            s.nc = a[0] if s.ncs == 1 else tuple(a[:s.ncs])

    def cons(s, o, a):
        if o == "m":
            s.sub.append({"ops": [("m", [(a[0], a[1])])], "pts": [(a[0], a[1])]})
        elif o == "re":
            x, y, w, h = a[:4]
            c = [(x, y), (x + w, y), (x + w, y + h), (x, y + h)]
            s.sub.append({"ops": [("m", [c[0]]), ("l", [c[1]]), ("l", [c[2]]), ("l", [c[3]]), ("h", [])], "pts": c + [c[0]]})
        else:
            sp = s.sub[-1]
            if o == "l":
                sp["ops"].append(("l", [(a[0], a[1])]))
                sp["pts"].append((a[0], a[1]))
            elif o == "c":
                sp["ops"].append(("c", [(a[0], a[1]), (a[2], a[3]), (a[4], a[5])]))
                sp["pts"].append((a[4], a[5]))
            elif o in ("v", "y"):
                sp["ops"].append((o, [(a[0], a[1]), (a[2], a[3])]))
                sp["pts"].append((a[2], a[3]))
            elif o == "h":
                sp["ops"].append(("h", []))
                sp["pts"].append(sp["pts"][0])

    def paint(s, name):
        p = PAINT[name]
        if p is not None:
            stroke, fill, evenodd, close = p
            if close and s.sub:
                s.cons("h", [])
            for sp in s.sub:
                s.shapes.append({"ops": sp["ops"], "pts": [apt(s.ctm, q) for q in sp["pts"]], "ctm": s.ctm, "stroke": stroke, "fill": fill, "evenodd": evenodd,
                                 "lw": s.lw, "dash": s.dash, "sc": s.sc, "nc": s.nc})
        s.sub = []


CSN = {"DeviceGray": 1, "DeviceRGB": 3, "DeviceCMYK": 4}


def real_state(it, o, a):
    from pdfminer.psparser import LIT
    if o in ("cs", "CS"):
        getattr(it, "do_" + o)(LIT(a[0]))
    elif o in ("sc", "scn", "SC", "SCN"):
        for v in a:
            it.push(v)
        getattr(it, "do_" + o)()
    else:
        getattr(it, "do_" + o)(*a)


def real_cons(it, o, a):
    n = {"m": 2, "l": 2, "c": 6, "v": 4, "y": 4, "re": 4, "h": 0}[o]
    getattr(it, "do_" + o)(*a[:n])


def real_paint(it, name):
    getattr(it, "do_" + name.replace("*", "_a"))()


def col_eq(got, exp):
    if exp is None:
        return z3.BoolVal(got is None)
    if isinstance(exp, tuple):
        if not isinstance(got, tuple) or len(got) != len(exp):
            return z3.BoolVal(False)
        return z3.And([zeq(p, q) for p, q in zip(got, exp)])
    if isinstance(got, tuple) or got is None:
        return z3.BoolVal(False)
    return zeq(got, exp)


def check_shapes(ex, got, exp, info):
    from pdfminer.layout import LTLine, LTRect, LTCurve
    ex.require(len(got) == len(exp), "%d shapes reported, %d subpaths were painted" % (len(got), len(exp)), **info)
    for i, (g, e) in enumerate(zip(got, exp)):
        shape = "".join(o for o, _ in e["ops"])
        pts = e["pts"]
        ex.require(g.stroke == e["stroke"] and g.fill == e["fill"] and g.evenodd == e["evenodd"], "shape %d: stroke/fill/even-odd flags differ" % i, **info)
        ex.require(SB(z3.And(zeq(g.linewidth, e["lw"]), col_eq(g.stroking_color, e["sc"]), col_eq(g.non_stroking_color, e["nc"]))),
                   "shape %d: line width or colours differ from the graphics state at painting time" % i, **info)
        ed = e["dash"]
        gd = g.dashing_style
        ex.require((ed is None and gd is None) or (ed is not None and gd is not None and gd[0] is ed[0] and gd[1] is ed[1]), "shape %d: dash pattern differs" % i, **info)
        # original_path: every operand transformed
        op = g.original_path
        ex.require(op is not None and len(op) == len(e["ops"]) and all(a[0] == b[0] and len(a) - 1 == len(b[1]) for a, b in zip(op, e["ops"])), "shape %d: original_path has the wrong operators" % i, **info)
        conds = []
        for a, (o, operands) in zip(op, e["ops"]):
            for k, q in enumerate(operands):
                t = apt(e["ctm"], q)
                conds += [zeq(a[1 + k][0], t[0]), zeq(a[1 + k][1], t[1])] if isinstance(a[1 + k], tuple) else [z3.BoolVal(False)]
        ex.require(SB(z3.And(conds)) if conds else True, "shape %d: original_path operands are not the transformed operands" % i, **info)
        # classification and points
        closed5 = shape in ("mlllh", "mllll")
        if closed5:
            (x0, y0), (x1, y1), (x2, y2), (x3, y3), p4 = pts
            sq = z3.Or(z3.And(zeq(x0, x1), zeq(y1, y2), zeq(x2, x3), zeq(y3, y0)), z3.And(zeq(y0, y1), zeq(x1, x2), zeq(y2, y3), zeq(x3, x0)))
            isrect = z3.And(zeq(p4[0], x0), zeq(p4[1], y0), sq)
        else:
            isrect = z3.BoolVal(False)
        if isinstance(g, LTRect):
            ex.require(SB(isrect), "shape %d: reported as a rectangle but the subpath is not a closed axis-aligned quadrilateral" % i, **info)
            xs = [p[0] for p in pts[:4]]
            ys = [p[1] for p in pts[:4]]
            mnx, mxx, mny, mxy = xs[0], xs[0], ys[0], ys[0]
            for x in xs[1:]:
                mnx, mxx = symx.smin(mnx, x), symx.smax(mxx, x)
            for y in ys[1:]:
                mny, mxy = symx.smin(mny, y), symx.smax(mxy, y)
            ex.require(SB(z3.And(zeq(g.x0, mnx), zeq(g.y0, mny), zeq(g.x1, mxx), zeq(g.y1, mxy))), "shape %d: rectangle box is not the hull of its corners" % i, **info)
            continue
        dropc = z3.And(zeq(pts[-2][0], pts[0][0]), zeq(pts[-2][1], pts[0][1])) if (len(shape) > 3 and shape[-2:] == "lh") else z3.BoolVal(False)
        ex.require(SB(z3.Or(z3.Not(isrect), dropc)), "shape %d: a closed axis-aligned quadrilateral was not reported as a rectangle" % i, **info)
        if shape == "ml":
            ex.require(isinstance(g, LTLine), "shape %d: a single straight segment was not reported as a line" % i, **info)
        if isinstance(g, LTLine):
            # a line: one straight segment, possibly closed back onto its start ('m l h', or 'm l l h' whose second l returns to the start)
            if shape in ("ml", "mlh"):
                ok = z3.BoolVal(True)
            elif shape == "mllh":
                ok = dropc
            else:
                ok = z3.BoolVal(False)
            ex.require(SB(ok), "shape %d: reported as a line but has more than one segment" % i, **info)
            gp = list(g.pts)
            ex.require(len(gp) == 2 and SB(pts_eq(gp, pts[:2])), "shape %d: line end points are not the transformed end points" % i, **info)
            continue
        gp = list(g.pts)
        full = len(gp) == len(pts)
        dropped = len(gp) == len(pts) - 1 and len(shape) > 3 and shape[-2:] == "lh"
        ex.require(full or dropped, "shape %d: %d points reported for %d segment end points" % (i, len(gp), len(pts)), **info)
        if full:
            ex.require(SB(pts_eq(gp, pts)), "shape %d: points are not the transformed end points in order" % i, **info)
        else:
            ex.require(SB(z3.And(pts_eq(gp, pts[:-2] + pts[-1:]), dropc)), "shape %d: points are not the transformed end points in order (redundant closing l)" % i, **info)


def shapes_of(item):
    from pdfminer.layout import LTCurve, LTContainer
    out = []
    for o in item:
        if isinstance(o, LTCurve):
            out.append(o)
        elif isinstance(o, LTContainer):
            out.extend(shapes_of(o))
    return out


STATE_OPS = [("w", 1), ("G", 1), ("g", 1), ("RG", 3), ("rg", 3), ("K", 4), ("k", 4), ("cm", 6), ("d", 2),
             # a colour(-space) operator followed by sc/scn/SC/SCN with as many operands as that space has components
             ("k;sc", 4), ("rg;scn", 3), ("g;sc", 1), ("K;SC", 4), ("RG;SCN", 3), ("G;SCN", 1), ("cs:DeviceRGB;sc", 3), ("CS:DeviceCMYK;SC", 4), ("cs:DeviceGray;scn", 1)]


def h1_paths(K=2, first=0, paint=None, timeout=200, part=None, axis_ctm=False, nstate=1, **kw):
    """program: [q] state-op* cm ; (m|re) K construction ops ; paint ; [Q] ; m l S  (second path shows restored state / no residue)"""
    shims = C05._shims()
    import pdfminer.pdfinterp as pi
    import pdfminer.converter as cv

    def fn(ex):
        it, dev = _setup()
        md = Model()
        r = lambda n: ex.real(n, -R, R)
        prog = []
        useq = ex.choice(2, "useq")
        if useq:
            prog.append(("S", "q", []))
        # two state operators chosen symbolically, then a cm (general or axis-aligned)
        rc = lambda n: ex.real(n, -10, 10)
        for k in range(nstate):
            o, n = STATE_OPS[ex.choice(len(STATE_OPS), "st%d" % k)]
            if o == "d":
                prog.append(("S", o, [[1, 2], 0]))
            elif o == "cm":
                a = [rc("s%d_%d" % (k, i)) for i in range(6)] if not axis_ctm else [rc("s%d_0" % k), 0, 0, rc("s%d_3" % k), rc("s%d_4" % k), rc("s%d_5" % k)]
                prog.append(("S", o, a))
            elif ";" in o:
                o1, o2 = o.split(";")
                if ":" in o1:
                    prog.append(("S", o1.split(":")[0], [o1.split(":")[1]]))
                else:
                    prog.append(("S", o1, [r("s%d_%d" % (k, i)) for i in range(n)]))
                prog.append(("S", o2, [r("t%d_%d" % (k, i)) for i in range(n)]))
            else:
                prog.append(("S", o, [r("s%d_%d" % (k, i)) for i in range(n)]))
        start = ["m", "re"][first]
        prog.append(("C", start, [r("p0_%d" % i) for i in range(4)]))
        for k in range(K):
            o = CONS[ex.choice(len(CONS), "c%d" % k)]
            prog.append(("C", o, [r("p%d_%d" % (k + 1, i)) for i in range(6)]))
        # well-formedness assumptions on the construction part
        names = [p[1] for p in prog if p[0] == "C"]
        for i, o in enumerate(names):
            if o == "h" and i + 1 < len(names) and names[i + 1] not in ("m", "re"):
                raise symx.Abort()
            if o == "m" and (i + 1 == len(names) or names[i + 1] in ("m", "re")):
                raise symx.Abort()            # a subpath without any segment
            if o == "h" and names[i - 1] in ("h", "re"):
                raise symx.Abort()            # already closed
        pn = PAINT_NAMES[paint] if paint is not None else PAINT_NAMES[ex.choice(len(PAINT_NAMES), "paint")]
        if PAINT[pn] is not None and PAINT[pn][3] and names[-1] in ("h", "re"):
            raise symx.Abort()                # closing an already closed subpath
        prog.append(("P", pn, []))
        if useq:
            prog.append(("S", "Q", []))
            # after Q the colour spaces are those saved by q (DeviceGray): sc / SC take one operand again
            prog.append(("S", ["sc", "SC"][ex.choice(2, "postq")], [r("u0")]))
        prog += [("C", "m", [r("z0"), r("z1")]), ("C", "l", [r("z2"), r("z3")]), ("P", "S", [])]
        info = {"prog": [(k, o) for k, o, _ in prog], "args": [[x if isinstance(x, (str, list, int)) and not isinstance(x, (SV, SI)) else ("sym", str(x.e)) for x in a] for _, _, a in prog]}
        for kind, o, a in prog:
            try:
                if kind == "S":
                    real_state(it, o, a)
                    md.state_op(o, a)
                elif kind == "C":
                    real_cons(it, o, a)
                    md.cons(o, a)
                else:
                    real_paint(it, o)
                    md.paint(o)
            except symx.Violation:
                raise
            except Exception as e:
                ex.require(False, "operator %s raised %s: %s" % (o, type(e).__name__, e), **info)
        check_shapes(ex, shapes_of(dev.cur_item), md.shapes, info)

    def conc(m, info):
        return {"prog": info["prog"], "args": info["args"], "vals": {str(d): symx.mval(m, m[d]) for d in m.decls()}}
    P = pi.PDFPageInterpreter
    return core.run_symx("H1_paths", fn, [P.do_m, P.do_l, P.do_c, P.do_v, P.do_y, P.do_h, P.do_re, P.do_S, P.do_s, P.do_f, P.do_f_a, P.do_B, P.do_B_a, P.do_b, P.do_b_a, P.do_n,
                                          P.do_w, P.do_d, P.do_G, P.do_g, P.do_RG, P.do_rg, P.do_K, P.do_k, P.do_q, P.do_Q, P.do_cm, cv.PDFLayoutAnalyzer.paint_path],
                         {"state_operators": nstate, "program": "[q] state operators from %s ; %s + %d construction operators from %s ; paint operator %s ; [Q] ; m l S" % (
                             [o for o, _ in STATE_OPS], ["m", "re"][first], K, CONS, PAINT_NAMES[paint] if paint is not None else "any of %s" % PAINT_NAMES),
                          "operands": "symbolic reals, |v| <= %d (cm entries |v| <= 10)" % R, "cm": "axis-aligned" if axis_ctm else "general"},
                         timeout, concretize=conc, shims={"namespace_shims": shims}, part=part)


def _emit_state(ex, prog, tag, o, n, axis_ctm=True):
    r = lambda nm: ex.real(nm, -R, R)
    rc = lambda nm: ex.real(nm, -10, 10)
    if o == "d":
        prog.append(("S", o, [[1 + len(tag), 2], len(tag) - 1]))            # distinct patterns for distinct positions in the program
    elif o == "cm":
        a = [rc("%s_%d" % (tag, i)) for i in range(6)] if not axis_ctm else [rc("%s_0" % tag), 0, 0, rc("%s_3" % tag), rc("%s_4" % tag), rc("%s_5" % tag)]
        prog.append(("S", o, a))
    elif ";" in o:
        o1, o2 = o.split(";")
        if ":" in o1:
            prog.append(("S", o1.split(":")[0], [o1.split(":")[1]]))
        else:
            prog.append(("S", o1, [r("%s_%d" % (tag, i)) for i in range(n)]))
        prog.append(("S", o2, [r("%st_%d" % (tag, i)) for i in range(n)]))
    else:
        prog.append(("S", o, [r("%s_%d" % (tag, i)) for i in range(n)]))


def h3_saverestore(timeout=200, part=None, **kw):
    """X ; q ; Y ; m l S ; Q ; m l S  for every pair of state operators X, Y (symbolic choice, symbolic operands): the shape painted inside q..Q has the state after X and Y,
    the shape painted after Q has exactly the state after X (every component of the graphics state is saved and restored: CTM, line width, dash, colours, colour spaces)"""
    shims = C05._shims()
    import pdfminer.pdfinterp as pi

    def fn(ex):
        it, dev = _setup()
        md = Model()
        r = lambda n: ex.real(n, -R, R)
        prog = []
        x, nx = STATE_OPS[ex.choice(len(STATE_OPS), "X")]
        y, ny = STATE_OPS[ex.choice(len(STATE_OPS), "Y")]
        _emit_state(ex, prog, "x", x, nx)
        prog.append(("S", "q", []))
        _emit_state(ex, prog, "yy", y, ny)
        pre = Model()                          # the colour spaces in force after X are the ones Q has to bring back: a colour set after Q takes as many operands as THEY have
        for kind, o, a in prog:
            if kind == "S" and o == "q":
                break                              # only X counts: what follows q is undone by Q
            if kind == "S":
                pre.state_op(o, a)
        prog += [("C", "m", [r("a0"), r("a1")]), ("C", "l", [r("a2"), r("a3")]), ("P", "S", []), ("S", "Q", [])]
        prog += [("S", "sc", [r("n%d" % i) for i in range(pre.ncs)]), ("S", "SC", [r("s%d" % i) for i in range(pre.scs)])]
        prog += [("C", "m", [r("z0"), r("z1")]), ("C", "l", [r("z2"), r("z3")]), ("P", "S", [])]
        info = {"prog": [(k, o) for k, o, _ in prog], "args": [[v if isinstance(v, (str, list, int)) and not isinstance(v, (SV, SI)) else ("sym", str(v.e)) for v in a] for _, _, a in prog]}
        for kind, o, a in prog:
            try:
                if kind == "S":
                    real_state(it, o, a)
                    md.state_op(o, a)
                elif kind == "C":
                    real_cons(it, o, a + [0] * 6)
                    md.cons(o, a + [0] * 6)
                else:
                    real_paint(it, o)
                    md.paint(o)
            except symx.Violation:
                raise
            except Exception as e:
                ex.require(False, "operator %s raised %s: %s" % (o, type(e).__name__, e), **info)
        check_shapes(ex, shapes_of(dev.cur_item), md.shapes, info)

    def conc(m, info):
        return {"prog": info["prog"], "args": info["args"], "vals": {str(d): symx.mval(m, m[d]) for d in m.decls()}}
    P = pi.PDFPageInterpreter
    return core.run_symx("H3_saverestore", fn, [P.do_q, P.do_Q, pi.PDFGraphicState.copy, P.get_current_state, P.set_current_state, P.do_w, P.do_d, P.do_cm, P.do_g, P.do_G, P.do_rg, P.do_RG, P.do_k, P.do_K,
                                                P.do_cs, P.do_CS, P.do_sc, P.do_scn, P.do_SC, P.do_SCN],
                         {"program": "X ; q ; Y ; m l S ; Q ; sc SC ; m l S with X, Y from %s" % [o for o, _ in STATE_OPS], "operands": "symbolic reals (cm axis-aligned)"},
                         timeout, concretize=conc, shims={"namespace_shims": shims}, part=part)


def h5_afterclose(timeout=200, part=None, **kw):
    """m l [l] h (l){0..2} [m l] paint, all coordinates symbolic: segments that follow a closing h without a new m stay part of the subpath (its points continue from the start point),
    also when the path holds a second subpath and when the painting operator closes the path once more"""
    shims = C05._shims()
    import pdfminer.pdfinterp as pi
    import pdfminer.converter as cv

    def fn(ex):
        it, dev = _setup()
        md = Model()
        r = lambda n: ex.real(n, -R, R)
        nb = 1 + ex.choice(2, "before")
        na = ex.choice(3, "after")
        second = ex.choice(2, "second")
        where = ex.choice(2, "where") if second else 0            # the second subpath comes after or before the closed one
        paint = ["S", "s", "f", "B*", "b"][ex.choice(5, "paint")]
        closed = [("C", "m", [r("a0"), r("a1")])] + [("C", "l", [r("b%d0" % i), r("b%d1" % i)]) for i in range(nb)] + [("C", "h", [])] + [("C", "l", [r("d%d0" % i), r("d%d1" % i)]) for i in range(na)]
        other = [("C", "m", [r("e0"), r("e1")]), ("C", "l", [r("f0"), r("f1")])] if second else []
        prog = (other + closed if where else closed + other) + [("P", paint, [])]
        info = {"prog": [(k, o) for k, o, _ in prog], "args": [[("sym", str(v.e)) for v in a] for _, _, a in prog]}
        for kind, o, a in prog:
            try:
                if kind == "C":
                    real_cons(it, o, a + [0] * 6)
                    md.cons(o, a + [0] * 6)
                else:
                    real_paint(it, o)
                    md.paint(o)
            except symx.Violation:
                raise
            except Exception as e:
                ex.require(False, "operator %s raised %s: %s" % (o, type(e).__name__, e), **info)
        check_shapes(ex, shapes_of(dev.cur_item), md.shapes, info)

    def conc(m, info):
        return {"prog": info["prog"], "args": info["args"], "vals": {str(d): symx.mval(m, m[d]) for d in m.decls()}}
    return core.run_symx("H5_afterclose", fn, [cv.PDFLayoutAnalyzer.paint_path, pi.PDFPageInterpreter.do_h, pi.PDFPageInterpreter.do_l, pi.PDFPageInterpreter.do_s, pi.PDFPageInterpreter.do_b],
                         {"program": "m l [l] h (l){0..2} [m l] then S / s / f / B* / b; the second subpath before or after", "operands": "symbolic reals, identity CTM"},
                         timeout, concretize=conc, shims={"namespace_shims": shims}, part=part)


def h2_quads(timeout=200, part=None, **kw):
    """five-point subpaths (m l l l h / m l l l l / re) with ALL coordinates symbolic: the line / rectangle / curve classification"""
    shims = C05._shims()
    import pdfminer.converter as cv

    def fn(ex):
        it, dev = _setup()
        md = Model()
        r = lambda n: ex.real(n, -R, R)
        form = ex.choice(3, "form")
        axis = ex.choice(2, "axis_cm")
        prog = []
        if axis:
            prog.append(("S", "cm", [ex.real("s0_0", -10, 10), 0, 0, ex.real("s0_3", -10, 10), ex.real("s0_4", -10, 10), ex.real("s0_5", -10, 10)]))
        if form == 2:
            prog.append(("C", "re", [r("p0_%d" % i) for i in range(4)]))
        else:
            prog.append(("C", "m", [r("p0_0"), r("p0_1")]))
            for k in range(1, 4):
                prog.append(("C", "l", [r("p%d_0" % k), r("p%d_1" % k)]))
            prog.append(("C", "h", []) if form == 0 else ("C", "l", [r("p4_0"), r("p4_1")]))
        prog.append(("P", PAINT_NAMES[ex.choice(2, "paint") * 2], []))            # S or f
        info = {"prog": [(k, o) for k, o, _ in prog], "args": [[x if isinstance(x, (str, list, int)) and not isinstance(x, (SV, SI)) else ("sym", str(x.e)) for x in a] for _, _, a in prog]}
        for kind, o, a in prog:
            if kind == "S":
                real_state(it, o, a)
                md.state_op(o, a)
            elif kind == "C":
                real_cons(it, o, a + [0] * 6)
                md.cons(o, a + [0] * 6)
            else:
                real_paint(it, o)
                md.paint(o)
        check_shapes(ex, shapes_of(dev.cur_item), md.shapes, info)

    def conc(m, info):
        return {"prog": info["prog"], "args": info["args"], "vals": {str(d): symx.mval(m, m[d]) for d in m.decls()}}
    return core.run_symx("H2_quads", fn, [cv.PDFLayoutAnalyzer.paint_path], {"subpath": "m l l l h / m l l l l / re with all coordinates symbolic", "cm": "none or axis-aligned symbolic", "paint": "S or f"},
                         timeout, concretize=conc, shims={"namespace_shims": shims}, part=part)


# ------------------------------------------------------------------------------------------ H4 named colour spaces of the resource dictionary
RES_SPECS = ["icc1", "icc3", "icc4", "devn3", "devn1", "name:DeviceRGB", "array:DeviceCMYK", "array:Lab", "icc-bad"]
RES_DEF_NAMES = ["CS0", "CS1"]
RES_USE_NAMES = ["CS0", "CS1", "DeviceRGB", "DeviceCMYK", "Nope"]
RES_VALUES = [0.125, 0.25, 0.5, 0.75]


def _res_spec(kind):
    from pdfminer.psparser import LIT
    from pdfminer.pdftypes import PDFStream
    if kind.startswith("icc"):
        return [LIT("ICCBased"), PDFStream({"N": int(kind[3:])} if kind[3:].isdigit() else {}, b"")]
    if kind.startswith("devn"):         # colours of 2 or of more than 4 components have no representation in the layout items: outside the claim
        return [LIT("DeviceN"), [LIT(c) for c in "abc"[:int(kind[4:])]], LIT("DeviceRGB"), {}]
    if kind.startswith("name:"):
        return LIT(kind[5:])
    return [LIT(kind[6:])]


def _res_ncomp(kind):
    """components of the colour space a ColorSpace resource of this kind defines (ISO 32000-1 8.6); None: no usable definition"""
    return {"icc1": 1, "icc3": 3, "icc4": 4, "devn3": 3, "devn1": 1, "name:DeviceRGB": 3, "array:DeviceCMYK": 4, "array:Lab": 3, "icc-bad": None}[kind]


def _res_run(pages, same_interp):
    """pages: [(defined name or None, kind, used name, stroking?)]; the pages are interpreted one after the other in this process, as process_page does (init_resources, init_state,
    then the operators); returns per page (colour found on the painted line, colour the page's own resources imply)"""
    import pdfminer.pdfinterp as pi
    import pdfminer.pdfcolor as pc
    from pdfminer.psparser import LIT
    frame = {k: (v.name, v.ncomponents) for k, v in pc.PREDEFINED_COLORSPACE.items()}
    out = []
    it = dev = None
    for (dname, kind, uname, stroking) in pages:
        if it is None or not same_interp:
            it, dev = _setup()
        from pdfminer.layout import LTPage
        dev.cur_item = LTPage(1, (0, 0, 1000, 1000))
        res = {"ColorSpace": {dname: _res_spec(kind)}} if dname is not None else {}
        it.init_resources(res)
        it.init_state(I6)
        own = dict(CSN, CalRGB=3, CalGray=1, Lab=3, Separation=1, Indexed=1, Pattern=1)
        if dname is not None and _res_ncomp(kind) is not None:
            own[dname] = _res_ncomp(kind)
        n = own.get(uname, 1)                    # an undefined name selects nothing: the initial DeviceGray stays
        (it.do_CS if stroking else it.do_cs)(LIT(uname))
        for v in RES_VALUES[:n]:
            it.push(v)
        (it.do_SCN if stroking else it.do_scn)()
        it.do_m(0, 0); it.do_l(5, 5); it.do_S()
        sh = shapes_of(dev.cur_item)
        exp = RES_VALUES[0] if n == 1 else tuple(RES_VALUES[:n])
        got = None if len(sh) != 1 else (sh[0].stroking_color if stroking else sh[0].non_stroking_color)
        out.append((got, exp))
    now = {k: (v.name, v.ncomponents) for k, v in pc.PREDEFINED_COLORSPACE.items()}
    return out, (None if now == frame else "the process-wide table of predefined colour spaces changed: %r" % sorted(set(now.items()) ^ set(frame.items())))


def _res_pages(sel):
    return [(RES_DEF_NAMES[d - 1] if d else None, RES_SPECS[k], RES_USE_NAMES[u], bool(st)) for d, k, u, st in sel["pages"]]


def _res_check(sel):
    pages = _res_pages(sel)
    out, frame = _res_run(pages, sel["same"])
    for i, (got, exp) in enumerate(out):
        if got != exp:
            return "pages (resource name, definition, name used with %s, stroking) = %r interpreted in this order%s: page %d paints its line with the colour %r; its own resources give %r" % (
                "cs/CS", pages, " by one interpreter" if sel["same"] else "", i + 1, got, exp)
    return frame


RES_QUICK = [1, 2, 4, 5, 8]                # indices into RES_SPECS used by the quick tier


def h4_resources(npages=2, timeout=200, part=None, kinds=None, **kw):
    """every sequence of npages pages, each with no ColorSpace resource or one named colour space (ICCBased N=1/3/4 or without N, DeviceN, a device family by name or array, Lab),
    each selecting a colour space by name (its own, the other page's, a device family, an undefined name) and setting a colour with as many operands as that space has: the colour
    on the painted line is the one the page's OWN resources imply, whatever was interpreted before, and the predefined table is unchanged (real runs selected by symbolic choices)"""
    import pdfminer.pdfinterp as pi

    def fn(ex):
        sel = {"same": ex.choice(2, "same") == 1, "pages": []}
        for i in range(npages):
            d = ex.choice(1 + len(RES_DEF_NAMES), "def%d" % i)
            k = (kinds[ex.choice(len(kinds), "kind%d" % i)] if kinds else ex.choice(len(RES_SPECS), "kind%d" % i)) if d else 0
            sel["pages"].append((d, k, ex.choice(len(RES_USE_NAMES), "use%d" % i), ex.choice(2, "str%d" % i)))
        try:
            r = _res_check(sel)
        except Exception as e:
            ex.require(False, "interpreting the pages raised %s: %s" % (type(e).__name__, e), sel=sel)
        ex.require(r is None, r or "", sel=sel)

    def conc(m, info):
        return info
    P = pi.PDFPageInterpreter
    return core.run_symx("H4_resources", fn, [P.init_resources, P.init_state, P.do_cs, P.do_CS, P.do_scn, P.do_SCN],
                         {"pages": "every sequence of %d pages; ColorSpace resource: none or one of %s under the name %s; name used: %s; stroking / non-stroking; one interpreter or a fresh one per page" % (
                             npages, [RES_SPECS[k] for k in kinds] if kinds else RES_SPECS, RES_DEF_NAMES, RES_USE_NAMES)}, timeout, concretize=conc, part=part)


# ------------------------------------------------------------------------------------------ H6 the next page starts from the initial graphics state
PG_DIRTY = [b"", b"10 10 m 20 20 l ", b"10 10 m 20 20 l 30 5 l h ", b"q 2 0 0 2 3 3 cm q ", b"3 w [1 2] 0 d ", b"0.2 G 0.3 g ", b"/DeviceRGB cs /DeviceCMYK CS 0.1 0.2 0.3 sc ", b"1 2 3 4 5 6 7 8 ",
            b"1 1 5 5 re ", b"0 0 1 rg 1 0 0 RG 2 0 0 2 0 0 cm "]
PG_NEXT = [b"5 5 m 9 9 l S", b"1 1 5 5 re f", b"l 5 5 m 9 9 l 7 2 l h B*", b"Q 5 5 m 9 9 l S Q", b"0.5 0.6 0.7 sc 0.4 SC 5 5 m 9 9 l B", b"w d 5 5 m 9 9 l s", b"c re 5 5 m 9 9 l b"]


def _pg_run(first, second):
    import pdfminer.pdftypes as pt
    from pdfminer.layout import LTPage
    it, dev = _setup()
    if first is not None:
        it.render_contents({}, [pt.PDFStream({}, first)], ctm=I6)
        dev.cur_item = LTPage(2, (0, 0, 1000, 1000))
    it.render_contents({}, [pt.PDFStream({}, second)], ctm=I6)
    return [(type(o).__name__, [tuple(p) for p in o.pts], o.stroke, o.fill, o.evenodd, o.linewidth, o.dashing_style, o.stroking_color, o.non_stroking_color, [tuple(x) for x in o.original_path])
            for o in shapes_of(dev.cur_item)]


def _pg_check(sel):
    first, second = PG_DIRTY[sel["d1"]] + PG_DIRTY[sel["d2"]], PG_NEXT[sel["next"]]
    try:
        got, alone = _pg_run(first, second), _pg_run(None, second)
    except Exception as e:
        return "page %r after a page %r: raised %s: %s" % (second, first, type(e).__name__, e)
    if got != alone:
        return "page %r rendered after a page with the content %r yields the shapes %r, on a fresh interpreter %r" % (second, first, got, alone)
    return None


def h6_pages(timeout=200, part=None, **kw):
    """a page that leaves a path under construction, saved states, a changed CTM, line width, dash, colours, colour spaces or operands behind, followed by a second page on the SAME
    interpreter (as process_page does): the shapes of the second page are those a fresh interpreter yields (paths ended without painting leave no residue, the state starts afresh)"""
    import pdfminer.pdfinterp as pi

    def fn(ex):
        sel = {"d1": ex.choice(len(PG_DIRTY), "d1"), "d2": ex.choice(len(PG_DIRTY), "d2"), "next": ex.choice(len(PG_NEXT), "next")}
        r = _pg_check(sel)
        ex.require(r is None, r or "", sel=sel)

    def conc(m, info):
        return info
    P = pi.PDFPageInterpreter
    return core.run_symx("H6_pages", fn, [P.render_contents, P.init_state, P.init_resources, P.execute], {"first page": "two fragments from %d" % len(PG_DIRTY), "second page": "%d programs" % len(PG_NEXT)},
                         timeout, concretize=conc, part=part)


def replay(harness, inp):
    if harness == "H6_pages":
        return _pg_check(inp["sel"])
    if harness == "H4_resources":
        return _res_check(inp["sel"])
    from fractions import Fraction as F
    v = {k: F(x) for k, x in inp["vals"].items()}
    g = lambda n: v.get(n, F(0))
    it, dev = _setup()
    md = Model()
    for (kind, o), args in zip(inp["prog"], inp["args"]):
        a = [g(x[1]) if isinstance(x, list) and len(x) == 2 and x[0] == "sym" else x for x in args]
        if kind == "S":
            real_state(it, o, a)
            md.state_op(o, a)
        elif kind == "C":
            real_cons(it, o, a + [0] * 6)
            md.cons(o, a + [0] * 6)
        else:
            real_paint(it, o)
            md.paint(o)
    got = shapes_of(dev.cur_item)
    exp = md.shapes
    desc = "program %s with %r" % (" ".join(o for _, o in inp["prog"]), {k: float(x) for k, x in v.items()})
    if len(got) != len(exp):
        return "%s: %d shapes, %d subpaths painted" % (desc, len(got), len(exp))
    from pdfminer.layout import LTRect, LTLine
    for i, (s, e) in enumerate(zip(got, exp)):
        if (s.stroke, s.fill, s.evenodd) != (e["stroke"], e["fill"], e["evenodd"]):
            return "%s: shape %d flags %r expected %r" % (desc, i, (s.stroke, s.fill, s.evenodd), (e["stroke"], e["fill"], e["evenodd"]))
        if s.linewidth != e["lw"] or s.stroking_color != e["sc"] or s.non_stroking_color != e["nc"]:
            return "%s: shape %d linewidth/colours (%r,%r,%r) expected (%r,%r,%r)" % (desc, i, s.linewidth, s.stroking_color, s.non_stroking_color, e["lw"], e["sc"], e["nc"])
        if (s.dashing_style is None) != (e["dash"] is None):
            return "%s: shape %d dash %r expected %r" % (desc, i, s.dashing_style, e["dash"])
        shape = "".join(o for o, _ in e["ops"])
        pts = e["pts"]
        exp_path = [(o,) + tuple(apt(e["ctm"], q) for q in ops) for o, ops in e["ops"]]
        if [tuple(x) for x in s.original_path] != exp_path:
            return "%s: shape %d original_path %r expected %r" % (desc, i, s.original_path, exp_path)
        isrect = False
        if shape in ("mlllh", "mllll"):
            (x0, y0), (x1, y1), (x2, y2), (x3, y3), p4 = pts
            isrect = p4 == (x0, y0) and ((x0 == x1 and y1 == y2 and x2 == x3 and y3 == y0) or (y0 == y1 and x1 == x2 and y2 == y3 and x3 == x0))
        degenerate = len(shape) > 3 and shape[-2:] == "lh" and pts[-2] == pts[0]
        if isinstance(s, LTRect) != isrect and not (degenerate and not isinstance(s, LTRect)):
            return "%s: shape %d is %s, subpath %s closed axis-aligned quadrilateral" % (desc, i, type(s).__name__, "is a" if isrect else "is not a")
        if isinstance(s, LTRect):
            xs, ys = [p[0] for p in pts[:4]], [p[1] for p in pts[:4]]
            if tuple(s.bbox) != (min(xs), min(ys), max(xs), max(ys)):
                return "%s: rectangle %d bbox %r" % (desc, i, s.bbox)
            continue
        if shape == "ml" and not isinstance(s, LTLine):
            return "%s: shape %d single segment reported as %s" % (desc, i, type(s).__name__)
        gp = [tuple(p) for p in s.pts]
        if isinstance(s, LTLine):
            if not (shape in ("ml", "mlh") or (shape == "mllh" and pts[-2] == pts[0])):
                return "%s: shape %d with %d segments reported as a line" % (desc, i, len(pts) - 1)
            if gp != pts[:2]:
                return "%s: line %d end points %r, expected %r" % (desc, i, gp, pts[:2])
            continue
        ok = gp == pts or (len(shape) > 3 and shape[-2:] == "lh" and pts[-2] == pts[0] and gp == pts[:-2] + pts[-1:])
        if not ok:
            return "%s: shape %d points %r, transformed end points %r" % (desc, i, [tuple(map(float, p)) for p in gp], [tuple(map(float, p)) for p in pts])
    return None


def jobs(tier):
    J = [Job("H2_quads:%d" % k, "h2_quads", {"part": [k, 3, 6]}, 300, "H2_quads") for k in range(3)]
    J += [Job("H3_saverestore:%d" % k, "h3_saverestore", {"part": [k, 4, 8]}, 300, "H3_saverestore") for k in range(4)]
    J.append(Job("H6_pages", "h6_pages", {}, 200))
    J += [Job("H5_afterclose:%d" % k, "h5_afterclose", {"part": [k, 4, 5]}, 300, "H5_afterclose") for k in range(4)]
    J += [Job("H4_resources:%d" % k, "h4_resources", {"npages": 2, "kinds": RES_QUICK if tier == "quick" else None, "part": [k, 8, 6]}, 300 if tier == "quick" else 1800, "H4_resources") for k in range(8)]
    if tier == "quick":
        for k in range(10):
            J.append(Job("H1_paths:K2:m:axis:%d" % k, "h1_paths", {"K": 2, "first": 0, "axis_ctm": True, "part": [k, 10, 11]}, 300, "H1_paths"))
        for k in range(2):
            J.append(Job("H1_paths:K1:re:axis:%d" % k, "h1_paths", {"K": 1, "first": 1, "axis_ctm": True, "part": [k, 2, 8]}, 300, "H1_paths"))
        for k in range(2):
            J.append(Job("H1_paths:K1:m:general:%d" % k, "h1_paths", {"K": 1, "first": 0, "part": [k, 2, 8]}, 300, "H1_paths"))
        for k in range(2):
            J.append(Job("H1_paths:K1:re:general:%d" % k, "h1_paths", {"K": 1, "first": 1, "part": [k, 2, 8]}, 300, "H1_paths"))
    else:
        for first in (0, 1):
            for p in range(len(PAINT_NAMES)):
                J.append(Job("H1_paths:K3:%s:axis:%s" % (["m", "re"][first], PAINT_NAMES[p]), "h1_paths", {"K": 3, "first": first, "paint": p, "axis_ctm": True}, 1800, "H1_paths"))
            for k in range(8):
                J.append(Job("H1_paths:K2:%s:general:%d" % (["m", "re"][first], k), "h1_paths", {"K": 2, "first": first, "part": [k, 8, 10]}, 1800, "H1_paths"))
            for k in range(8):
                J.append(Job("H1_paths:K2:%s:axis:2state:%d" % (["m", "re"][first], k), "h1_paths", {"K": 2, "first": first, "axis_ctm": True, "nstate": 2, "part": [k, 8, 11]}, 1800, "H1_paths"))
    return J
