"""C05 - text model: each glyph gets the position, advance and state PDF assigns (ISO 32000-1 9.3-9.4).

The real PDFPageInterpreter.do_* methods, PDFTextDevice.render_string*, PDFLayoutAnalyzer.render_char and LTChar run on
symbolic real operands (the content-stream parser is bypassed: operands arrive as proxies); a reference interpreter of the PDF
text model over the same operands gives the expected glyph list; one z3 formula per glyph is asserted (never by branching).
H1 programs of K symbolically chosen operators   H2 spacing/scaling/rise with TJ adjustments   H4 form XObject   H5 stream splitting
H6 missing / ill-typed operands
"""
import io

import z3

from engine import symx
from engine.symx import SB, SV, SI
from harness import numshim
from lib import core
from lib.core import Job, fl

ASSUMPTIONS = [
    "floats are exact reals; horizontal writing mode; simple stub font with symbolic widths for three codes (65, 66, 32)",
    "Tz (horizontal scaling) is non-zero when a glyph is shown; matrices are arbitrary reals",
    "the initial fill colour is only compared after a colour operator has set it (pdfminer starts with None, ISO with black)",
    "min()/max() inside utils are modelled by if-then-else terms instead of forking (same meaning)",
]
OUTSIDE = ["vertical writing", "Type 3 glyph procedures", "text rendering modes", "programs longer than the stated number of operators"]

OPS = ["Td", "TD", "Tm", "T*", "'", '"', "Tj", "TJ", "TL", "Tc", "Tw", "Tz", "Ts", "BT", "ET", "q", "Q", "cm", "Tf", "g", "rg", "k"]
CODES = (65, 66, 32)
I6 = (1, 0, 0, 1, 0, 0)


def _shims():
    s = numshim.install("casting", "utils", "pdftypes", "pdfinterp", "pdfdevice", "layout", "converter", "pdffont")
    import pdfminer.utils as u

    def mn(*a):
        a = a[0] if len(a) == 1 else a
        r = None
        for x in a:
            r = x if r is None else (symx.smin(r, x) if isinstance(r, (SV, SI)) or isinstance(x, (SV, SI)) else min(r, x))
        return r

    def mx(*a):
        a = a[0] if len(a) == 1 else a
        r = None
        for x in a:
            r = x if r is None else (symx.smax(r, x) if isinstance(r, (SV, SI)) or isinstance(x, (SV, SI)) else max(r, x))
        return r
    u.min, u.max = mn, mx
    return s + ["utils.min/max -> if-then-else terms"]


def mm(m1, m0):
    (a1, b1, c1, d1, e1, f1) = m1
    (a0, b0, c0, d0, e0, f0) = m0
    return (a0 * a1 + c0 * b1, b0 * a1 + d0 * b1, a0 * c1 + c0 * d1, b0 * c1 + d0 * d1, a0 * e1 + c0 * f1 + e0, b0 * e1 + d0 * f1 + f0)


class Ref:
    """reference interpreter of the PDF text model, real arithmetic over proxies"""

    def __init__(s, ctm, W):
        s.ctm = ctm
        s.W = W
        s.tm = s.tlm = I6
        s.tc = s.tw = s.tl = s.ts = 0
        s.tz = 100
        s.fs = None
        s.font = False
        s.ncolor = "unset"
        s.stack = []
        s.out = []

    def glyphs(s, seq):
        if not s.font:
            return
        th = s.tz / 100
        for el in seq:
            if isinstance(el, bytes):
                for cid in el:
                    w0 = s.W[cid] / 1000
                    s.out.append({"text": chr(cid), "matrix": mm(s.tm, s.ctm), "adv": w0 * s.fs * th, "fs": s.fs, "rise": s.ts, "ncolor": s.ncolor})
                    tx = (w0 * s.fs + s.tc + (s.tw if cid == 32 else 0)) * th
                    s.tm = mm((1, 0, 0, 1, tx, 0), s.tm)
            else:
                tx = -(el / 1000) * s.fs * th
                s.tm = mm((1, 0, 0, 1, tx, 0), s.tm)

    def op(s, o, a):
        if o == "Td":
            s.tlm = mm((1, 0, 0, 1, a[0], a[1]), s.tlm)
            s.tm = s.tlm
        elif o == "TD":
            s.tl = -a[1]
            s.op("Td", a)
        elif o == "Tm":
            s.tm = s.tlm = tuple(a[:6])
        elif o == "T*":
            s.op("Td", (0, -s.tl))
        elif o == "'":
            s.op("T*", a)
            s.glyphs([b"A B"])
        elif o == '"':
            s.tw, s.tc = a[0], a[1]
            s.op("T*", a)
            s.glyphs([b"A B"])
        elif o == "Tj":
            s.glyphs([b"AB"])
        elif o == "TJ":
            s.glyphs([a[1], b"A", a[0], b" B"])
        elif o == "TL":
            s.tl = a[0]
        elif o == "Tc":
            s.tc = a[0]
        elif o == "Tw":
            s.tw = a[0]
        elif o == "Tz":
            s.tz = a[0]
        elif o == "Ts":
            s.ts = a[0]
        elif o == "BT":
            s.tm = s.tlm = I6
        elif o == "ET":
            pass
        elif o == "q":
            s.stack.append((s.ctm, s.tc, s.tw, s.tl, s.ts, s.tz, s.fs, s.font, s.tm, s.tlm, s.ncolor))
        elif o == "Q":
            if s.stack:
                (s.ctm, s.tc, s.tw, s.tl, s.ts, s.tz, s.fs, s.font, s.tm, s.tlm, s.ncolor) = s.stack.pop()
        elif o == "cm":
            s.ctm = mm(tuple(a[:6]), s.ctm)
        elif o == "Tf":
            s.fs = a[0]
            s.font = True
        elif o == "g":
            s.ncolor = a[0]
        elif o == "rg":
            s.ncolor = (a[0], a[1], a[2])
        elif o == "k":
            s.ncolor = (a[0], a[1], a[2], a[3])


def run_real(it, o, a):
    from pdfminer.psparser import LIT
    if o == "Td": it.do_Td(a[0], a[1])
    elif o == "TD": it.do_TD(a[0], a[1])
    elif o == "Tm": it.do_Tm(*a[:6])
    elif o == "T*": it.do_T_a()
    elif o == "'": it.do__q(b"A B")
    elif o == '"': it.do__w(a[0], a[1], b"A B")
    elif o == "Tj": it.do_Tj(b"AB")
    elif o == "TJ": it.do_TJ([a[1], b"A", a[0], b" B"])
    elif o == "TL": it.do_TL(a[0])
    elif o == "Tc": it.do_Tc(a[0])
    elif o == "Tw": it.do_Tw(a[0])
    elif o == "Tz": it.do_Tz(a[0])
    elif o == "Ts": it.do_Ts(a[0])
    elif o == "BT": it.do_BT()
    elif o == "ET": it.do_ET()
    elif o == "q": it.do_q()
    elif o == "Q": it.do_Q()
    elif o == "cm": it.do_cm(*a[:6])
    elif o == "Tf": it.do_Tf(LIT("F1"), a[0])
    elif o == "g": it.do_g(a[0])
    elif o == "rg": it.do_rg(a[0], a[1], a[2])
    elif o == "k": it.do_k(a[0], a[1], a[2], a[3])


NARGS = {"Td": 2, "TD": 2, "Tm": 6, "T*": 0, "'": 0, '"': 2, "Tj": 0, "TJ": 2, "TL": 1, "Tc": 1, "Tw": 1, "Tz": 1, "Ts": 1, "BT": 0, "ET": 0, "q": 0, "Q": 0,
         "cm": 6, "Tf": 1, "g": 1, "rg": 3, "k": 4}
DESCENT = -0.2


def make_font(W):
    from pdfminer.pdffont import PDFFont

    class StubFont(PDFFont):
        def __init__(self, widths):
            PDFFont.__init__(self, {"FontName": "Stub", "Descent": -200, "Ascent": 800, "FontBBox": [0, -200, 1000, 800]}, widths)

        def to_unichr(self, cid):
            return chr(cid)
    return StubFont(dict(W))


def setup(ctm, W):
    import pdfminer.pdfinterp as pi
    import pdfminer.converter as cv
    from pdfminer.layout import LTPage
    font = make_font(W)

    class RM(pi.PDFResourceManager):
        def get_font(self, objid, spec):
            return font
    rm = RM()
    dev = cv.PDFPageAggregator(rm, laparams=None)
    dev.cur_item = LTPage(1, (0, 0, 1000, 1000))
    it = pi.PDFPageInterpreter(rm, dev)
    it.init_resources({})
    it.fontmap = {"F1": font}
    it.init_state(ctm)
    return it, dev


def glyphs_of(item):
    from pdfminer.layout import LTChar, LTContainer
    out = []
    for o in item:
        if isinstance(o, LTChar):
            out.append(o)
        elif isinstance(o, LTContainer):
            out.extend(glyphs_of(o))
    return out


def zeq(a, b):
    return symx.zr(a) == symx.zr(b)


def compare(ex, got, exp, info):
    ex.require(len(got) == len(exp), "number of glyphs shown is %d, the text model gives %d" % (len(got), len(exp)), **info)
    for i, (c, e) in enumerate(zip(got, exp)):
        ex.require(c.get_text() == e["text"], "glyph %d text" % i, **info)
        conds = [zeq(x, y) for x, y in zip(c.matrix, e["matrix"]) if not symx.poly_equal(x, y)]
        if conds:
            ex.require(SB(z3.And(conds)), "glyph %d (%r): matrix differs from Tm x CTM of the text model" % (i, e["text"]), **info)
        if not symx.poly_equal(c.adv, e["adv"]):
            ex.require(SB(zeq(c.adv, e["adv"])), "glyph %d (%r): advance differs from w0 * Tfs * Th" % (i, e["text"]), **info)
        if not info.get("bbox", True):
            ex.reached_flag = True
        else:
            _bbox_check(ex, c, e, i, info)
        _rest_check(ex, c, e, i, info)


def _bbox_check(ex, c, e, i, info):
    if True:
        # bounding box = hull of the glyph rectangle (0, descent*fs + rise, adv, descent*fs + rise + fs) under the glyph matrix
        m = e["matrix"]
        y0 = DESCENT * e["fs"] + e["rise"]
        pts = [(m[0] * x + m[2] * y + m[4], m[1] * x + m[3] * y + m[5]) for x in (0, e["adv"]) for y in (y0, y0 + e["fs"])]
        mnx = mxx = pts[0][0]
        mny = mxy = pts[0][1]
        for px, py in pts[1:]:
            mnx, mxx, mny, mxy = symx.smin(mnx, px), symx.smax(mxx, px), symx.smin(mny, py), symx.smax(mxy, py)
        ex.require(SB(z3.And(zeq(c.x0, mnx), zeq(c.y0, mny), zeq(c.x1, mxx), zeq(c.y1, mxy))), "glyph %d (%r): bounding box differs (font size / rise / descent)" % (i, e["text"]), **info)


def _rest_check(ex, c, e, i, info):
    if True:
        ex.require(c.fontname == "Stub", "glyph %d font" % i, **info)
        if e["ncolor"] != "unset":
            gc = c.graphicstate.ncolor
            ec = e["ncolor"]
            if isinstance(ec, tuple):
                if not (isinstance(gc, tuple) and len(gc) == len(ec)):
                    ex.require(False, "glyph %d (%r): fill colour has the wrong kind" % (i, e["text"]), **info)
                ex.require(SB(z3.And([zeq(p, q) for p, q in zip(gc, ec)])), "glyph %d (%r): fill colour differs" % (i, e["text"]), **info)
            else:
                if isinstance(gc, tuple) or gc is None:
                    ex.require(False, "glyph %d (%r): fill colour has the wrong kind" % (i, e["text"]), **info)
                ex.require(SB(zeq(gc, ec)), "glyph %d (%r): fill colour differs" % (i, e["text"]), **info)


def _widths(ex):
    return {c: ex.real("w%d" % c, 0, 2000) for c in CODES}


def _conc_common(m, info):
    out = {"prog": info.get("prog"), "bbox": info.get("bbox", True), "vals": {str(d): symx.mval(m, m[d]) for d in m.decls()}}
    return out


# -------------------------------------------------------------------------------------------- H1 programs
def h1_programs(K=2, first=None, second=None, timeout=200, part=None, one_matrix=False, **kw):
    shims = _shims()
    import pdfminer.pdfinterp as pi
    import pdfminer.pdfdevice as pd
    import pdfminer.converter as cv
    import pdfminer.layout as lt

    def fn(ex):
        W = _widths(ex)
        it, dev = setup(I6, W)
        ref = Ref(I6, W)
        fs = ex.real("fs", -100, 100)
        prog = [("BT", []), ("Tf", [fs])]
        for k in range(K):
            if k == 0 and first is not None:
                o = OPS[first]
            elif k == 1 and second is not None:
                o = OPS[second]
            else:
                o = OPS[ex.choice(len(OPS), "op%d" % k)]
            a = [ex.real("a%d_%d" % (k, i), -100, 100) for i in range(NARGS[o])]
            if o == "Tz":
                ex.assume(a[0] != 0)                  # stated here, before any operator ran: later the solver context holds products and the consistency check gets expensive
            prog.append((o, a))
        if one_matrix and sum(1 for p in prog if p[0] in ("Tm", "cm")) > 1:
            raise symx.Abort()                        # programs with two symbolic matrices: thorough tier only (quartic terms)
        prog.append(("Tj", []))                       # a final probe glyph pair makes every state change observable
        info = {"prog": [p[0] for p in prog], "bbox": not any(p[0] in ("Tm", "cm") for p in prog)}
        for o, a in prog:
            try:
                run_real(it, o, a)
            except symx.Violation:
                raise
            except Exception as e:
                ex.require(False, "operator %s raised %s: %s" % (o, type(e).__name__, e), **info)
            ref.op(o, a)
        compare(ex, glyphs_of(dev.cur_item), ref.out, info)

    fns = [pi.PDFPageInterpreter.do_Td, pi.PDFPageInterpreter.do_TD, pi.PDFPageInterpreter.do_Tm, pi.PDFPageInterpreter.do_T_a, pi.PDFPageInterpreter.do__q,
           pi.PDFPageInterpreter.do__w, pi.PDFPageInterpreter.do_TJ, pi.PDFPageInterpreter.do_Tj, pi.PDFPageInterpreter.do_TL, pi.PDFPageInterpreter.do_Tc,
           pi.PDFPageInterpreter.do_Tw, pi.PDFPageInterpreter.do_Tz, pi.PDFPageInterpreter.do_Ts, pi.PDFPageInterpreter.do_BT, pi.PDFPageInterpreter.do_q,
           pi.PDFPageInterpreter.do_Q, pi.PDFPageInterpreter.do_cm, pi.PDFPageInterpreter.do_Tf, pi.PDFPageInterpreter.do_g, pi.PDFPageInterpreter.do_rg,
           pi.PDFPageInterpreter.do_k, pd.PDFTextDevice.render_string, pd.PDFTextDevice.render_string_horizontal, cv.PDFLayoutAnalyzer.render_char, lt.LTChar.__init__]
    return core.run_symx("H1_programs", fn, fns,
                         {"program": "BT, Tf, then %d operators chosen symbolically from %s, then Tj" % (K, " ".join(OPS)), "operands": "all symbolic reals in [-100,100]",
                          "widths": "symbolic in [0,2000] for codes 65,66,32", "first": OPS[first] if first is not None else "any",
                          "second": OPS[second] if second is not None else "any", "at_most_one_of_Tm_cm": one_matrix},
                         timeout, concretize=_conc_common, shims={"namespace_shims": shims}, part=part)


# -------------------------------------------------------------------------------------------- H9 every text-state parameter is saved by q and restored by Q
SR_OPS = ["Tc", "Tw", "Tz", "TL", "Ts", "Tf", "Td", "g", "T*"]


def h9_saverestore(timeout=200, part=None, **kw):
    """BT Tf ; X ; q ; Y ; TJ ; Q ; T* ; TJ for every pair X, Y of text-state operators with symbolic operands: the glyphs shown inside q..Q carry the state after X and Y, those shown after Q
    exactly the state after X (character / word spacing, horizontal scaling, leading, rise, font size, fill colour)"""
    shims = _shims()
    import pdfminer.pdfinterp as pi

    def fn(ex):
        W = _widths(ex)
        it, dev = setup(I6, W)
        ref = Ref(I6, W)
        fs = ex.real("fs", -100, 100)
        prog = [("BT", []), ("Tf", [fs])]
        for k, tag in enumerate("xy"):
            o = SR_OPS[ex.choice(len(SR_OPS), "op" + tag)]
            a = [ex.real("a%d_%d" % (k, i), -100, 100) for i in range(NARGS[o])]
            if o == "Tz":
                ex.assume(a[0] != 0)
            prog.append((o, a))
            if k == 0:
                prog.append(("q", []))
        prog += [("TJ", [ex.real("j0", -100, 100), ex.real("j1", -100, 100)]), ("Q", []), ("T*", []), ("TJ", [ex.real("j2", -100, 100), ex.real("j3", -100, 100)])]
        info = {"prog": [p[0] for p in prog], "bbox": True}
        for o, a in prog:
            try:
                run_real(it, o, a)
            except symx.Violation:
                raise
            except Exception as e:
                ex.require(False, "operator %s raised %s: %s" % (o, type(e).__name__, e), **info)
            ref.op(o, a)
        compare(ex, glyphs_of(dev.cur_item), ref.out, info)

    P = pi.PDFPageInterpreter
    return core.run_symx("H9_saverestore", fn, [P.do_q, P.do_Q, pi.PDFTextState.copy, P.get_current_state, P.set_current_state, P.do_Tc, P.do_Tw, P.do_Tz, P.do_TL, P.do_Ts, P.do_Tf, P.do_TJ],
                         {"program": "BT Tf ; X ; q ; Y ; TJ ; Q ; T* ; TJ with X, Y from %s" % " ".join(SR_OPS), "operands": "all symbolic reals in [-100,100]", "widths": "symbolic in [0,2000] for codes 65,66,32"},
                         timeout, concretize=_conc_common, shims={"namespace_shims": shims}, part=part)


# -------------------------------------------------------------------------------------------- H2 spacing
def h2_spacing(timeout=100, **kw):
    shims = _shims()
    import pdfminer.pdfdevice as pd

    def fn(ex):
        W = _widths(ex)
        ctm = (2, 0, 0, 3, ex.real("c4", -10, 10), ex.real("c5", -10, 10))
        it, dev = setup(ctm, W)
        ref = Ref(ctm, W)
        r = lambda n: ex.real(n, -100, 100)
        prog = [("BT", []), ("Tf", [r("fs")]), ("Tc", [r("tc")]), ("Tw", [r("tw")]), ("Tz", [r("tz")]), ("Ts", [r("ts")]), ("TL", [r("tl")]),
                ("Tm", [r("m%d" % i) for i in range(6)]), ("TJ", [r("j0"), r("j1")]), ("'", []), ("Tj", []), ('"', [r("aw"), r("ac")]), ("TJ", [r("j2"), r("j3")])]
        ex.assume(prog[4][1][0] != 0)
        info = {"prog": [p[0] for p in prog], "bbox": False}
        for o, a in prog:
            run_real(it, o, a)
            ref.op(o, a)
        compare(ex, glyphs_of(dev.cur_item), ref.out, info)
    return core.run_symx("H2_spacing", fn, [pd.PDFTextDevice.render_string_horizontal],
                         {"program": "BT Tf Tc Tw Tz Ts TL Tm TJ ' Tj \" TJ with all operands, the CTM translation (scale 2x3) and the widths symbolic"}, timeout,
                         concretize=_conc_common, shims={"namespace_shims": shims})


# -------------------------------------------------------------------------------------------- H4 form XObject
def h4_form(timeout=150, **kw):
    shims = _shims()
    import pdfminer.pdfinterp as pi
    import pdfminer.pdftypes as pt
    from pdfminer.psparser import LIT
    inner = b"q 2 0 0 2 3 4 cm BT /F1 7 Tf 3 Tc 11 TL 5 6 Td (A) Tj 0.25 g ET Q BT /F1 5 Tf (B) Tj ET 9 Tc 1 0 0 1 1 1 cm"

    def fn(ex):
        W = _widths(ex)
        ctm = tuple(ex.real("c%d" % i, -10, 10) for i in range(6))
        fm = tuple(ex.real("f%d" % i, -10, 10) for i in range(6))
        it, dev = setup(ctm, W)
        has_matrix = ex.choice(2, "has_matrix")
        attrs = {"Subtype": LIT("Form"), "BBox": [0, 0, 100, 100], "Resources": {"Font": {"F1": {}}}}
        if has_matrix:
            attrs["Matrix"] = list(fm)
        own_res = ex.choice(2, "own_resources")
        if not own_res:
            del attrs["Resources"]
            it.resources = {"Font": {"F1": {}}}
        it.xobjmap = {"Fm": pt.PDFStream(attrs, inner)}
        ref = Ref(ctm, W)
        r = lambda n: ex.real(n, -100, 100)
        pre = [("BT", []), ("Tf", [r("fs")]), ("Tc", [r("tc")]), ("TL", [r("tl")]), ("g", [r("gray")]), ("Td", [r("x"), r("y")]), ("Tj", [])]
        for o, a in pre:
            run_real(it, o, a)
            ref.op(o, a)
        try:
            it.do_Do(LIT("Fm"))
        except symx.Violation:
            raise
        except Exception as e:
            ex.require(False, "Do raised %s: %s" % (type(e).__name__, e))
        # the form's own glyphs, by the text model under Matrix x CTM
        fref = Ref(mm(fm, ctm) if has_matrix else ctm, W)
        for o, a in [("q", []), ("cm", [2, 0, 0, 2, 3, 4]), ("BT", []), ("Tf", [7]), ("Tc", [3]), ("TL", [11]), ("Td", [5, 6])]:
            fref.op(o, a)
        fref.glyphs([b"A"])
        fref.op("g", [0.25])
        fref.op("Q", [])
        fref.op("BT", [])
        fref.op("Tf", [5])
        fref.glyphs([b"B"])
        for g in fref.out:
            g["ncolor"] = "unset"
        ref.out.extend(fref.out)
        post = [("T*", []), ("Tj", [])]
        for o, a in post:
            run_real(it, o, a)
            ref.op(o, a)
        compare(ex, glyphs_of(dev.cur_item), ref.out, {"prog": ["pre", "Do", "post"], "has_matrix": has_matrix, "bbox": False})
    return core.run_symx("H4_form", fn, [pi.PDFPageInterpreter.do_Do, pi.PDFPageInterpreter.render_contents, pi.PDFPageInterpreter.init_state, pi.PDFPageInterpreter.dup],
                         {"caller": "BT Tf Tc TL g Td Tj /Fm Do T* Tj, symbolic operands and CTM", "form": "fixed program changing CTM, font, Tc, TL, colour; symbolic Matrix (or none); own or inherited Resources"},
                         timeout, concretize=_conc_common, shims={"namespace_shims": shims})


# -------------------------------------------------------------------------------------------- H5 splitting, H6 ill-typed operands (concrete content)
PROGRAM = b"q 1 0 0 1 10 20 cm BT /F1 12 Tf 14 TL 2 Tc 1 Tw 50 700 Td (A B) Tj T* [(A) -120 (B)] TJ 0 -5 TD (B) ' 1 2 (A) \" ET Q 0.5 g BT /F1 9 Tf 1 0 0 1 5 5 Tm (AB) Tj ET"


def _run_content(streams):
    import pdfminer.pdftypes as pt
    W = {65: 500, 66: 600, 32: 250}
    it, dev = setup(I6, W)
    it.resources = {}
    it.execute([pt.PDFStream({}, s) for s in streams])
    return [(c.get_text(), tuple(c.matrix), c.adv, tuple(c.bbox), c.graphicstate.ncolor) for c in glyphs_of(dev.cur_item)]


def h5_split(timeout=100, **kw):
    import pdfminer.pdfinterp as pi
    whole = _run_content([PROGRAM])
    spaces = [i for i, b in enumerate(PROGRAM) if b == 32 and PROGRAM[:i].count(b"(") == PROGRAM[:i].count(b")")]

    def fn(ex):
        i = spaces[ex.choice(len(spaces), "split1")]
        j = spaces[ex.choice(len(spaces), "split2")]
        if j <= i:
            parts = [PROGRAM[:i], PROGRAM[i:]]
        else:
            parts = [PROGRAM[:i], PROGRAM[i:j], PROGRAM[j:]]
        got = _run_content(parts)
        ex.require(got == whole, "glyphs differ when the content is split into streams at %r" % ([len(p) for p in parts],), parts=[len(p) for p in parts])

    def conc(m, info):
        return {"parts": info["parts"]}
    return core.run_symx("H5_split", fn, [pi.PDFContentParser.fillfp, pi.PDFContentParser.fillbuf, pi.PDFPageInterpreter.execute],
                         {"program": PROGRAM.decode(), "split": "into 2 or 3 streams at every pair of white-space positions outside strings"}, timeout, concretize=conc)


H6_PRE = b"BT /F1 12 Tf 14 TL 2 Tc 50 700 Td 0.3 g "
H6_POST = b" ET Q BT /F1 12 Tf 1 0 0 1 50 700 Tm 14 TL 2 Tc 0 Tw 100 Tz 0 Ts 0 Tr 0.3 g (AB) Tj T* (B) Tj ET"
BAD_OPERANDS = [b"", b"/N", b"(s)", b"[1 2]", b"<< /A 1 >>", b"true", b"null"]
OPS6 = {"Td": 2, "TD": 2, "Tm": 6, "Tc": 1, "Tw": 1, "Tz": 1, "TL": 1, "Ts": 1, "Tf": 2, "Tj": 1, "TJ": 1, "'": 1, '"': 3, "cm": 6, "g": 1, "rg": 3, "k": 4, "sc": 1, "scn": 1, "Tr": 1}


def h6_illtyped(timeout=150, **kw):
    import pdfminer.pdfinterp as pi
    pre, post = H6_PRE, H6_POST
    base = _run_content([b"q " + pre + post])[-3:]
    names = sorted(OPS6)

    def fn(ex):
        op = names[ex.choice(len(names), "op")]
        n = OPS6[op]
        bad_at = ex.choice(n + 1, "bad_at")           # which operand is ill-typed / from which on they are missing (n: all missing)
        kind = ex.choice(len(BAD_OPERANDS), "kind")
        if bad_at == n:
            operands = []
        else:
            good = [b"/F1" if (op == "Tf" and k == 0) else b"(A)" if (op in ("Tj", "'") or (op == '"' and k == 2)) else b"[(A)]" if op == "TJ" else b"1" for k in range(n)]
            bad = BAD_OPERANDS[kind]
            if bad == good[bad_at] or (bad == b"(s)" and good[bad_at] == b"(A)") or (bad == b"[1 2]" and op == "TJ") or (bad == b"/N" and op in ("Tf", "scn", "sc")):
                raise symx.Abort()
            if bad == b"":
                operands = good[:bad_at]               # too few operands
            else:
                operands = good[:bad_at] + [bad] + good[bad_at + 1:]
        content = b"q " + pre + b" ".join(operands) + b" " + op.encode() + post
        try:
            got = _run_content([content])
        except symx.Violation:
            raise
        except Exception as e:
            ex.require(False, "content %r raised %s: %s" % (content, type(e).__name__, e), content=content)
        ex.require(got[-3:] == base, "an operator with missing/ill-typed operands affects text shown after the whole state was set again: %r" % content, content=content)

    def conc(m, info):
        return {"content": info["content"]}
    return core.run_symx("H6_illtyped", fn, [pi.PDFPageInterpreter.execute, pi.PDFPageInterpreter.pop],
                         {"operators": names, "fault": "one operand replaced by a name/string/array/dict/bool/null, or operands missing from a position on"},
                         timeout, concretize=conc)


H6_NUMERIC = {k: v for k, v in OPS6.items() if k not in ("Tf", "Tj", "TJ", "'", '"', "sc", "scn")}      # operators whose operands are all numbers


def h6_missing2(timeout=200, part=None, **kw):
    """two consecutive operators that each have too few operands (every pair of operators, every short operand count), then a glyph - with no state reset in between: the glyph is
    exactly the one of the program without the two operators (an under-supplied operator is skipped and takes the operands it found with it)"""
    import pdfminer.pdfinterp as pi
    pre = H6_PRE
    probe = b" (AB) Tj ET"
    base = _run_content([pre + probe])
    names = sorted(H6_NUMERIC)

    def fn(ex):
        ops = []
        for i in (1, 2):
            op = names[ex.choice(len(names), "op%d" % i)]
            k = ex.choice(H6_NUMERIC[op], "k%d" % i)               # 0 .. n-1 operands present
            ops.append(b" ".join([b"%d" % (3 + 2 * i + j) for j in range(k)] + [op.encode()]))
        content = pre + b" ".join(ops) + probe
        try:
            got = _run_content([content])
        except symx.Violation:
            raise
        except Exception as e:
            ex.require(False, "content %r raised %s: %s" % (content, type(e).__name__, e), content=content)
        ex.require(got == base, "operators with too few operands change the glyphs shown after them: %r" % content, content=content)

    def conc(m, info):
        return {"content": info["content"], "missing2": True}
    return core.run_symx("H6_illtyped", fn, [pi.PDFPageInterpreter.execute, pi.PDFPageInterpreter.pop],
                         {"operators": names, "fault": "two consecutive operators, each with 0..n-1 of its n operands; the glyph follows without any reset"}, timeout, concretize=conc, part=part)


# -------------------------------------------------------------------------------------------- H7 colour operators
COL_OPS = [("g", 1), ("rg", 3), ("k", 4), ("G", 1), ("RG", 3), ("K", 4), ("cs:DeviceGray", 0), ("cs:DeviceRGB", 0), ("cs:DeviceCMYK", 0), ("CS:DeviceRGB", 0), ("CS:DeviceCMYK", 0),
           ("sc", 4), ("scn", 4), ("SC", 4), ("SCN", 4), ("q", 0), ("Q", 0)]


def h7_colour(K=3, timeout=200, part=None, **kw):
    """every program of K colour / save / restore operators (symbolic choice, symbolic operands), then a glyph: its fill and stroke colour are what ISO 32000-1 8.6.8 assigns
    (sc/scn/SC/SCN take as many operands as the current colour space of *that* kind has components)"""
    shims = _shims()
    import pdfminer.pdfinterp as pi
    from harness import C16

    def fn(ex):
        W = {c: 500 for c in CODES}
        it, dev = setup(I6, W)
        md = C16.Model()
        prog = []
        run_real(it, "BT", [])
        run_real(it, "Tf", [10])
        for k in range(K):
            o, n = COL_OPS[ex.choice(len(COL_OPS), "op%d" % k)]
            name, _, arg = o.partition(":")
            if name in ("sc", "scn", "SC", "SCN"):
                n = md.ncs if name in ("sc", "scn") else md.scs            # a well-formed program supplies the components of the current space
            a = [arg] if arg else [ex.real("a%d_%d" % (k, i), 0, 1) for i in range(n)]
            prog.append((name, a))
            info = {"prog": [(nm, [x if isinstance(x, str) else "sym" for x in aa]) for nm, aa in prog], "args": [list(aa) for _, aa in prog]}
            try:
                C16.real_state(it, name, a)
            except symx.Violation:
                raise
            except Exception as e:
                ex.require(False, "operator %s raised %s: %s" % (name, type(e).__name__, e), **info)
            md.state_op(name, a)
        run_real(it, "Tj", [])
        gl = glyphs_of(dev.cur_item)
        ex.require(len(gl) >= 1, "no glyph reported", **info)
        g = gl[0]
        ex.require(SB(z3.And(C16.col_eq(g.graphicstate.ncolor, md.nc), C16.col_eq(g.graphicstate.scolor, md.sc))),
                   "fill / stroke colour of the glyph differs: got %r / %r" % (g.graphicstate.ncolor, g.graphicstate.scolor), **info)
        ex.require(not it.argstack, "operands left on the stack: %r" % (it.argstack,), **info)

    def conc(m, info):
        g = lambda x: x if isinstance(x, str) else symx.mval(m, x)
        return {"prog": [[nm, [g(x) for x in aa]] for (nm, _), aa in zip(info["prog"], info["args"])]}
    P = pi.PDFPageInterpreter
    return core.run_symx("H7_colour", fn, [P.do_g, P.do_rg, P.do_k, P.do_G, P.do_RG, P.do_K, P.do_cs, P.do_CS, P.do_sc, P.do_scn, P.do_SC, P.do_SCN, P.do_q, P.do_Q],
                         {"program": "BT, Tf, %d operators from %s, Tj" % (K, " ".join(o for o, _ in COL_OPS)), "operands": "symbolic reals in [0,1]"}, timeout, concretize=conc,
                         shims={"namespace_shims": shims}, part=part)


# -------------------------------------------------------------------------------------------- H8 the next page starts from the initial state
DIRTY = [b"", b"q q 2 0 0 2 5 5 cm ", b"BT /F1 7 Tf 3 Tc 4 Tw 50 Tz 9 TL 2 Ts 1 Tr 10 10 Td (A) Tj ", b"0.2 0.3 0.4 rg 0.1 G ", b"1 2 3 ", b"10 10 m 20 20 l ", b"/DeviceRGB cs 3 w [1 2] 0 d ",
         b"BT /F1 5 Tf 2 0 0 2 30 40 Tm (B) Tj ET q ", b"(s) [1] /N ", b"1 0 0 1 7 7 cm BT 5 5 Td ", b"1 0 0 1 7 7 cm 0.5 g q 3 Tc q ", b"30 40 50 60 70 80 /F1 "]
NEXT_PAGES = [PROGRAM, b"BT /F1 9 Tf (AB) Tj T* (B) ' ET", b"(x) 1 BT /F1 9 Tf [(A) 100 (B)] TJ ET",
              # an unmatched Q and operators without operands: on a fresh interpreter they do nothing
              b"Q BT /F1 9 Tf (AB) Tj ET Q", b"BT /F1 9 Tf Td Tc Tz (A) Tj cm TL T* (B) Tj ET", b"rg BT Tf /F1 9 Tf (A) Tj ET"]


def _pages_run(first, second):
    """glyphs of a page whose content is `second`, interpreted by an interpreter that has just rendered a page with the content `first` (None: a fresh interpreter)"""
    import pdfminer.pdftypes as pt
    from pdfminer.layout import LTPage
    it, dev = setup(I6, {65: 500, 66: 600, 32: 250})
    res = {"Font": {"F1": {}}}
    if first is not None:
        it.render_contents(res, [pt.PDFStream({}, first)], ctm=I6)
        dev.cur_item = LTPage(2, (0, 0, 1000, 1000))
    it.render_contents(res, [pt.PDFStream({}, second)], ctm=I6)
    return [(c.get_text(), tuple(c.matrix), c.adv, tuple(c.bbox), c.graphicstate.ncolor, c.graphicstate.scolor) for c in glyphs_of(dev.cur_item)]


def _pages_check(sel):
    first = DIRTY[sel["d1"]] + DIRTY[sel["d2"]]
    second = NEXT_PAGES[sel["next"]]
    try:
        got, alone = _pages_run(first, second), _pages_run(None, second)
    except Exception as e:
        return "page %r after a page %r: raised %s: %s" % (second, first, type(e).__name__, e)
    if got != alone:
        k = [i for i in range(max(len(got), len(alone))) if i >= len(got) or i >= len(alone) or got[i] != alone[i]][0]
        return "page %r rendered after a page with the content %r: glyph %d is %r, on a fresh interpreter %r (%d vs %d glyphs)" % (
            second, first, k, got[k] if k < len(got) else None, alone[k] if k < len(alone) else None, len(got), len(alone))
    return None


def h8_pages(timeout=200, part=None, **kw):
    """every pair of state-dirtying fragments (unbalanced q, open text object with every text-state operator set, colours, operands left on the stack, a path under construction, a changed
    CTM) as the content of one page, followed by a second page on the SAME interpreter (as process_page does): the second page's glyphs are those of a fresh interpreter"""
    import pdfminer.pdfinterp as pi

    def fn(ex):
        sel = {"d1": ex.choice(len(DIRTY), "d1"), "d2": ex.choice(len(DIRTY), "d2"), "next": ex.choice(len(NEXT_PAGES), "next")}
        r = _pages_check(sel)
        ex.require(r is None, r or "", sel=sel)

    def conc(m, info):
        return info
    P = pi.PDFPageInterpreter
    return core.run_symx("H8_pages", fn, [P.render_contents, P.init_state, P.init_resources, pi.PDFTextState.reset, P.execute],
                         {"first page": "two fragments from %d state-dirtying ones" % len(DIRTY), "second page": "%d programs relying on the initial state" % len(NEXT_PAGES)}, timeout, concretize=conc, part=part)


def h10_resources(timeout=100, **kw):
    """the font of each glyph is the one its resource name designates: a Font resource dictionary of three fonts, each inline or indirect, in every order, caching on/off (C06.H5, run here as well)"""
    from harness import C06
    r = C06.h5_resources(timeout=timeout)
    r["harness"] = "H10_resources"
    return r


def replay(harness, inp):
    if harness == "H10_resources":
        from harness import C06
        return C06.replay("H5_resources", inp)
    if harness == "H8_pages":
        return _pages_check(inp["sel"])
    if harness in ("H5_split",):
        whole = _run_content([PROGRAM])
        parts, k = [], 0
        for n in inp["parts"]:
            parts.append(PROGRAM[k:k + n])
            k += n
        got = _run_content(parts)
        return None if got == whole else "content split into %r: glyphs %r, unsplit %r" % (parts, got, whole)
    if harness == "H7_colour":
        from harness import C16
        from lib.core import fl
        it, dev = setup(I6, {c: 500 for c in CODES})
        md = C16.Model()
        run_real(it, "BT", [])
        run_real(it, "Tf", [10])
        prog = [(nm, [x if isinstance(x, str) else fl(x) for x in a]) for nm, a in inp["prog"]]
        for nm, a in prog:
            try:
                C16.real_state(it, nm, a)
            except Exception as e:
                return "program %r: operator %s raised %r" % (prog, nm, e)
            md.state_op(nm, a)
        run_real(it, "Tj", [])
        g = glyphs_of(dev.cur_item)[0]
        norm = lambda c: c            # a colour never set is reported as None (the initial black is not materialised by pdfminer: not part of the claim)
        if g.graphicstate.ncolor != norm(md.nc) or g.graphicstate.scolor != norm(md.sc):
            return "program %r: glyph fill / stroke colour %r / %r, ISO 32000-1 gives %r / %r" % (prog, g.graphicstate.ncolor, g.graphicstate.scolor, norm(md.nc), norm(md.sc))
        if it.argstack:
            return "program %r leaves operands on the stack: %r" % (prog, it.argstack)
        return None
    if harness == "H6_illtyped" and inp.get("missing2"):
        base = _run_content([H6_PRE + b" (AB) Tj ET"])
        try:
            got = _run_content([inp["content"]])
        except Exception as e:
            return "content stream %r raised %r" % (inp["content"], e)
        return None if got == base else "content stream %r: glyphs %r, without the two under-supplied operators %r" % (inp["content"], got, base)
    if harness == "H6_illtyped":
        base = _run_content([b"q " + H6_PRE + H6_POST])[-3:]
        try:
            got = _run_content([inp["content"]])[-3:]
        except Exception as e:
            return "content stream %r raised %r" % (inp["content"], e)
        return None if got == base else "content stream %r: later glyphs %r, without the faulty operator %r" % (inp["content"], got, base)
    # symbolic harnesses: re-run the same program with the model's values as exact Fractions (no proxies involved)
    from fractions import Fraction as F
    import pdfminer.pdftypes as pt
    from pdfminer.psparser import LIT
    # operands as floats: the real code tests isinstance(x, (int, float)) on TJ adjustments, which Fractions would fail
    v = {k: float(F(x)) if not isinstance(x, bool) else x for k, x in inp["vals"].items()}
    g = lambda n, d=0: v.get(n, float(d))
    W = {c: g("w%d" % c) for c in CODES}

    def run(prog, ctm=I6, it_dev=None):
        it, dev = it_dev or setup(ctm, W)
        ref = Ref(ctm, W)
        for o, a in prog:
            run_real(it, o, a)
            ref.op(o, a)
        return it, dev, ref

    def near(a, b):
        # the real code multiplies by float literals (0.01, 0.001), so the replay is in floating point: compare with a tolerance
        return all(abs(float(x) - float(y)) <= 1e-7 * max(1.0, abs(float(x)), abs(float(y))) for x, y in zip(a, b))

    def diff(dev, ref):
        got = glyphs_of(dev.cur_item)
        if len(got) != len(ref.out):
            return "%d glyphs shown, the text model gives %d" % (len(got), len(ref.out))
        for i, (c, e) in enumerate(zip(got, ref.out)):
            if not near(c.matrix, e["matrix"]):
                return "glyph %d %r: matrix %r, text model %r" % (i, e["text"], tuple(map(float, c.matrix)), tuple(map(float, e["matrix"])))
            if not near([c.adv], [e["adv"]]):
                return "glyph %d %r: adv %r, text model %r" % (i, e["text"], float(c.adv), float(e["adv"]))
            m = e["matrix"]
            y0 = -0.2 * e["fs"] + e["rise"]
            pts = [(m[0] * x + m[2] * y + m[4], m[1] * x + m[3] * y + m[5]) for x in (0, e["adv"]) for y in (y0, y0 + e["fs"])]
            bb = (min(p[0] for p in pts), min(p[1] for p in pts), max(p[0] for p in pts), max(p[1] for p in pts))
            if inp.get("bbox", True) and not near(c.bbox, bb):
                return "glyph %d %r: bbox %r, text model %r" % (i, e["text"], tuple(map(float, c.bbox)), tuple(map(float, bb)))
            gcol, ecol = c.graphicstate.ncolor, e["ncolor"]
            if ecol != "unset" and not (isinstance(gcol, tuple) == isinstance(ecol, tuple) and gcol is not None and near(gcol if isinstance(gcol, tuple) else [gcol], ecol if isinstance(ecol, tuple) else [ecol])):
                return "glyph %d %r: fill colour %r, text model %r" % (i, e["text"], c.graphicstate.ncolor, e["ncolor"])
        return None
    if harness == "H9_saverestore":
        names = inp["prog"]
        prog = [("BT", []), ("Tf", [g("fs")]), (names[2], [g("a0_%d" % i) for i in range(NARGS[names[2]])]), ("q", []), (names[4], [g("a1_%d" % i) for i in range(NARGS[names[4]])]),
                ("TJ", [g("j0"), g("j1")]), ("Q", []), ("T*", []), ("TJ", [g("j2"), g("j3")])]
        try:
            it, dev, ref = run(prog)
        except Exception as e:
            return "program %r raised %r" % (names, e)
        d = diff(dev, ref)
        return None if d is None else "program %s with operands %r: %s" % (" ".join(names), {k: float(x) for k, x in v.items() if not isinstance(x, bool)}, d)
    if harness == "H1_programs":
        prog = []
        names = inp["prog"]
        k = -2
        for o in names:
            if o == "BT" and k == -2:
                prog.append((o, []))
            elif k == -1:
                prog.append(("Tf", [g("fs")]))
            elif k >= 0 and len(prog) < len(names) - 1:
                prog.append((o, [g("a%d_%d" % (k, i)) for i in range(NARGS[o])]))
            else:
                prog.append((o, []))
            k += 1
        try:
            it, dev, ref = run(prog)
        except Exception as e:
            return "program %r raised %r" % (names, e)
        d = diff(dev, ref)
        return None if d is None else "program %s with operands %r: %s" % (" ".join(names), {k: float(x) for k, x in v.items() if not isinstance(x, bool)}, d)
    if harness == "H2_spacing":
        ctm = (2, 0, 0, 3, g("c4"), g("c5"))
        prog = [("BT", []), ("Tf", [g("fs")]), ("Tc", [g("tc")]), ("Tw", [g("tw")]), ("Tz", [g("tz", 100)]), ("Ts", [g("ts")]), ("TL", [g("tl")]),
                ("Tm", [g("m%d" % i) for i in range(6)]), ("TJ", [g("j0"), g("j1")]), ("'", []), ("Tj", []), ('"', [g("aw"), g("ac")]), ("TJ", [g("j2"), g("j3")])]
        it, dev, ref = run(prog, ctm)
        d = diff(dev, ref)
        return None if d is None else "spacing program with %r: %s" % ({k: float(x) for k, x in v.items()}, d)
    if harness == "H4_form":
        return _replay_form(inp, v, g, W, diff)
    raise KeyError(harness)


def _replay_form(inp, v, g, W, diff):
    import pdfminer.pdftypes as pt
    from pdfminer.psparser import LIT
    inner = b"q 2 0 0 2 3 4 cm BT /F1 7 Tf 3 Tc 11 TL 5 6 Td (A) Tj 0.25 g ET Q BT /F1 5 Tf (B) Tj ET 9 Tc 1 0 0 1 1 1 cm"
    ctm = tuple(g("c%d" % i) for i in range(6))
    fm = tuple(g("f%d" % i) for i in range(6))
    has_matrix = bool(v.get("has_matrix", 0))
    it, dev = setup(ctm, W)
    attrs = {"Subtype": LIT("Form"), "BBox": [0, 0, 100, 100], "Resources": {"Font": {"F1": {}}}}
    if has_matrix:
        attrs["Matrix"] = list(fm)
    if not v.get("own_resources", 0):
        del attrs["Resources"]
        it.resources = {"Font": {"F1": {}}}
    it.xobjmap = {"Fm": pt.PDFStream(attrs, inner)}
    ref = Ref(ctm, W)
    pre = [("BT", []), ("Tf", [g("fs")]), ("Tc", [g("tc")]), ("TL", [g("tl")]), ("g", [g("gray")]), ("Td", [g("x"), g("y")]), ("Tj", [])]
    for o, a in pre:
        run_real(it, o, a)
        ref.op(o, a)
    it.do_Do(LIT("Fm"))
    fref = Ref(mm(fm, ctm) if has_matrix else ctm, W)
    for o, a in [("q", []), ("cm", [2, 0, 0, 2, 3, 4]), ("BT", []), ("Tf", [7]), ("Tc", [3]), ("TL", [11]), ("Td", [5, 6])]:
        fref.op(o, a)
    fref.glyphs([b"A"])
    fref.op("Q", [])
    fref.op("BT", [])
    fref.op("Tf", [5])
    fref.glyphs([b"B"])
    for gl in fref.out:
        gl["ncolor"] = "unset"
    ref.out.extend(fref.out)
    for o, a in [("T*", []), ("Tj", [])]:
        run_real(it, o, a)
        ref.op(o, a)
    d = diff(dev, ref)
    return None if d is None else "caller BT Tf Tc TL g Td Tj /Fm Do T* Tj, form Matrix %r (present=%s), CTM %r: %s" % (tuple(map(float, fm)), has_matrix, tuple(map(float, ctm)), d)


def jobs(tier):
    J = [Job("H7_colour:%d" % k, "h7_colour", {"K": 3, "part": [k, 4, 6]}, 300, "H7_colour") for k in range(4)]
    J += [Job("H6_missing2:%d" % k, "h6_missing2", {"part": [k, 2, 5]}, 300, "H6_illtyped") for k in range(2)]
    J += [Job("H2_spacing", "h2_spacing", {}, 150), Job("H4_form", "h4_form", {}, 200), Job("H5_split", "h5_split", {}, 100), Job("H8_pages", "h8_pages", {}, 200), Job("H10_resources", "h10_resources", {}, 100), Job("H9_saverestore:0", "h9_saverestore", {"part": [0, 3, 5]}, 300, "H9_saverestore"), Job("H9_saverestore:1", "h9_saverestore", {"part": [1, 3, 5]}, 300, "H9_saverestore"), Job("H9_saverestore:2", "h9_saverestore", {"part": [2, 3, 5]}, 300, "H9_saverestore"), Job("H6_illtyped", "h6_illtyped", {}, 200)]
    if tier == "quick":
        for f in range(len(OPS)):
            J.append(Job("H1_programs:K2:%s" % OPS[f], "h1_programs", {"K": 2, "first": f}, 200, "H1_programs"))
        for f in range(len(OPS)):
            J.append(Job("H1_programs:K3:%s" % OPS[f], "h1_programs", {"K": 3, "first": f, "one_matrix": True}, 300, "H1_programs"))
    else:
        for f in range(len(OPS)):
            for s2 in range(len(OPS)):
                J.append(Job("H1_programs:K3:%s:%s" % (OPS[f], OPS[s2]), "h1_programs", {"K": 3, "first": f, "second": s2}, 600, "H1_programs"))
    return J
