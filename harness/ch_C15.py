"""CrossHair contracts for C15 (analysed by `crosshair check`, one process per function).

The real CMapDB._load_data and ImageWriter._create_unique_image_name run on a symbolic `str`; the filesystem is a stub namespace
that records every path probed or opened and answers `exists` symbolically.
"""
import posixpath
import types
from typing import List

import pdfminer.cmapdb as cmapdb
import pdfminer.image as image
from pdfminer.cmapdb import CMapDB

CMAPDIR = posixpath.join(posixpath.dirname(cmapdb.__file__), "cmap")
ENVDIR = "/usr/share/pdfminer/"
OUTDIR = "out/dir"
ALPHA = "/." + chr(0) + chr(92) + "aH:~"          # path separators, dot, NUL, backslash, ordinary letters, drive colon, tilde


class PathStub:
    """os.path over a recording stub file system without symbolic links: the pure functions are posixpath's, exists / isfile / lexists answer from the stub,
    realpath / abspath are normpath relative to /cwd (any other attribute is an AttributeError of the harness, not of the code under test)"""
    sep, altsep, pardir, curdir, extsep = "/", None, "..", ".", "."
    PURE = ("join", "dirname", "basename", "normpath", "split", "splitext", "isabs", "commonpath", "commonprefix", "normcase", "splitdrive", "expanduser")

    def __init__(self, exists):
        self.exists = self.lexists = self.isfile = exists

    def realpath(self, p, **kw):
        return posixpath.normpath(posixpath.join("/cwd", p))
    abspath = realpath

    def relpath(self, p, start="."):
        return posixpath.relpath(self.realpath(p), self.realpath(start))

    def isdir(self, p):
        return False

    def __getattr__(self, name):
        if name in PathStub.PURE:
            return getattr(posixpath, name)
        raise AttributeError(name)


def _inside(path: str, directory: str) -> bool:
    q = posixpath.normpath(path)
    return "\0" not in path and posixpath.dirname(q) == posixpath.normpath(directory) and posixpath.basename(q) not in ("", ".", "..")


def cmap_confined_sibling(name: str, exists_in_env: bool, exists_in_pkg: bool) -> bool:
    """
    pre: len(name) <= 7
    post: _
    """
    return _cmap_confined(name, exists_in_env, exists_in_pkg, "/e/a/")


ALPHA_SIBLING = "./a"        # with CMAP_PATH=/e/a/ these letters spell sibling directories such as ../aa/a (a prefix test without the trailing separator lets them through)


def cmap_confined(name: str, exists_in_env: bool, exists_in_pkg: bool) -> bool:
    """
    pre: len(name) <= 5
    post: _
    """
    return _cmap_confined(name, exists_in_env, exists_in_pkg, ENVDIR)


def cmap_confined_unset(name: str, exists_in_env: bool, exists_in_pkg: bool) -> bool:
    """
    pre: len(name) <= 5
    post: _
    """
    return _cmap_confined(name, exists_in_env, exists_in_pkg, None)


def _cmap_confined(name, exists_in_env, exists_in_pkg, ENVDIR):          # not a contract function: the directory is fixed by the wrappers above
    """ENVDIR None: CMAP_PATH is not set - the directories searched are then whatever the library searches for the harmless name 'x', and they must be absolute
    (a relative one would be the process's working directory)"""
    probed: List[str] = []
    opened: List[str] = []

    def fake_exists(p):
        probed.append(p)
        return exists_in_pkg if p.startswith(CMAPDIR) else exists_in_env

    class FakeGz:
        def __init__(self, p):
            opened.append(p)

        def read(self):
            raise OSError("stub")

        def close(self):
            pass
    real_os, real_gzip = cmapdb.os, cmapdb.gzip
    cmapdb.os = types.SimpleNamespace(
        environ={"CMAP_PATH": ENVDIR} if ENVDIR is not None else {},
        path=PathStub(fake_exists), sep="/", altsep=None, pardir="..", curdir=".")
    cmapdb.gzip = types.SimpleNamespace(open=FakeGz)
    allowed = [ENVDIR, CMAPDIR]
    try:
        if ENVDIR is None:
            try:
                CMapDB._load_data("x")
            except (CMapDB.CMapNotFound, OSError):
                pass
            allowed = [posixpath.dirname(p) for p in probed + opened]
            if not allowed or not all(posixpath.isabs(d) for d in allowed):
                return False                  # a relative search directory: the working directory of the process
            del probed[:], opened[:]
        try:
            CMapDB._load_data(name)
        except CMapDB.CMapNotFound:
            pass
        except OSError:
            pass
    finally:
        cmapdb.os, cmapdb.gzip = real_os, real_gzip
    for p in probed + opened:
        if not any(_inside(p, d) for d in allowed):
            return False
    return True


class _Img:
    def __init__(self, name: str):
        self.name = name


def image_name_confined(name: str, taken: int, ext_i: int) -> bool:
    """
    pre: len(name) <= 5 and 0 <= taken <= 2 and 0 <= ext_i <= 1
    post: _
    """
    ext = [".bmp", ".8.1x1.img"][ext_i]
    probes: List[str] = []

    def fake_exists(p):
        probes.append(p)
        return len(probes) <= taken           # the first `taken` candidates already exist
    real_os = image.os
    image.os = types.SimpleNamespace(path=PathStub(fake_exists), sep="/", altsep=None, pardir="..", curdir=".", makedirs=lambda *a, **k: None)
    try:
        w = image.ImageWriter.__new__(image.ImageWriter)
        w.outdir = OUTDIR
        fname, path = w._create_unique_image_name(_Img(name), ext)
    finally:
        image.os = real_os
    if not _inside(path, OUTDIR):
        return False                          # the file would be created outside the output directory
    if path in probes[:taken]:
        return False                          # an existing file would be overwritten
    if posixpath.normpath(posixpath.join(OUTDIR, fname)) != posixpath.normpath(path):
        return False
    return len(probes) == taken + 1 and probes[-1] == path
