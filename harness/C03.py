"""C03 - stream payloads and filter chains decode to exactly the original bytes.

Oracles are reference *encoders* written from the PNG / TIFF / PDF specifications; the real decoders run on the encoders'
symbolic output and must give back the symbolic input.
H1 PNG predictors   H2 TIFF predictor 2   H3 RunLength   H4 LZW (bit reader + decoder)   H5 ASCIIHex / ASCII85 framing
H6 filter pipeline of PDFStream.decode (decoders stubbed)   H7 payload delimitation by the real PDFParser
"""
import z3

from engine import symx, sbytes
from engine.symx import SB, SI
from engine.sbytes import SBy, SByI
from lib import core
from lib.core import Job

ASSUMPTIONS = [
    "Flate (zlib), DCT, JBIG2, JPX are C libraries or pass-through: outside the claim",
    "H6: the five decoders are replaced by tagging stubs (what is checked is the order, the parameters and the predictor placement)",
    "H5: binascii.unhexlify / base64.a85decode are replaced by reference implementations (framing, white space and EOD handling are what is checked)",
]
OUTSIDE = ["data longer than the stated number of symbolic bytes", "filter chains longer than 3", "predictor geometries with 2/4/16 bits per component (rejected explicitly by pdfminer)"]


def _utils():
    import pdfminer.utils as u
    u.int = symx.sym_int
    u.range = symx.sym_range
    u.bytes = sbytes.BytesT
    return u


def zpaeth(a, b, c):
    p = a + b - c
    ab = lambda x: z3.If(x >= 0, x, -x)
    pa, pb, pc_ = ab(p - a), ab(p - b), ab(p - c)
    return z3.If(z3.And(pa <= pb, pa <= pc_), a, z3.If(pb <= pc_, b, c))


def png_encode(rows, fts, bpp):
    """reference PNG filter (PNG spec 6.2-6.6); rows: list of lists of z3 Int terms; fts: concrete filter types"""
    out = []
    prev = [z3.IntVal(0)] * len(rows[0])
    for row, ft in zip(rows, fts):
        out.append(z3.IntVal(ft))
        for j, x in enumerate(row):
            a = row[j - bpp] if j >= bpp else z3.IntVal(0)
            b = prev[j]
            c = prev[j - bpp] if j >= bpp else z3.IntVal(0)
            pred = [z3.IntVal(0), a, b, (a + b) / 2, zpaeth(a, b, c)][ft]
            out.append((x - pred) % 256)
        prev = row
    return out


# ------------------------------------------------------------------------------- H1 PNG
def h1_png(colors=1, columns=2, bpc=8, rows=2, timeout=120, part=None, **kw):
    u = _utils()
    nbytes = (colors * columns * bpc + 7) // 8
    bpp = max(1, colors * bpc // 8)

    def fn(ex):
        raw = [[z3.Int("r%d_%d" % (i, j)) for j in range(nbytes)] for i in range(rows)]
        for r in raw:
            for v in r:
                ex.s.add(v >= 0, v <= 255)
        fts = [ex.choice(5, "ft%d" % i) for i in range(rows)]
        enc = png_encode(raw, fts, bpp)
        pred = 10 + ex.choice(6, "pred")         # the Predictor value 10..15 only says "PNG"; the row tag decides
        info = {"enc": SBy(enc), "raw": SBy([v for r in raw for v in r]), "pred": pred}
        try:
            out = u.apply_png_predictor(pred, colors, columns, bpc, SByI(enc))
        except symx.Violation:
            raise
        except Exception as e:
            ex.require(False, "apply_png_predictor raised %s: %s" % (type(e).__name__, e), **info)
        ex.require(isinstance(out, (SBy, bytes)) and len(out) == rows * nbytes, "decoded length differs", **info)
        ex.require(SBy.of(out) == info["raw"], "decoded samples differ from the original", **info)

    def conc(m, info):
        return {"pred": info["pred"], "colors": colors, "columns": columns, "bpc": bpc, "data": sbytes.model_bytes(m, info["enc"]), "expect": sbytes.model_bytes(m, info["raw"])}
    return core.run_symx("H1_png", fn, [u.apply_png_predictor, u.paeth_predictor],
                         {"colors": colors, "columns": columns, "bits": bpc, "rows": rows, "row_filter_types": "symbolic 0..4 per row", "samples": "all bytes symbolic"},
                         timeout, concretize=conc, part=part, int_lo=-8, int_hi=600)


def h1_paeth(timeout=60, **kw):
    u = _utils()

    def fn(ex):
        a, b, c = ex.int("a", 0, 255), ex.int("b", 0, 255), ex.int("c", 0, 255)
        got = u.paeth_predictor(a, b, c)
        ex.require(SB(symx.zi(got) == zpaeth(a.e, b.e, c.e)), "paeth_predictor differs from the PNG specification", va=a, vb=b, vc=c)

    def conc(m, info):
        return {"abc": [symx.mval(m, info["v" + k]) for k in "abc"]}
    return core.run_symx("H1_paeth", fn, [u.paeth_predictor], {"a,b,c": "0..255"}, timeout, concretize=conc)


# ------------------------------------------------------------------------------- H2 TIFF
def h2_tiff(colors=1, columns=2, rows=2, timeout=120, **kw):
    u = _utils()
    nbytes = colors * columns

    def fn(ex):
        raw = [[z3.Int("r%d_%d" % (i, j)) for j in range(nbytes)] for i in range(rows)]
        enc = []
        for r in raw:
            for j, v in enumerate(r):
                ex.s.add(v >= 0, v <= 255)
                enc.append((v - (r[j - colors] if j >= colors else 0)) % 256)     # TIFF 6.0 section 14: horizontal differencing
        info = {"enc": SBy(enc), "raw": SBy([v for r in raw for v in r])}
        try:
            out = u.apply_tiff_predictor(colors, columns, 8, SByI(enc))
        except symx.Violation:
            raise
        except Exception as e:
            ex.require(False, "apply_tiff_predictor raised %s: %s" % (type(e).__name__, e), **info)
        ex.require(isinstance(out, (SBy, bytes)) and len(out) == rows * nbytes and SBy.of(out) == info["raw"], "decoded samples differ from the original", **info)

    def conc(m, info):
        return {"colors": colors, "columns": columns, "data": sbytes.model_bytes(m, info["enc"]), "expect": sbytes.model_bytes(m, info["raw"])}
    return core.run_symx("H2_tiff", fn, [u.apply_tiff_predictor], {"colors": colors, "columns": columns, "bits": 8, "rows": rows, "samples": "all bytes symbolic"},
                         timeout, concretize=conc)


# ------------------------------------------------------------------------------- H3 RunLength
def _partitions(n, maxrun):
    """all ways to cut n bytes into runs (length, kind) with kind L(iteral) or R(epeat, length >= 2)"""
    if n == 0:
        yield []
        return
    for k in range(1, min(n, maxrun) + 1):
        for rest in _partitions(n - k, maxrun):
            yield [(k, "L")] + rest
            if k >= 2:
                yield [(k, "R")] + rest


def h3_rl(n=4, timeout=120, **kw):
    import pdfminer.runlength as rl
    rl.bytes = sbytes.BytesT
    parts = list(_partitions(n, n))

    def fn(ex):
        data = sbytes.sym_bytes(ex, "d", n)
        pi = ex.choice(len(parts), "partition")
        eod = ex.choice(2, "eod")
        enc = []
        pos = 0
        for k, kind in parts[pi]:
            if kind == "L":
                enc.append(k - 1)
                enc.extend(data.els[pos:pos + k])
            else:
                for j in range(1, k):
                    ex.assume(SB(data.els[pos] == data.els[pos + j]))
                enc.append(257 - k)
                enc.append(data.els[pos])
            pos += k
        if eod:
            enc.append(128)
            enc.append(z3.Int("junk"))          # anything after EOD is ignored
            ex.s.add(z3.Int("junk") >= 0, z3.Int("junk") <= 255)
        info = {"enc": SBy(enc), "raw": data}
        try:
            out = rl.rldecode(SByI(enc))
        except symx.Violation:
            raise
        except Exception as e:
            ex.require(False, "rldecode raised %s: %s" % (type(e).__name__, e), **info)
        ex.require(isinstance(out, (SBy, bytes)) and len(out) == n and (n == 0 or SBy.of(out) == data), "decoded bytes differ from the original", **info)

    def conc(m, info):
        return {"data": sbytes.model_bytes(m, info["enc"]), "expect": sbytes.model_bytes(m, info["raw"])}
    return core.run_symx("H3_runlength", fn, [rl.rldecode], {"data_bytes": n, "partitions_into_runs": len(parts), "eod": "with and without, junk after EOD"},
                         timeout, concretize=conc, int_lo=-8, int_hi=600)


# ------------------------------------------------------------------------------- H4 LZW
def h4_readbits(nbytes=3, timeout=120, **kw):
    import pdfminer.lzw as lzw
    lzw.ord = lambda x: (x[0] if isinstance(x, SBy) else ord(x))

    def fn(ex):
        data = sbytes.sym_bytes(ex, "d", nbytes)
        total = z3.IntVal(0)
        for e in data.els:
            total = total * 256 + e
        d = lzw.LZWDecoder(sbytes.SymFile(SByI(data.els)))
        widths = []
        used = 0
        k = 0
        while True:
            w = 9 + ex.choice(4, "w%d" % k)
            if used + w > 8 * nbytes:
                break
            v = d.readbits(w)
            used += w
            exp = (total / (1 << (8 * nbytes - used))) % (1 << w)      # big-endian bit slice
            ex.require(SB(symx.zi(v) == exp), "readbits(%d) is not the next %d bits, most significant first" % (w, w), data=data, widths=widths + [w])
            widths.append(w)
            k += 1

    def conc(m, info):
        return {"data": sbytes.model_bytes(m, info["data"]), "widths": info["widths"]}
    return core.run_symx("H4_readbits", fn, [lzw.LZWDecoder.readbits], {"bytes": nbytes, "widths": "symbolic 9..12 per call"}, timeout, concretize=conc)


def lzw_encode(data, early=1):
    """reference LZW encoder (PDF 32000-1 7.4.4, TIFF 6.0 section 13) on concrete symbols; returns code list with their widths"""
    codes = [(256, 9)]
    table = {bytes([i]): i for i in range(256)}
    nxt = 258
    nbits = 9
    w = b""
    for ch in data:
        wc = w + bytes([ch])
        if wc in table:
            w = wc
            continue
        codes.append((table[w], nbits))
        table[wc] = nxt
        nxt += 1
        if nxt + early > (1 << nbits) and nbits < 12:
            nbits += 1
        w = bytes([ch])
    if w:
        codes.append((table[w], nbits))
    codes.append((257, nbits))
    return codes


def h4_lzw(n=4, timeout=120, **kw):
    """data bytes are symbolic over a 3-letter alphabet {x, x+1, 255}: the code sequence of the reference encoder depends only on the
    equality pattern of the bytes, which the solver enumerates; literal codes stay symbolic through the bit packing"""
    import pdfminer.lzw as lzw
    lzw.ord = lambda x: (x[0] if isinstance(x, (SBy,)) else ord(x))
    lzw.bytes = sbytes.BytesT

    def fn(ex):
        letters = [ex.choice(3, "c%d" % i) for i in range(n)]
        alpha = [0, 1, 255]
        data = bytes(alpha[k] for k in letters)
        codes = lzw_encode(data)
        # pack the codes most significant bit first
        bits = []
        for c, w in codes:
            bits.extend((c >> (w - 1 - i)) & 1 for i in range(w))
        while len(bits) % 8:
            bits.append(0)
        enc = bytes(sum(b << (7 - i) for i, b in enumerate(bits[k:k + 8])) for k in range(0, len(bits), 8))
        info = {"enc": enc, "raw": data}
        try:
            out = lzw.lzwdecode(enc)
        except Exception as e:
            ex.require(False, "lzwdecode raised %s: %s" % (type(e).__name__, e), **info)
        ex.require(out == data, "decoded bytes differ from the original", **info)

    def conc(m, info):
        return {"data": info["enc"], "expect": info["raw"]}
    return core.run_symx("H4_lzw", fn, [lzw.LZWDecoder.feed, lzw.LZWDecoder.run, lzw.lzwdecode],
                         {"data_bytes": n, "alphabet": "3 letters (all equality patterns incl. KwKwK)", "note": "concrete per path; the bit reader is checked symbolically in H4_readbits"},
                         timeout, concretize=conc)


# ------------------------------------------------------------------------------- H4 one decoder step from an arbitrary valid state
LZW_SIZES = [258, 259, 510, 511, 512, 1022, 1023, 1024, 2046, 2047, 2048, 4094, 4095]


def _lzw_width(table_len):
    """code width in force when the table holds table_len entries (PDF LZW, EarlyChange=1: the width grows one code early)"""
    return 9 if table_len < 511 else 10 if table_len < 1023 else 11 if table_len < 2047 else 12


def _lzw_entry(i):
    return bytes([i]) if i < 256 else bytes([(i >> 8) & 255, i & 255, 7])        # distinct strings; entries 256, 257 are None


def _lzwstep(lzw, size, has_prev, code):
    """builds the decoder state, feeds `code` (int or symbolic int), returns None or what differs from the specification"""
    import io
    entry = _lzw_entry
    d = lzw.LZWDecoder(io.BytesIO(b""))
    d.table = [entry(i) if i not in (256, 257) else None for i in range(size)]
    d.nbits = _lzw_width(size)
    prev = entry(65) if has_prev else b""
    d.prevbuf = prev
    try:
        out = d.feed(code)
        raised = None
    except lzw.CorruptDataError as e:
        out, raised = None, e
    except Exception as e:
        return "feed raised %s: %s" % (type(e).__name__, e)
    c = int(code)                        # decided by now (the decoder compared / indexed with it)
    state = "table %d entries, width %d, previous %r, output %r, raised %r" % (len(d.table), d.nbits, d.prevbuf, out, raised)
    if c == 256:
        ok = raised is None and out == b"" and len(d.table) == 258 and d.nbits == 9 and d.prevbuf == b""
        return None if ok else "clear-table code with %d entries: state not reset (%s)" % (size, state)
    if c == 257:
        return None if raised is None and out == b"" and len(d.table) == size else "end-of-data code changed the state (%s)" % state
    if not has_prev:
        if c < 256:
            ok = raised is None and out == entry(c) and d.prevbuf == entry(c) and len(d.table) == 258 and d.nbits == 9
            return None if ok else "first code %d after a clear: %s" % (c, state)
        return None if raised is not None else "code %d beyond the table right after a clear was accepted" % c
    if c <= size:
        exp = entry(c) if c < size else prev + prev[:1]
        ok = raised is None and out == exp and len(d.table) == size + 1 and d.table[size] == prev + exp[:1] and d.prevbuf == exp and d.nbits == _lzw_width(size + 1)
        return None if ok else "code %d with %d entries: expected output %r and width %d, got %s" % (c, size, exp, _lzw_width(size + 1), state)
    return None if raised is not None else "code %d beyond the next free entry (%d) was accepted" % (c, size)


def h4_lzwstep(timeout=150, part=None, **kw):
    """LZWDecoder.feed as a state machine: from every valid state (table size at and around each width boundary, a previous string or none) one
    symbolic code is fed; output, new table size, code width and previous string are those of the LZW specification (TIFF 6.0 section 13 / ISO 32000-1 7.4.4)"""
    import pdfminer.lzw as lzw
    lzw.bytes = sbytes.BytesT

    def fn(ex):
        size = LZW_SIZES[ex.choice(len(LZW_SIZES), "size")]
        has_prev = ex.choice(2, "has_prev") == 1
        if not has_prev and size != 258:
            raise symx.Abort()                         # right after a clear code the table has exactly 258 entries
        code = ex.int("code", 0, 4097)
        # the decoder only compares the code with 256, 257 and the table size and indexes the table with it: codes around those values (and the extremes) are kept
        ex.assume(SB(z3.Or(code.e <= 1, z3.And(code.e >= 254, code.e <= 260), z3.And(code.e >= size - 3, code.e <= size + 2), code.e >= 4095)))
        info = {"size": size, "has_prev": has_prev, "code": code}
        err = _lzwstep(lzw, size, has_prev, code)
        ex.require(err is None, err or "", **info)

    def conc(m, info):
        return {"size": info["size"], "has_prev": info["has_prev"], "code": symx.mval(m, info["code"])}
    return core.run_symx("H4_lzwstep", fn, [lzw.LZWDecoder.feed], {"table sizes": LZW_SIZES, "previous string": "present / absent (after a clear)",
                                                                   "code": "symbolic in {0,1} u [254,260] u [size-3,size+2] u {4095..4097}, concretised by forking"},
                         timeout, concretize=conc, part=part, int_lo=0, int_hi=4097)


# ------------------------------------------------------------------------------- H5 ASCIIHex framing
def _py_unhexlify(x):
    x = SBy.of(x)
    if len(x) % 2:
        raise ValueError("Odd-length string")
    out = []
    for i in range(0, len(x), 2):
        v = []
        for e in x.els[i:i + 2]:
            if isinstance(e, int):
                v.append(int(bytes([e]), 16))
            else:
                if not bool(SB(z3.Or(z3.And(e >= 48, e <= 57), z3.And(e >= 65, e <= 70), z3.And(e >= 97, e <= 102)))):
                    raise ValueError("Non-hexadecimal digit found")
                v.append(z3.If(e <= 57, e - 48, z3.If(e <= 70, e - 55, e - 87)))
        out.append(v[0] * 16 + v[1])
    return SBy(out)


def h5_hex(n=2, timeout=120, **kw):
    import pdfminer.ascii85 as a85
    import re
    a85.unhexlify = _py_unhexlify
    a85.bws_re = sbytes.SymRegex(re.compile(rb"\s")) if isinstance(a85.bws_re, re.Pattern) else a85.bws_re
    WS = (9, 10, 12, 13, 32)

    def fn(ex):
        data = sbytes.sym_bytes(ex, "d", n)
        digits = []
        for i, b in enumerate(data.els):
            for nm, nib in (("h", b / 16), ("l", b % 16)):
                up = ex.choice(2, "u%d%s" % (i, nm))
                digits.append(z3.If(nib < 10, nib + 48, nib + (55 if up else 87)))
        eod = ex.choice(2, "eod")
        odd = ex.choice(2, "odd") if (eod and n) else 0
        if odd:
            ex.assume(SB(data.els[-1] % 16 == 0))
            digits = digits[:-1]
        gap = ex.choice(len(digits) + 2, "gap")
        out = []
        for k, dgt in enumerate(digits):
            if gap == k:
                w = z3.Int("ws")
                ex.s.add(z3.Or([w == x for x in WS]))
                out.append(w)
            out.append(dgt)
        if gap == len(digits):
            w = z3.Int("ws")
            ex.s.add(z3.Or([w == x for x in WS]))
            out.append(w)
        if eod:
            out.append(62)
        info = {"enc": SBy(out), "raw": data}
        try:
            got = a85.asciihexdecode(SBy(out))
        except symx.Violation:
            raise
        except Exception as e:
            ex.require(False, "asciihexdecode raised %s: %s" % (type(e).__name__, e), **info)
        ex.require(len(got) == n and (n == 0 or SBy.of(got) == data), "decoded bytes differ from the original", **info)

    def conc(m, info):
        return {"data": sbytes.model_bytes(m, info["enc"]), "expect": sbytes.model_bytes(m, info["raw"])}
    return core.run_symx("H5_asciihex", fn, [a85.asciihexdecode], {"data_bytes": n, "digit_case": "symbolic", "white_space": "one symbolic white-space byte anywhere",
                                                                   "eod": "with/without '>'", "odd": "final 0 digit omitted before '>'"},
                         timeout, concretize=conc)


# ------------------------------------------------------------------------------- H6 filter pipeline
FILTERS = [("FlateDecode", "Fl"), ("LZWDecode", "LZW"), ("ASCII85Decode", "A85"), ("ASCIIHexDecode", "AHx"), ("RunLengthDecode", "RL")]


class _Ref:
    """stands for an indirect reference: resolve1() follows .resolve()"""


def h6_pipeline(maxlen=2, timeout=200, part=None, **kw):
    import pdfminer.pdftypes as pt
    from pdfminer.psparser import LIT
    calls = []

    def stub(tag):
        def f(data, *a):
            calls.append((tag, a))
            return data + b"|" + tag.encode()
        return f
    pt.zlib = type("Z", (), {"decompress": staticmethod(stub("FlateDecode")), "error": Exception})
    pt.lzwdecode = stub("LZWDecode")
    pt.ascii85decode = stub("ASCII85Decode")
    pt.asciihexdecode = stub("ASCIIHexDecode")
    pt.rldecode = stub("RunLengthDecode")
    pt.apply_png_predictor = lambda pred, colors, columns, bpc, data: data + b"|png(%d,%d,%d,%d)" % (pred, colors, columns, bpc)
    pt.apply_tiff_predictor = lambda colors, columns, bpc, data: data + b"|tiff(%d,%d,%d)" % (colors, columns, bpc)

    class Ref(pt.PDFObjRef):
        def __init__(self, v):
            self.v = v
            self.objid = 99

        def resolve(self, default=None):
            return self.v

    def fn(ex):
        del calls[:]
        k = 1 + ex.choice(maxlen, "len")
        names, expect, parms = [], b"raw", []
        for i in range(k):
            fi = ex.choice(len(FILTERS), "f%d" % i)
            ab = ex.choice(2, "ab%d" % i)
            names.append(LIT(FILTERS[fi][ab]))
            expect += b"|" + FILTERS[fi][0].encode()
            pk = ex.choice(3, "p%d" % i)          # 0 none, 1 TIFF predictor 2, 2 PNG predictor 12
            if pk == 0:
                parms.append(None if ex.choice(2, "pn%d" % i) else {})
            elif pk == 1:
                parms.append({"Predictor": 2, "Colors": 3, "Columns": 4 + i})
                expect += b"|tiff(3,%d,8)" % (4 + i)
            else:
                parms.append({"Predictor": 12, "Columns": 5 + i})
                expect += b"|png(12,1,%d,8)" % (5 + i)
        form = ex.choice(3, "form")               # single value (only k == 1) / array / array behind an indirect reference
        if form == 0 and k != 1:
            raise symx.Abort()
        fv = names[0] if form == 0 else (names if form == 1 else Ref(names))
        pv = parms[0] if form == 0 else (parms if form == 1 else Ref([Ref(p) if p else p for p in parms]))
        if form != 0 and ex.choice(2, "elemref"):
            fv = [Ref(x) for x in names] if form == 1 else fv
        keys = [("Filter", "DecodeParms"), ("F", "DP")][ex.choice(2, "abbrkeys")]
        attrs = {keys[0]: fv}
        if any(p is not None for p in parms) or ex.choice(2, "dp"):
            attrs[keys[1]] = pv
        st = pt.PDFStream(attrs, b"raw")
        try:
            got = st.get_data()
        except Exception as e:
            ex.require(False, "PDFStream.get_data raised %s: %s" % (type(e).__name__, e), attrs=repr(attrs))
        ex.require(got == expect, "filters/predictors not applied in chain order with their own parameters: got %r, expected %r" % (got, expect), attrs=repr(attrs))
        ex.require(st.get_data() == got, "reading the stream a second time gives other bytes", attrs=repr(attrs))

    def conc(m, info):
        return {"attrs": info["attrs"], "note": "structure built from choices; replayed by re-running the same harness concretely"}
    return core.run_symx("H6_pipeline", fn, [pt.PDFStream.decode, pt.PDFStream.get_filters, pt.PDFStream.get_data],
                         {"chain_length": "1..%d" % maxlen, "names": "full/abbreviated", "parameters": "none/null/TIFF/PNG per filter", "form": "single, array, indirect array, indirect elements",
                          "keys": "Filter/DecodeParms and F/DP"}, timeout, concretize=conc, part=part)


# ------------------------------------------------------------------------------- H7 payload delimitation
def h7_payload(n=3, timeout=120, **kw):
    from harness import pscommon as pc
    shims = pc.setup()
    import pdfminer.pdfparser as pp
    import pdfminer.pdftypes as pt
    import pdfminer.psparser as ps
    patched = sbytes.patch_module_in(pp)
    pp.bytearray = lambda x=b"": SBy.of(x) if isinstance(x, SBy) else bytearray(x)
    pp.bytes = sbytes.BytesT

    class Doc:
        decipher = None

        def getobj(self, objid):
            return self.length
    frags = [b"endstream", b"\r", b"\n", b"\x00", b"endobj"]

    def fn(ex):
        sym = sbytes.sym_bytes(ex, "p", n)
        fi = ex.choice(len(frags), "frag")
        at = ex.choice(n + 1, "at")
        payload = SBy(sym.els[:at]) + frags[fi] + SBy(sym.els[at:])
        eol = [b"\n", b"\r\n"][ex.choice(2, "eol")]
        indirect = ex.choice(2, "indirect")
        bufsiz = [1, 7, 4096][ex.choice(3, "buf")]
        L = len(payload)
        head = b"<</Length " + (b"9 0 R" if indirect else str(L).encode()) + b">>stream" + eol
        tailsel = ex.choice(3, "tail")
        tail = [b"\nendstream\n", b"\r\nendstream ", b"endstream\n"][tailsel] + b"endobj\n"
        endpos = len(head) + L + [1, 2, 0][tailsel]
        data = SBy(list(head)) + payload + tail
        doc = Doc()
        doc.length = L

        class P(pp.PDFParser):
            BUFSIZ = bufsiz
        p = P(sbytes.SymFile(data))
        p.set_document(doc)
        info = {"data": data, "payload": payload, "bufsiz": bufsiz, "indirect": indirect}
        try:
            objs = [p.nextobject()[1]]
            nxt = p.nextobject()
        except symx.Violation:
            raise
        except Exception as e:
            ex.require(False, "PDFParser raised %s: %s" % (type(e).__name__, e), **info)
        st = objs[0]
        ex.require(isinstance(st, pt.PDFStream), "no stream object", **info)
        raw = st.rawdata
        ex.require(len(raw) == L and SBy.of(raw) == payload, "stream payload differs from the bytes written", **info)
        ex.require(nxt[1] is ps.KWD(b"endstream") and nxt[0] == endpos, "parser is not positioned at the endstream keyword that follows the payload", endpos=endpos, **info)

    def conc(m, info):
        return {"data": sbytes.model_bytes(m, info["data"]), "payload": sbytes.model_bytes(m, info["payload"]), "bufsiz": info["bufsiz"], "indirect": info["indirect"], "endpos": info.get("endpos")}
    return core.run_symx("H7_payload", fn, [pp.PDFParser.do_keyword, ps.PSBaseParser.nextline],
                         {"payload": "%d symbolic bytes + one of %r at a symbolic position" % (n, frags), "eol_after_stream": "LF / CRLF", "Length": "direct / indirect",
                          "bufsiz": [1, 7, 4096]}, timeout, concretize=conc, shims=dict(shims, pdfparser_in_rewritten=patched))


# ------------------------------------------------------------------------------- replay
# ------------------------------------------------------------------------------- H8 long, structured payloads (beyond the symbolic bounds) through the real filter pipeline
def _pat(name, n):
    if name == "zeros":
        return bytes(n)
    if name == "ramp":
        return bytes(i % 256 for i in range(n))
    if name == "ab":
        return (b"ab" * (n // 2 + 1))[:n]
    if name == "runs":                      # runs of growing length 1, 2, 3, .. 130, 1, ..
        out, k, v = bytearray(), 1, 0
        while len(out) < n:
            out += bytes([v % 256]) * k
            k, v = k % 130 + 1, v + 7
        return bytes(out[:n])
    x, out = 12345, bytearray()              # "noise": a linear congruential generator (fills the LZW table, defeats run-length coding)
    for _ in range(n):
        x = (x * 1103515245 + 12345) % (1 << 31)
        out.append((x >> 16) & 255)
    return bytes(out)


def ref_rl(data):
    """RunLengthDecode's inverse (ISO 32000-1 7.4.5): runs of 2..128 equal bytes, literal stretches of 1..128 bytes, EOD 128"""
    out, i, n = bytearray(), 0, len(data)
    while i < n:
        j = i
        while j + 1 < n and data[j + 1] == data[i] and j - i < 127:
            j += 1
        if j > i:
            out += bytes([257 - (j - i + 1), data[i]])
            i = j + 1
            continue
        j = i
        while j + 1 < n and j - i < 127 and not (j + 2 < n and data[j + 1] == data[j + 2]):
            j += 1
        out += bytes([j - i]) + data[i:j + 1]
        i = j + 1
    return bytes(out) + b"\x80"


def ref_lzw(data):
    """PDF LZW (EarlyChange 1) with table clearing when the table is full; bit-packed, most significant bit first"""
    codes, table, nxt, nbits, w = [(256, 9)], {bytes([i]): i for i in range(256)}, 258, 9, b""
    for ch in data:
        wc = w + bytes([ch])
        if wc in table:
            w = wc
            continue
        codes.append((table[w], nbits))
        table[wc] = nxt
        nxt += 1
        if nxt + 1 > (1 << nbits) and nbits < 12:
            nbits += 1
        w = bytes([ch])
        if nxt >= 4094:                      # table full: clear
            codes.append((256, nbits))
            table, nxt, nbits = {bytes([i]): i for i in range(256)}, 258, 9
    if w:
        codes.append((table[w], nbits))
        nxt += 1
        if nxt + 1 > (1 << nbits) and nbits < 12:
            nbits += 1
    codes.append((257, nbits))
    acc, nacc, out = 0, 0, bytearray()
    for c, wd in codes:
        acc, nacc = (acc << wd) | c, nacc + wd
        while nacc >= 8:
            out.append((acc >> (nacc - 8)) & 255)
            nacc -= 8
    if nacc:
        out.append((acc << (8 - nacc)) & 255)
    return bytes(out)


def ref_a85(data):
    out = bytearray()
    for i in range(0, len(data), 4):
        chunk = data[i:i + 4]
        v = int.from_bytes(chunk + bytes(4 - len(chunk)), "big")
        if v == 0 and len(chunk) == 4:
            out += b"z"
            continue
        digs = []
        for _ in range(5):
            v, r = divmod(v, 85)
            digs.append(r + 33)
        out += bytes(digs[::-1])[:len(chunk) + 1]
        if (i // 4) % 15 == 14:
            out += b"\n"
    return bytes(out) + b"~>"


def ref_png(data, colors, columns, fts=(0, 1, 2, 3, 4)):
    bpp, nb = colors, colors * columns
    rows = [data[i:i + nb] for i in range(0, len(data) - len(data) % nb, nb)]
    out, prev = bytearray(), bytes(nb)

    def paeth(a, b, c):
        p = a + b - c
        pa, pb, pc_ = abs(p - a), abs(p - b), abs(p - c)
        return a if pa <= pb and pa <= pc_ else (b if pb <= pc_ else c)
    for k, row in enumerate(rows):
        ft = fts[k % len(fts)]
        out.append(ft)
        for j, x in enumerate(row):
            a = row[j - bpp] if j >= bpp else 0
            b = prev[j]
            c = prev[j - bpp] if j >= bpp else 0
            out.append((x - [0, a, b, (a + b) // 2, paeth(a, b, c)][ft]) % 256)
        prev = row
    return bytes(out), b"".join(rows)


LONG_CODECS = ["RunLengthDecode", "LZWDecode", "ASCII85Decode", "ASCIIHexDecode", "LZW+PNG", "A85+RL", "LZW+TIFF"]
LONG_PATTERNS = ["zeros", "ramp", "ab", "runs", "noise"]
LONG_SIZES = [0, 1, 2, 127, 128, 129, 255, 256, 257, 510, 512, 4000, 9000, 70000]


def long_case(codec, pattern, size):
    """(stream attributes, encoded payload, expected decoded bytes)"""
    from pdfminer.psparser import LIT
    data = _pat(pattern, size)
    if codec == "RunLengthDecode":
        return {"Filter": LIT(codec)}, ref_rl(data), data
    if codec == "LZWDecode":
        return {"Filter": LIT(codec)}, ref_lzw(data), data
    if codec == "ASCII85Decode":
        return {"Filter": LIT(codec)}, ref_a85(data), data
    if codec == "ASCIIHexDecode":
        return {"Filter": LIT(codec)}, data.hex().encode() + b">", data
    if codec == "LZW+PNG":
        enc, exp = ref_png(data, 3, 50)
        return {"Filter": LIT("LZWDecode"), "DecodeParms": {"Predictor": 15, "Colors": 3, "Columns": 50}}, ref_lzw(enc), exp
    if codec == "A85+RL":
        return {"Filter": [LIT("ASCII85Decode"), LIT("RunLengthDecode")]}, ref_a85(ref_rl(data)), data
    nb = 3 * 40
    rows = [data[i:i + nb] for i in range(0, len(data) - len(data) % nb, nb)]
    enc = b"".join(bytes((row[j] - (row[j - 3] if j >= 3 else 0)) % 256 for j in range(nb)) for row in rows)
    return {"Filter": LIT("LZWDecode"), "DecodeParms": {"Predictor": 2, "Colors": 3, "Columns": 40}}, ref_lzw(enc), b"".join(rows)


def long_check(ci, pi, si):
    import pdfminer.pdftypes as pt
    attrs, payload, exp = long_case(LONG_CODECS[ci], LONG_PATTERNS[pi], LONG_SIZES[si])
    try:
        st = pt.PDFStream(attrs, payload)
        got = st.get_data()
        if st.get_data() != got:
            return "%s over %d bytes of %r: reading the stream a second time gives other bytes" % (LONG_CODECS[ci], LONG_SIZES[si], LONG_PATTERNS[pi])
    except Exception as e:
        return "%s over %d bytes of %r raised %s: %s" % (LONG_CODECS[ci], LONG_SIZES[si], LONG_PATTERNS[pi], type(e).__name__, str(e)[:200])
    if got != exp:
        k = next((i for i in range(min(len(got), len(exp))) if got[i] != exp[i]), min(len(got), len(exp)))
        return "%s over %d bytes of %r: decoded %d bytes, original %d bytes, first difference at byte %d" % (LONG_CODECS[ci], LONG_SIZES[si], LONG_PATTERNS[pi], len(got), len(exp), k)
    return None


def h8_long(timeout=300, part=None, **kw):
    """payloads of 0 .. 70000 bytes in five patterns, encoded by reference encoders (run-length runs of every length up to 130, an LZW table that fills, widens to 12 bits and is cleared,
    ASCII85 with z groups and line breaks, PNG rows cycling through all five filter types, chains of two filters) and decoded by the real PDFStream.get_data - concrete, selected by symbolic choices"""
    import pdfminer.pdftypes as pt

    def fn(ex):
        ci, pi, si = ex.choice(len(LONG_CODECS), "codec"), ex.choice(len(LONG_PATTERNS), "pattern"), ex.choice(len(LONG_SIZES), "size")
        r = long_check(ci, pi, si)
        ex.require(r is None, r or "", ci=ci, pi=pi, si=si)

    def conc(m, info):
        return {"ci": info["ci"], "pi": info["pi"], "si": info["si"]}
    return core.run_symx("H8_long", fn, [pt.PDFStream.decode], {"codecs": LONG_CODECS, "patterns": LONG_PATTERNS, "sizes": LONG_SIZES}, timeout, concretize=conc, part=part)


def replay(harness, inp):
    import pdfminer.utils as u
    if harness == "H8_long":
        return long_check(inp["ci"], inp["pi"], inp["si"])
    if harness == "H1_png":
        try:
            out = u.apply_png_predictor(inp["pred"], inp["colors"], inp["columns"], inp["bpc"], inp["data"])
        except Exception as e:
            return "apply_png_predictor(%d, %d, %d, %d, %r) raised %r; original samples %r" % (inp["pred"], inp["colors"], inp["columns"], inp["bpc"], inp["data"], e, inp["expect"])
        return None if out == inp["expect"] else "apply_png_predictor(%d, %d, %d, %d, %r) = %r, original samples %r" % (
            inp["pred"], inp["colors"], inp["columns"], inp["bpc"], inp["data"], out, inp["expect"])
    if harness == "H1_paeth":
        a, b, c = inp["abc"]
        p = a + b - c
        pa, pb, pc_ = abs(p - a), abs(p - b), abs(p - c)
        exp = a if (pa <= pb and pa <= pc_) else (b if pb <= pc_ else c)
        got = u.paeth_predictor(a, b, c)
        return None if got == exp else "paeth_predictor(%d,%d,%d)=%d, PNG spec says %d" % (a, b, c, got, exp)
    if harness == "H2_tiff":
        try:
            out = u.apply_tiff_predictor(inp["colors"], inp["columns"], 8, inp["data"])
        except Exception as e:
            return "apply_tiff_predictor raised %r" % e
        return None if out == inp["expect"] else "apply_tiff_predictor(%d,%d,8,%r)=%r, original %r" % (inp["colors"], inp["columns"], inp["data"], out, inp["expect"])
    if harness == "H3_runlength":
        from pdfminer.runlength import rldecode
        try:
            out = rldecode(inp["data"])
        except Exception as e:
            return "rldecode(%r) raised %r" % (inp["data"], e)
        return None if out == inp["expect"] else "rldecode(%r)=%r, original %r" % (inp["data"], out, inp["expect"])
    if harness == "H4_readbits":
        import io
        from pdfminer.lzw import LZWDecoder
        d = LZWDecoder(io.BytesIO(inp["data"]))
        total = int.from_bytes(inp["data"], "big")
        used = 0
        for w in inp["widths"]:
            v = d.readbits(w)
            used += w
            exp = (total >> (8 * len(inp["data"]) - used)) & ((1 << w) - 1)
            if v != exp:
                return "LZWDecoder(%r).readbits%r: got %d, the bit slice is %d" % (inp["data"], inp["widths"], v, exp)
        return None
    if harness == "H4_lzwstep":
        import pdfminer.lzw as lzw
        return _lzwstep(lzw, inp["size"], inp["has_prev"], inp["code"])
    if harness == "H4_lzw":
        from pdfminer.lzw import lzwdecode
        try:
            out = lzwdecode(inp["data"])
        except Exception as e:
            return "lzwdecode(%r) raised %r" % (inp["data"], e)
        return None if out == inp["expect"] else "lzwdecode(%r)=%r, the encoder's input was %r" % (inp["data"], out, inp["expect"])
    if harness == "H5_asciihex":
        from pdfminer.ascii85 import asciihexdecode
        try:
            out = asciihexdecode(inp["data"])
        except Exception as e:
            return "asciihexdecode(%r) raised %r" % (inp["data"], e)
        return None if out == inp["expect"] else "asciihexdecode(%r)=%r, original %r" % (inp["data"], out, inp["expect"])
    if harness == "H7_payload":
        import io
        import pdfminer.pdfparser as pp
        import pdfminer.pdftypes as pt

        class Doc:
            decipher = None

            def getobj(self, objid):
                return len(inp["payload"])

        class P(pp.PDFParser):
            BUFSIZ = inp["bufsiz"]
        p = P(io.BytesIO(inp["data"]))
        p.set_document(Doc())
        try:
            st = p.nextobject()[1]
            nxt = p.nextobject()
        except Exception as e:
            return "PDFParser on %r raised %r" % (inp["data"], e)
        if not isinstance(st, pt.PDFStream) or st.rawdata != inp["payload"]:
            return "PDFParser(%r) BUFSIZ=%d: stream payload %r, written %r" % (inp["data"], inp["bufsiz"], getattr(st, "rawdata", st), inp["payload"])
        if getattr(nxt[1], "name", None) != b"endstream" or (inp.get("endpos") is not None and nxt[0] != inp["endpos"]):
            return "PDFParser(%r): object after the stream is %r, expected the endstream keyword at %r" % (inp["data"], nxt, inp.get("endpos"))
        return None
    if harness == "H6_pipeline":
        return core.replay_by_choices(h6_pipeline, {"maxlen": 3}, inp["_choices"])
    raise KeyError(harness)


GEOMS_Q = [(1, 1, 8), (1, 2, 8), (2, 2, 8), (3, 1, 8), (1, 8, 1), (3, 3, 1)]
GEOMS_T = [(c, w, 8) for c in (1, 2, 3, 4) for w in (1, 2, 3)] + [(1, 8, 1), (1, 12, 1), (3, 3, 1), (1, 17, 1)]


def jobs(tier):
    J = [Job("H1_paeth", "h1_paeth", {}, 60)] + [Job("H8_long:%d" % k, "h8_long", {"part": [k, 4, 6]}, 300, "H8_long") for k in range(4)]
    if tier == "quick":
        for c, w, b in GEOMS_Q:
            J.append(Job("H1_png:c%dw%db%d:r2" % (c, w, b), "h1_png", {"colors": c, "columns": w, "bpc": b, "rows": 2}, 150, "H1_png"))
        for c, w in ((1, 2), (2, 2), (3, 1)):
            J.append(Job("H2_tiff:c%dw%d" % (c, w), "h2_tiff", {"colors": c, "columns": w, "rows": 2}, 60, "H2_tiff"))
        J.append(Job("H3_runlength:n4", "h3_rl", {"n": 4}, 100, "H3_runlength"))
        J.append(Job("H4_readbits:3", "h4_readbits", {"nbytes": 3}, 100, "H4_readbits"))
        J.append(Job("H4_lzw:n4", "h4_lzw", {"n": 4}, 100, "H4_lzw"))
        J.append(Job("H4_lzwstep", "h4_lzwstep", {}, 200))
        J.append(Job("H5_asciihex:n2", "h5_hex", {"n": 2}, 150, "H5_asciihex"))
        J.append(Job("H6_pipeline:2", "h6_pipeline", {"maxlen": 2}, 150, "H6_pipeline"))
        J.append(Job("H7_payload:n3", "h7_payload", {"n": 3}, 150, "H7_payload"))
    else:
        for c, w, b in GEOMS_T:
            for k in range(2):
                J.append(Job("H1_png:c%dw%db%d:r3:%d" % (c, w, b, k), "h1_png", {"colors": c, "columns": w, "bpc": b, "rows": 3, "part": [k, 2, 7]}, 900, "H1_png"))
        for c in (1, 2, 3, 4):
            for w in (1, 2, 3):
                J.append(Job("H2_tiff:c%dw%d" % (c, w), "h2_tiff", {"colors": c, "columns": w, "rows": 3}, 200, "H2_tiff"))
        J.append(Job("H3_runlength:n6", "h3_rl", {"n": 6}, 600, "H3_runlength"))
        J.append(Job("H4_readbits:5", "h4_readbits", {"nbytes": 5}, 600, "H4_readbits"))
        J.append(Job("H4_lzw:n7", "h4_lzw", {"n": 7}, 600, "H4_lzw"))
        J.append(Job("H4_lzwstep", "h4_lzwstep", {}, 400))
        J.append(Job("H5_asciihex:n3", "h5_hex", {"n": 3}, 600, "H5_asciihex"))
        for k in range(4):
            J.append(Job("H6_pipeline:3:%d" % k, "h6_pipeline", {"maxlen": 3, "part": [k, 4, 8]}, 900, "H6_pipeline"))
        J.append(Job("H7_payload:n4", "h7_payload", {"n": 4}, 600, "H7_payload"))
    return J
