"""C17 - page labels, outlines and named destinations follow their tree definitions.

H1 NumberTree.values: symbolic keys, tree shapes by choice -> sorted flattening.
H2 PageLabels.labels: ranges / styles / St / prefix by choice, label of page i vs ISO 32000-1 12.4.2.
H3 format_int_roman for every symbolic value 1..3999 (digits discovered by forking), format_int_alpha vs 12.4.2.
H4 lookup_name / get_dest on name trees with Limits: found <=> present, absent -> PDFDestinationNotFound.
H5 get_outlines: conforming forests -> pre-order with levels; one corrupted Next/First pointer -> terminates, no item twice.
H6 decode_text: byte-wise homomorphism and ASCII identity without BOM (symbolic byte), UTF-16BE after a BOM.
"""
import z3

from engine import symx, sbytes
from engine.symx import SB, SI
from harness import numshim
from lib import core
from lib.core import Job

ASSUMPTIONS = [
    "trees are conforming (keys sorted, Limits correct) unless a harness says it corrupts a pointer; nodes are indirect objects",
    "outline items carry Title and Dest (pdfminer omits items that have neither Dest nor A)",
    "roman numerals: 1..3999 (ISO does not define others)",
    "PDFDocEncoding: only the byte-wise structure and the ASCII range are checked (no independent copy of Annex D is available offline)",
]
OUTSIDE = ["trees deeper than 2 levels / more than 4 outline items", "label ranges beyond 3"]

EXCL = set()


class WorkLimit(Exception):
    pass


class Doc:
    LIMIT = 500

    def __init__(self):
        self.objs = {}
        self.calls = 0
        self.catalog = {}

    def getobj(self, n):
        from pdfminer.pdfexceptions import PDFObjectNotFound
        self.calls += 1
        if self.calls > self.LIMIT:
            raise WorkLimit("unbounded work: more than %d object look-ups" % self.LIMIT)
        if n not in self.objs:
            raise PDFObjectNotFound(n)
        return self.objs[n]


def ref(doc, n):
    from pdfminer.pdftypes import PDFObjRef
    return PDFObjRef(doc, n)


# --------------------------------------------------------------------------------------------- H1
def h1_numtree(timeout=150, part=None, **kw):
    shims = numshim.install("pdftypes", "utils", "data_structures")
    import pdfminer.data_structures as ds

    def fn(ex):
        doc = Doc()
        shape = ex.choice(3, "shape")        # 0: root leaf; 1: root with two leaf kids; 2: root -> intermediate -> two leaves
        n = 2 + ex.choice(2, "n")
        keys = [ex.int("k%d" % i, 0, 20) for i in range(n)]
        vals = ["v%d" % i for i in range(n)]
        pairs = [x for kv in zip(keys, vals) for x in kv]
        if shape == 0:
            root = {"Nums": pairs}
        else:
            doc.objs[11] = {"Nums": pairs[:2], "Limits": [keys[0], keys[0]]}
            doc.objs[12] = {"Nums": pairs[2:], "Limits": [keys[1], keys[-1]]}
            kids = [ref(doc, 11), ref(doc, 12)]
            if shape == 2:
                doc.objs[13] = {"Kids": kids, "Limits": [keys[0], keys[-1]]}
                kids = [ref(doc, 13)]
            root = {"Kids": kids}
        got = ds.NumberTree(root).values
        info = {"keys": keys, "shape": shape}
        ex.require(len(got) == n, "%d entries flattened, %d in the tree" % (len(got), n), **info)
        conds = [symx.zi(a[0]) <= symx.zi(b[0]) for a, b in zip(got, got[1:])]
        # each (key, value) pair of the tree occurs in the output
        for k, v in zip(keys, vals):
            conds.append(z3.Or([z3.And(symx.zi(g[0]) == k.e, z3.BoolVal(g[1] == v)) for g in got]))
        ex.require(SB(z3.And(conds)), "values are not the sorted flattening of the tree", **info)

    def conc(m, info):
        return {"keys": [symx.mval(m, k) for k in info["keys"]], "shape": info["shape"]}
    return core.run_symx("H1_numtree", fn, [ds.NumberTree._parse, ds.NumberTree.__init__], {"keys": "2..3 symbolic ints 0..20 (any order)", "shape": "leaf root / two leaf kids / intermediate node"},
                         timeout, concretize=conc, shims={"namespace_shims": shims}, part=part, int_lo=-1, int_hi=21)


# --------------------------------------------------------------------------------------------- H2 / H3
def ref_roman(n):
    out = ""
    for v, s in ((1000, "m"), (900, "cm"), (500, "d"), (400, "cd"), (100, "c"), (90, "xc"), (50, "l"), (40, "xl"), (10, "x"), (9, "ix"), (5, "v"), (4, "iv"), (1, "i")):
        while n >= v:
            out += s
            n -= v
    return out


def ref_alpha(n):
    """ISO 32000-1 12.4.2: a..z for 1..26, aa..zz for 27..52, aaa..zzz, ..."""
    return chr(ord("a") + (n - 1) % 26) * ((n - 1) // 26 + 1)


def ref_label(style, value):
    if style is None:
        return ""
    if style == "D":
        return str(value)
    if style in "Rr":
        s = ref_roman(value)
        return s.upper() if style == "R" else s
    s = ref_alpha(value)
    return s.upper() if style == "A" else s


STYLES = [None, "D", "R", "r", "A", "a"]
STARTS = [1, 2, 26, 27, 3998]


def h2_labels(timeout=150, part=None, exclude=(), **kw):
    EXCL.update(exclude or ())
    import pdfminer.pdfdocument as pd
    from pdfminer.psparser import LIT

    def fn_body(ex):
        nr = 1 + ex.choice(3, "nranges")
        focus = ex.choice(nr, "focus")               # one range is fully symbolic, the others are plain decimal ranges
        starts = [0]
        for r in range(1, nr):
            starts.append(starts[-1] + [1, 3][ex.choice(2, "gap%d" % r)])
        ranges = []
        for r in range(nr):
            if r == focus:
                st = STYLES[ex.choice(len(STYLES), "style")]
                first = STARTS[ex.choice(len(STARTS), "st")]
                pre = [None, b"p-", b"\xfe\xff\x00A"][ex.choice(3, "pre")]
            else:
                st, first, pre = "D", 5, None
            ranges.append((starts[r], st, first, pre))
        doc = Doc()
        nums = []
        stkeys = []
        # settings.STRICT only decides how *ill-typed* values are treated; every dictionary here is conformant, so the labels are the same under both
        strict = bool(ex.choice(2, "strict"))
        for (s, st, first, pre) in ranges:
            d = {}
            if st:
                d["S"] = LIT(st)
            stkeys.append(bool(first != 1 or (s == starts[focus] and ex.choice(2, "explicit_st"))))
            if stkeys[-1]:
                d["St"] = first
            if pre:
                d["P"] = pre
            nums += [s, d]
        kids_form = ex.choice(2, "kids")
        if kids_form:
            doc.objs[5] = {"Nums": nums, "Limits": [0, starts[-1]]}
            tree = {"Kids": [ref(doc, 5)]}
        else:
            tree = {"Nums": nums}
        npages = starts[-1] + 3
        info = {"ranges": [(s, st, first, pre.hex() if pre else None) for (s, st, first, pre) in ranges], "kids": kids_form, "stkeys": stkeys, "strict": strict}
        import pdfminer.settings as _settings
        _settings.STRICT = strict
        it = pd.PageLabels(tree).labels
        for page in range(npages):
            r = max(i for i in range(nr) if starts[i] <= page)
            s, st, first, pre = ranges[r]
            value = first + page - s
            if st in ("R", "r") and not 0 < value < 4000:
                break
            if st in ("A", "a") and value > 26 and "alpha_gt26" in EXCL:
                break
            exp = {None: "", b"p-": "p-", b"\xfe\xff\x00A": "A"}[pre] + ref_label(st, value)
            try:
                got = next(it)
            except symx.Violation:
                raise
            except Exception as e:
                ex.require(False, "labels raised %s: %s at page %d" % (type(e).__name__, e, page), page=page, **info)
            ex.require(got == exp, "label of page index %d is %r, ISO 32000-1 12.4.2 gives %r" % (page, got, exp), page=page, **info)

    def fn(ex):
        import pdfminer.settings as _settings
        old = _settings.STRICT
        try:
            return fn_body(ex)
        finally:
            _settings.STRICT = old

    def conc(m, info):
        return info
    return core.run_symx("H2_labels", fn, [pd.PageLabels.labels.fget, pd.PageLabels._format_page_label],
                         {"ranges": "1..3, gaps 1..3 pages", "styles": STYLES, "St": STARTS, "prefix": "none / PDFDocEncoding / UTF-16BE", "tree": "Nums at the root or in a kid", "settings.STRICT": "off / on (all dictionaries conformant)",
                          "note": "structure by symbolic choice, values concrete per path"}, timeout, concretize=conc, part=part)


def h3_roman(lo=1, hi=3999, timeout=200, part=None, **kw):
    import pdfminer.utils as u
    shims = numshim.install("utils")
    u.divmod = lambda a, b: ((a // b, a % b) if isinstance(a, SI) else divmod(a, b))

    def fn(ex):
        v = ex.int("value", lo, hi)
        try:
            got = u.format_int_roman(v)
        except symx.Violation:
            raise
        except Exception as e:
            ex.require(False, "format_int_roman raised %s: %s" % (type(e).__name__, e), v=v)
        # every digit has been decided on this path, so the value is determined
        m = ex.model()
        cv = symx.mval(m, v)
        ex.require(SB(v.e == cv), "path does not determine the value", v=v)
        ex.require(got == ref_roman(cv), "format_int_roman(%d) = %r, expected %r" % (cv, got, ref_roman(cv)), v=v)

    def conc(m, info):
        return {"value": symx.mval(m, info["v"])}
    return core.run_symx("H3_roman", fn, [u.format_int_roman], {"value": "symbolic %d..%d" % (lo, hi)}, timeout, concretize=conc,
                         shims={"namespace_shims": shims + ["utils.divmod on proxies"]}, part=part, int_lo=0, int_hi=12)


def h3_alpha(timeout=100, exclude=(), **kw):
    EXCL.update(exclude or ())
    import pdfminer.utils as u

    def fn(ex):
        hi = 26 if "alpha_gt26" in EXCL else 80
        n = 1 + ex.choice(hi, "n")
        got = u.format_int_alpha(n)
        ex.require(got == ref_alpha(n), "format_int_alpha(%d) = %r, ISO 32000-1 12.4.2 gives %r" % (n, got, ref_alpha(n)), n=n)

    def conc(m, info):
        return {"n": info["n"]}
    return core.run_symx("H3_alpha", fn, [u.format_int_alpha], {"value": "1..80 (1..26 while the known finding is open)"}, timeout, concretize=conc)


# --------------------------------------------------------------------------------------------- H4
POOL = [b"a", b"b", b"bb", b"c", b"d", b"e"]


def h4_names(timeout=150, part=None, **kw):
    import pdfminer.pdfdocument as pd
    from pdfminer.pdfdocument import PDFDestinationNotFound

    def fn(ex):
        present = [k for i, k in enumerate(POOL) if ex.choice(2, "in%d" % i)]
        if not present:
            raise symx.Abort()
        shape = ex.choice(3, "shape")
        doc = Doc()
        pd_doc = pd.PDFDocument.__new__(pd.PDFDocument)
        flat = lambda ks: [x for k in ks for x in (k, [k.decode(), 0])]
        if shape == 0 or len(present) < 2:
            root = {"Names": flat(present)}
        else:
            cut = 1 + ex.choice(len(present) - 1, "cut")
            doc.objs[11] = {"Names": flat(present[:cut]), "Limits": [present[0], present[cut - 1]]}
            doc.objs[12] = {"Names": flat(present[cut:]), "Limits": [present[cut], present[-1]]}
            kids = [ref(doc, 11), ref(doc, 12)]
            if shape == 2:
                doc.objs[13] = {"Kids": kids, "Limits": [present[0], present[-1]]}
                kids = [ref(doc, 13)]
            root = {"Kids": kids}
        doc.objs[20] = root
        legacy = ex.choice(2, "legacy")              # names in the PDF 1.1 /Dests dictionary of the catalog instead
        if legacy:
            pd_doc.catalog = {"Dests": {k.decode(): [k.decode(), 0] for k in present}}
        else:
            pd_doc.catalog = {"Names": {"Dests": ref(doc, 20)}}
        key = POOL[ex.choice(len(POOL), "key")]
        info = {"present": [k.decode() for k in present], "shape": shape, "legacy": legacy, "key": key.decode()}
        look = key.decode() if legacy else key
        try:
            got = pd_doc.get_dest(look)
        except PDFDestinationNotFound:
            got = "NOTFOUND"
        except symx.Violation:
            raise
        except Exception as e:
            ex.require(False, "get_dest raised %s: %s" % (type(e).__name__, e), **info)
        exp = [key.decode(), 0] if key in present else "NOTFOUND"
        ex.require(got == exp, "get_dest(%r) = %r, expected %r" % (look, got, exp), **info)

    def conc(m, info):
        return info
    return core.run_symx("H4_names", fn, [pd.PDFDocument.lookup_name, pd.PDFDocument.get_dest],
                         {"keys": "any non-empty subset of %r" % POOL, "shape": "leaf root / two leaves with Limits / intermediate node", "lookup": "every key of the pool", "legacy": "name tree or PDF 1.1 Dests"},
                         timeout, concretize=conc, part=part)


# --------------------------------------------------------------------------------------------- H5
def build_outline(parents, corrupt=None):
    """parents[i] = parent item index or -1 (top level) for items 0..n-1 in document order; returns (doc, pdfdoc, expected)"""
    import pdfminer.pdfdocument as pd
    doc = Doc()
    n = len(parents)
    kids = {-1: []}
    for i, p in enumerate(parents):
        kids.setdefault(p, []).append(i)
        kids.setdefault(i, [])
    oid = lambda i: 10 if i == -1 else 11 + i
    for i in range(-1, n):
        d = {} if i == -1 else {"Title": _otitle(i).encode(), "Dest": [i]}
        if kids[i]:
            d["First"] = ref(doc, oid(kids[i][0]))
            d["Last"] = ref(doc, oid(kids[i][-1]))
        if i >= 0:
            sib = kids[parents[i]]
            k = sib.index(i)
            if k + 1 < len(sib):
                d["Next"] = ref(doc, oid(sib[k + 1]))
            if k > 0:
                d["Prev"] = ref(doc, oid(sib[k - 1]))
            d["Parent"] = ref(doc, oid(parents[i]))
        doc.objs[oid(i)] = d
    if corrupt is not None:
        item, field, target = corrupt
        doc.objs[oid(item)][field] = ref(doc, oid(target))
        if field == "First":
            doc.objs[oid(item)].setdefault("Last", ref(doc, oid(target)))
    pdoc = pd.PDFDocument.__new__(pd.PDFDocument)
    pdoc.catalog = {"Outlines": ref(doc, 10)}
    exp = []

    def walk(i, level):
        for c in kids[i]:
            exp.append((level, _otitle(c), [c]))
            walk(c, level + 1)
    walk(-1, 1)
    return doc, pdoc, exp


def _otitle(i):
    return "" if i == 1 else "t%d" % i          # the second item has an EMPTY title: still an item


def h5_outlines(n=4, timeout=150, part=None, **kw):
    import pdfminer.pdfdocument as pd

    def fn(ex):
        parents = [-1]
        for i in range(1, n):
            parents.append(ex.choice(i + 1, "par%d" % i) - 1)          # any earlier item or top level
        # document order must be pre-order: the parent of i must be an ancestor-or-self of i-1 (or top level)
        for i in range(1, n):
            a = i - 1
            anc = {-1}
            while a != -1:
                anc.add(a)
                a = parents[a]
            if parents[i] not in anc:
                raise symx.Abort()
        corrupt = None
        if ex.choice(2, "corrupt"):
            corrupt = (ex.choice(n, "citem"), ["Next", "First"][ex.choice(2, "cfield")], ex.choice(n, "ctarget"))
        doc, pdoc, exp = build_outline(parents, corrupt)
        info = {"parents": parents, "corrupt": list(corrupt) if corrupt else None}
        try:
            got = [(lv, t, d) for (lv, t, d, a, se) in pdoc.get_outlines()]
        except symx.Violation:
            raise
        except WorkLimit as e:
            ex.require(False, "get_outlines does not terminate: %s" % e, **info)
        except RecursionError:
            ex.require(False, "get_outlines exhausts the recursion limit", **info)
        except Exception as e:
            ex.require(False, "get_outlines raised %s: %s" % (type(e).__name__, e), **info)
        if corrupt is None:
            ex.require(got == exp, "outline entries %r, pre-order with levels gives %r" % (got, exp), **info)
        else:
            ex.require(len(set(t for _, t, _ in got)) == len(got) and len(got) <= n, "a corrupted outline yields an item more than once: %r" % (got,), **info)

    def conc(m, info):
        return info
    return core.run_symx("H5_outlines", fn, [pd.PDFDocument.get_outlines], {"items": n, "forest": "every pre-order-consistent parent assignment", "corruption": "none, or one Next/First pointer redirected to any item"},
                         timeout, concretize=conc, part=part)


def h5_depth(timeout=100, **kw):
    """the Python stack depth of getobj calls must not grow along a sibling chain (else long flat outlines exhaust the recursion limit)"""
    import pdfminer.pdfdocument as pd
    import sys

    def fn(ex):
        depths = {}
        for n in (2, 4, 8):
            doc, pdoc, exp = build_outline([-1] * n)
            rec = []
            orig = doc.getobj

            def getobj(k, orig=orig, rec=rec):
                d = 0
                f = sys._getframe()
                while f is not None:
                    d += 1
                    f = f.f_back
                rec.append(d)
                return orig(k)
            doc.getobj = getobj
            got = list(pdoc.get_outlines())
            ex.require(len(got) == n, "flat outline of %d items yields %d" % (n, len(got)), n=n)
            depths[n] = max(rec)
        ex.require(depths[8] == depths[2], "stack depth grows with the number of sibling bookmarks (%r): a long flat outline will exhaust the recursion limit" % depths, n=1500)

    def conc(m, info):
        return {"n": info.get("n", 1500)}
    return core.run_symx("H5_depth", fn, [pd.PDFDocument.get_outlines], {"sibling_chains": [2, 4, 8], "replay": "1500 siblings through the real API"}, timeout, concretize=conc)


# --------------------------------------------------------------------------------------------- H6
def pdfdoc_table():
    """ISO 32000-1 Annex D.2, PDFDocEncoding: the defined codes only (0x00-0x17 other than HT/LF/CR, 0x7F, 0x9F, 0xAD are undefined and not claimed)"""
    t = {c: chr(c) for c in range(0x20, 0x7f)}
    t.update({9: "\t", 10: "\n", 13: "\r"})
    t.update(zip(range(0x18, 0x20), map(chr, [0x2D8, 0x2C7, 0x2C6, 0x2D9, 0x2DD, 0x2DB, 0x2DA, 0x2DC])))           # breve caron circumflex dotaccent hungarumlaut ogonek ring tilde
    t.update(zip(range(0x80, 0x9f), map(chr, [0x2022, 0x2020, 0x2021, 0x2026, 0x2014, 0x2013, 0x192, 0x2044, 0x2039, 0x203A, 0x2212, 0x2030, 0x201E, 0x201C, 0x201D, 0x2018,
                                              0x2019, 0x201A, 0x2122, 0xFB01, 0xFB02, 0x141, 0x152, 0x160, 0x178, 0x17D, 0x131, 0x142, 0x153, 0x161, 0x17E])))
    t[0xa0] = chr(0x20AC)
    t.update({c: chr(c) for c in range(0xa1, 0x100) if c != 0xad})
    return t


def h6_text(timeout=100, **kw):
    import pdfminer.utils as u
    table = pdfdoc_table()

    def fn(ex):
        b = ex.int("b", 0, 255)
        c = b.__index__()                        # table lookup: the byte is concretised by forking (256 paths)
        one = u.decode_text(bytes([c]))
        ex.require(len(one) == 1, "decode_text of one byte gives %r" % one, c=c)
        if c in table:
            ex.require(one == table[c], "byte %#x decodes to %r, PDFDocEncoding (ISO 32000-1 Annex D.2) says %r" % (c, one, table[c]), c=c)
        two = u.decode_text(bytes([0x41, c, 0x42]))
        ex.require(two == "A" + one + "B", "decode_text is not byte-wise: %r" % two, c=c)
        # BOM: UTF-16BE
        ex.require(u.decode_text(b"\xfe\xff\x00" + bytes([c])) == bytes([0, c]).decode("utf-16-be"), "UTF-16BE string with BOM mis-decoded", c=c)
        ex.require(u.decode_text(b"\xfe\xff" + bytes([c, 0x3d])) == bytes([c, 0x3d]).decode("utf-16-be", "ignore"), "UTF-16BE string with BOM mis-decoded", c=c)

    def conc(m, info):
        return {"c": info["c"]}
    return core.run_symx("H6_text", fn, [u.decode_text], {"byte": "symbolic 0..255 (concretised: table lookup)", "checks": "one char per byte, the Annex D.2 character for every defined code, byte-wise, UTF-16BE after BOM"},
                         timeout, concretize=conc, int_lo=0, int_hi=255)


# --------------------------------------------------------------------------------------------- replay
def replay(harness, inp):
    Doc.LIMIT = 10 ** 5
    import pdfminer.utils as u
    import pdfminer.pdfdocument as pd
    if harness == "H3_roman":
        v = inp["value"]
        try:
            got = u.format_int_roman(v)
        except Exception as e:
            return "format_int_roman(%d) raised %r" % (v, e)
        return None if got == ref_roman(v) else "format_int_roman(%d) = %r, expected %r" % (v, got, ref_roman(v))
    if harness == "H3_alpha":
        n = inp["n"]
        got = u.format_int_alpha(n)
        return None if got == ref_alpha(n) else "format_int_alpha(%d) = %r, ISO 32000-1 12.4.2 gives %r" % (n, got, ref_alpha(n))
    if harness == "H1_numtree":
        import pdfminer.data_structures as ds
        keys, shape = inp["keys"], inp["shape"]
        doc = Doc()
        vals = ["v%d" % i for i in range(len(keys))]
        pairs = [x for kv in zip(keys, vals) for x in kv]
        if shape == 0:
            root = {"Nums": pairs}
        else:
            doc.objs[11] = {"Nums": pairs[:2]}
            doc.objs[12] = {"Nums": pairs[2:]}
            kids = [ref(doc, 11), ref(doc, 12)]
            if shape == 2:
                doc.objs[13] = {"Kids": kids}
                kids = [ref(doc, 13)]
            root = {"Kids": kids}
        exp = sorted(zip(keys, vals), key=lambda t: t[0])
        for attempt in ("first", "second"):           # the same tree flattened twice in one process: both evaluations have to be right
            got = ds.NumberTree(root).values
            if not (sorted(got) == sorted(exp) and [g[0] for g in got] == sorted(keys)):
                return "NumberTree(%r).values = %r on the %s evaluation, expected %r" % (root, got, attempt, exp)
        return None
    if harness == "H2_labels":
        from pdfminer.psparser import LIT
        ranges = [(s, st, first, bytes.fromhex(pre) if pre else None) for (s, st, first, pre) in inp["ranges"]]
        nums = []
        stkeys = inp.get("stkeys") or [True] * len(ranges)
        for (s, st, first, pre), has_st in zip(ranges, stkeys):
            d = {"St": first} if has_st else {}
            if st:
                d["S"] = LIT(st)
            if pre:
                d["P"] = pre
            nums += [s, d]
        if inp.get("kids"):
            doc = Doc()
            doc.objs[5] = {"Nums": nums, "Limits": [0, ranges[-1][0]]}
            tree = {"Kids": [ref(doc, 5)]}
        else:
            tree = {"Nums": nums}
        page = inp["page"]
        r = max(i for i in range(len(ranges)) if ranges[i][0] <= page)
        s, st, first, pre = ranges[r]
        exp = {None: "", b"p-": "p-", b"\xfe\xff\x00A": "A"}[pre] + ref_label(st, first + page - s)
        import pdfminer.settings as _settings
        old_strict, _settings.STRICT = _settings.STRICT, bool(inp.get("strict", False))
        try:
            for attempt in ("first", "second"):           # the labels read twice in one process: both evaluations have to be right
                it = pd.PageLabels(tree).labels
                try:
                    got = [next(it) for _ in range(page + 1)][-1]
                except Exception as e:
                    return "PageLabels(%r), settings.STRICT=%r: label of page %d raised %r" % (tree, _settings.STRICT, page, e)
                if got != exp:
                    return "PageLabels(%r), settings.STRICT=%r, %s evaluation: label of page index %d is %r, ISO 32000-1 12.4.2 gives %r" % (
                        tree, _settings.STRICT, attempt, page, got, exp)
        finally:
            _settings.STRICT = old_strict
        return None
    if harness == "H4_names":
        from pdfminer.pdfdocument import PDFDestinationNotFound
        present = [k.encode() for k in inp["present"]]
        key = inp["key"].encode()
        doc = Doc()
        flat = lambda ks: [x for k in ks for x in (k, [k.decode(), 0])]
        pd_doc = pd.PDFDocument.__new__(pd.PDFDocument)
        if inp["legacy"]:
            pd_doc.catalog = {"Dests": {k.decode(): [k.decode(), 0] for k in present}}
            look = key.decode()
        else:
            look = key
            if inp["shape"] == 0 or len(present) < 2:
                root = {"Names": flat(present)}
            else:
                cut = max(1, len(present) // 2)
                doc.objs[11] = {"Names": flat(present[:cut]), "Limits": [present[0], present[cut - 1]]}
                doc.objs[12] = {"Names": flat(present[cut:]), "Limits": [present[cut], present[-1]]}
                kids = [ref(doc, 11), ref(doc, 12)]
                if inp["shape"] == 2:
                    doc.objs[13] = {"Kids": kids, "Limits": [present[0], present[-1]]}
                    kids = [ref(doc, 13)]
                root = {"Kids": kids}
            doc.objs[20] = root
            pd_doc.catalog = {"Names": {"Dests": ref(doc, 20)}}
        try:
            got = pd_doc.get_dest(look)
        except PDFDestinationNotFound:
            got = "NOTFOUND"
        except Exception as e:
            return "name tree with keys %r (shape %d): get_dest(%r) raised %r" % (present, inp["shape"], look, e)
        exp = [key.decode(), 0] if key in present else "NOTFOUND"
        return None if got == exp else "name tree with keys %r (shape %d, legacy=%s): get_dest(%r) = %r, expected %r" % (present, inp["shape"], inp["legacy"], look, got, exp)
    if harness == "H5_outlines":
        corrupt = tuple(inp["corrupt"]) if inp["corrupt"] else None
        doc, pdoc, exp = build_outline(inp["parents"], corrupt)
        try:
            got = [(lv, t, d) for (lv, t, d, a, se) in pdoc.get_outlines()]
        except BaseException as e:
            return "outline with parents %r, corrupted pointer %r: get_outlines raised %r" % (inp["parents"], corrupt, e)
        if corrupt is None:
            return None if got == exp else "outline with parents %r: entries %r, pre-order gives %r" % (inp["parents"], got, exp)
        return None if len(set(t for _, t, _ in got)) == len(got) else "outline with parents %r, corrupted %r yields an item twice: %r" % (inp["parents"], corrupt, got)
    if harness == "H5_depth":
        doc, pdoc, exp = build_outline([-1] * inp["n"])
        try:
            n = len(list(pdoc.get_outlines()))
        except RecursionError:
            return "a conforming outline with %d bookmarks on one level raises RecursionError" % inp["n"]
        return None if n == inp["n"] else "flat outline of %d items yields %d" % (inp["n"], n)
    if harness == "H6_text":
        c = inp["c"]
        one = u.decode_text(bytes([c]))
        t = pdfdoc_table()
        if len(one) != 1 or (c in t and one != t[c]):
            return "decode_text(%r) = %r, PDFDocEncoding (ISO 32000-1 Annex D.2) has %r" % (bytes([c]), one, t.get(c))
        if u.decode_text(bytes([0x41, c, 0x42])) != "A" + one + "B":
            return "decode_text is not byte-wise for %#x" % c
        if u.decode_text(b"\xfe\xff\x00" + bytes([c])) != bytes([0, c]).decode("utf-16-be"):
            return "decode_text(BOM + 00 %02x) = %r" % (c, u.decode_text(b"\xfe\xff\x00" + bytes([c])))
        return None
    raise KeyError(harness)


def jobs(tier):
    J = [Job("H1_numtree", "h1_numtree", {}, 150), Job("H3_alpha", "h3_alpha", {}, 60), Job("H5_depth", "h5_depth", {}, 60), Job("H6_text", "h6_text", {}, 100)]
    for k in range(4):
        J.append(Job("H3_roman:%d" % k, "h3_roman", {"lo": 1 + 1000 * k, "hi": min(3999, 1000 * (k + 1))}, 300, "H3_roman"))
    if tier == "quick":
        for k in range(4):
            J.append(Job("H2_labels:%d" % k, "h2_labels", {"part": [k, 4, 8]}, 300, "H2_labels"))
        J.append(Job("H4_names", "h4_names", {}, 200, "H4_names"))
        J.append(Job("H5_outlines:4", "h5_outlines", {"n": 4}, 200, "H5_outlines"))
    else:
        for k in range(16):
            J.append(Job("H2_labels:%d" % k, "h2_labels", {"part": [k, 16, 10]}, 1800, "H2_labels"))
        J.append(Job("H4_names", "h4_names", {}, 600, "H4_names"))
        for k in range(4):
            J.append(Job("H5_outlines:5:%d" % k, "h5_outlines", {"n": 5, "part": [k, 4, 7]}, 900, "H5_outlines"))
    return J
