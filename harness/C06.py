"""C06 - simple fonts: code -> Unicode / width follow encoding, glyph names, ToUnicode.

H1 EncodingDB.get_encoding: Differences overlay (ISO 32000-1 9.6.6) for symbolically chosen arrays, and the shared base tables stay unchanged.
H2 encodingdb.name2unicode vs the Adobe Glyph List algorithm on names assembled from symbolic components / hex digits.
H3 PDFSimpleFont.to_unichr precedence: ToUnicode, else encoding, else PDFUnicodeNotDefined -> '(cid:N)'.
H4 widths: real PDFType1Font / PDFType3Font constructors + char_width with symbolic FirstChar, Widths, MissingWidth, FontMatrix, code.
"""
import z3

from engine import symx
from engine.symx import SB, SI, SV
from harness import numshim
from lib import core
from lib.core import Job

ASSUMPTIONS = [
    "the 4x256 base-encoding tables and the ~4000-entry glyph list are static data: membership is taken from them, their contents are not claimed",
    "uniXXXX / uXXXXXX names use upper-case hexadecimal digits (AGL); a name without mapping may be signalled by KeyError or ValueError",
    "H4: a font that is not one of the standard 14; floats are exact reals",
]
OUTSIDE = ["embedded Type 1 programs with a built-in encoding (tokenizer claims: C01/C14)", "standard-14 metrics tables", "Differences arrays longer than 4 items"]

HEX = "0147D8FE"
CODES = [0, 65, 66, 127, 255]
NAMES = ["A", "B", "uni0041", "u1F600", "foo", "A.sc", "f_i", "uniD800", ".notdef"]


def agl(name):
    """reference: https://github.com/adobe-type-tools/agl-specification section 2 (returns None when there is no mapping)"""
    from pdfminer.glyphlist import glyphname2unicode
    name = name.split(".")[0]
    out = ""
    for comp in name.split("_"):
        if comp in glyphname2unicode:
            out += glyphname2unicode[comp]
            continue
        r = None
        if comp.startswith("uni") and len(comp) > 3 and (len(comp) - 3) % 4 == 0 and all(c in "0123456789ABCDEF" for c in comp[3:]):
            vals = [int(comp[i:i + 4], 16) for i in range(3, len(comp), 4)]
            if all(not (0xD800 <= v <= 0xDFFF) for v in vals):
                r = "".join(map(chr, vals))
        elif comp.startswith("u") and 5 <= len(comp) <= 7 and all(c in "0123456789ABCDEF" for c in comp[1:]):
            v = int(comp[1:], 16)
            if v <= 0x10FFFF and not (0xD800 <= v <= 0xDFFF):
                r = chr(v)
        if r is None:
            return None
        out += r
    return out if out else None


def _n2u(name):
    import pdfminer.encodingdb as ed
    try:
        return ed.name2unicode(name)
    except (KeyError, ValueError):
        return None


SUFFIXES = ["", ".sc", ".", ".a.b", ".sc_B", ".a_uni0042.b_"]      # everything from the first period on is dropped BEFORE the name is split at underscores


def h2_names(kind="uni4", timeout=200, part=None, **kw):
    import pdfminer.encodingdb as ed

    def fn(ex):
        hx = lambda tag, n: "".join(HEX[ex.choice(len(HEX), "%s%d" % (tag, i))] for i in range(n))
        if kind == "uni4":
            name = "uni" + hx("h", 4)
        elif kind == "uni8":
            name = "uni" + hx("h", 4) + ["0041", "D800", "FFFF"][ex.choice(3, "second")]
        elif kind == "u":
            n = 3 + ex.choice(5, "n")              # 3..7 digits: only 4..6 are valid
            name = "u" + "".join("01DF"[ex.choice(4, "h%d" % i)] for i in range(n))
        else:
            comps = []
            k = 1 + ex.choice(3, "k")
            pool = ["A", "B", "uni0041", "u1F600", "foo", "", "uniD800", "uni", "u12", "Euro", "uni00410042", "unia"]
            for i in range(k):
                comps.append(pool[ex.choice(len(pool), "c%d" % i)])
            name = "_".join(comps) + SUFFIXES[ex.choice(len(SUFFIXES), "suffix")]
        got = _n2u(name)
        exp = agl(name)
        ex.require(got == exp, "name2unicode(%r) = %r, the Adobe Glyph List algorithm gives %r" % (name, got, exp), name=name)

    def conc(m, info):
        return info
    return core.run_symx("H2_names", fn, [ed.name2unicode, ed.raise_key_error_for_invalid_unicode],
                         {"names": {"uni4": "uni + 4 symbolic hex digits", "uni8": "uni + 4 symbolic digits + second group", "u": "u + 3..7 symbolic hex digits",
                                    "comp": "1..3 components from a pool joined by '_' with optional dot suffix"}[kind], "hex_alphabet": HEX}, timeout, concretize=conc, part=part)


def h1_differences(timeout=200, part=None, maxitems=3, **kw):
    import pdfminer.encodingdb as ed
    from pdfminer.psparser import LIT

    def fn(ex):
        base = ["StandardEncoding", "MacRomanEncoding", "WinAnsiEncoding", "PDFDocEncoding", "Bogus"][ex.choice(5, "base")]
        n = ex.choice(maxitems + 1, "n")
        diff, spec = [], []
        for i in range(n):
            if ex.choice(2, "isint%d" % i):
                c = CODES[ex.choice(len(CODES), "code%d" % i)]
                diff.append(c)
                spec.append(c)
            else:
                nm = NAMES[ex.choice(len(NAMES), "name%d" % i)]
                diff.append(LIT(nm))
                spec.append(nm)
        before = {k: dict(v) for k, v in ed.EncodingDB.encodings.items()}
        got = ed.EncodingDB.get_encoding(base, diff)
        info = {"base": base, "diff": spec}
        exp = dict(before.get(base, before["StandardEncoding"]))
        code = 0
        for x in spec:
            if isinstance(x, int):
                code = x
            else:
                u = agl(x)
                if u is not None:
                    exp[code] = u
                code += 1
        ex.require(got == exp, "get_encoding(%r, %r) differs from the base table overlaid with the Differences at codes %r" % (
            base, spec, sorted(k for k in set(got) | set(exp) if got.get(k) != exp.get(k))), **info)
        after = {k: dict(v) for k, v in ed.EncodingDB.encodings.items()}
        ex.require(after == before, "get_encoding modified a shared base-encoding table", **info)
        again = ed.EncodingDB.get_encoding(base, None)
        ex.require(again == before.get(base, before["StandardEncoding"]), "a later font without Differences sees the earlier font's Differences", **info)

    def conc(m, info):
        return info
    return core.run_symx("H1_differences", fn, [ed.EncodingDB.get_encoding], {"base": "4 base encodings + an unknown name", "Differences": "0..%d items, each" % maxitems + "  a code from %r or a name from %r" % (CODES, NAMES)},
                         timeout, concretize=conc, part=part)


def h3_precedence(timeout=100, **kw):
    import pdfminer.pdffont as pf
    import pdfminer.cmapdb as cm
    import pdfminer.converter as cv
    import pdfminer.pdfinterp as pi

    def fn(ex):
        code = CODES[ex.choice(len(CODES), "code")]
        in_tu = ex.choice(3, "tounicode")          # no map / map without the code / map with the code
        in_enc = ex.choice(2, "enc")
        f = pf.PDFSimpleFont.__new__(pf.PDFSimpleFont)
        f.cid2unicode = {code: "E"} if in_enc else {}
        f.unicode_map = None
        if in_tu:
            f.unicode_map = cm.FileUnicodeMap()
            f.unicode_map.add_cid2unichr(code + 1, ord("X"))
            if in_tu == 2:
                f.unicode_map.add_cid2unichr(code, ord("T"))
        info = {"code": code, "tounicode": in_tu, "enc": in_enc}
        try:
            got = f.to_unichr(code)
        except pf.PDFUnicodeNotDefined:
            got = None
        exp = "T" if in_tu == 2 else ("E" if in_enc else None)
        ex.require(got == exp, "to_unichr(%d) = %r, expected %r (ToUnicode first, then the encoding, else undefined)" % (code, got, exp), **info)
        dev = cv.PDFLayoutAnalyzer(pi.PDFResourceManager())
        ex.require(dev.handle_undefined_char(f, code) == "(cid:%d)" % code, "placeholder for an undefined code is not (cid:N)", **info)

    def conc(m, info):
        return info
    return core.run_symx("H3_precedence", fn, [pf.PDFSimpleFont.to_unichr, cv.PDFLayoutAnalyzer.handle_undefined_char], {"code": CODES, "membership": "symbolic in ToUnicode / encoding"},
                         timeout, concretize=conc)


def h4_widths(kind="Type1", timeout=200, part=None, **kw):
    import pdfminer.pdffont as pf
    import pdfminer.pdfinterp as pi
    from pdfminer.psparser import LIT
    shims = numshim.install("pdffont", "pdftypes", "casting", "utils")

    def fn(ex):
        first = ex.int("first", 0, 4)
        n = ex.choice(4, "n")
        ws = [ex.real("w%d" % i, -2000, 2000) for i in range(n)]
        missing = ex.real("missing", 0, 2000)
        has_missing = ex.choice(2, "has_missing")
        code = ex.int("code", 0, 8)
        spec = {"Type": LIT("Font"), "Subtype": LIT(kind), "BaseFont": LIT("NotAStandardFont"), "FirstChar": first, "Widths": list(ws),
                "FontDescriptor": dict({"FontName": LIT("X"), "FontBBox": [0, -200, 1000, 800]}, **({"MissingWidth": missing} if has_missing else {}))}
        info = {"first": first, "ws": ws, "missing": missing, "has_missing": has_missing, "code": code, "kind": kind}
        if kind == "Type3":
            fm = [ex.real("m%d" % i, -1, 1) for i in range(4)] + [0, 0]
            spec["FontMatrix"] = fm
            spec["FontBBox"] = [0, 0, 1000, 1000]
            info["fm"] = fm
            font = pf.PDFType3Font(pi.PDFResourceManager(), spec)
            scale = None
        else:
            font = pf.PDFType1Font(pi.PDFResourceManager(), spec)
        got = font.char_width(code)
        # expected: Widths[code - FirstChar] when in range, else MissingWidth (default 0); times 1/1000, or the FontMatrix x-scale for Type 3
        w = symx.zr(missing) if has_missing else z3.RealVal(0)
        for i in range(n - 1, -1, -1):
            w = z3.If(code.e == first.e + i, symx.zr(ws[i]), w)
        if kind == "Type3":
            exp = w * (symx.zr(fm[0]) + symx.zr(fm[2]))          # the horizontal component of FontMatrix applied to (1, 1); judged on the observable advance only
        else:
            exp = w / 1000
        if symx.poly_equal(got, SV(exp)):
            ex.reached_flag = True
        else:
            ex.require(SB(symx.zr(got) == exp), "char_width differs from Widths[code-FirstChar] / MissingWidth scaled by the font matrix", **info)

    def conc(m, info):
        g = lambda x: symx.mval(m, x)
        return {"kind": info["kind"], "first": g(info["first"]), "ws": [g(w) for w in info["ws"]], "missing": g(info["missing"]), "has_missing": info["has_missing"], "code": g(info["code"]),
                "fm": [g(x) for x in info.get("fm", [])]}
    return core.run_symx("H4_widths", fn, [pf.PDFType1Font.__init__, pf.PDFType3Font.__init__, pf.PDFFont.char_width, pf.PDFFont.__init__],
                         {"font": kind, "FirstChar": "symbolic 0..4", "Widths": "0..3 symbolic reals", "MissingWidth": "absent or symbolic", "code": "symbolic 0..8",
                          "FontMatrix": "symbolic (Type 3)"}, timeout, concretize=conc, shims={"namespace_shims": shims}, part=part, int_lo=-1, int_hi=12)


# ------------------------------------------------------------------------------------- H5 the fonts of a resource dictionary
class _Doc:
    def __init__(self):
        self.objs = {}

    def getobj(self, n):
        from pdfminer.pdfexceptions import PDFObjectNotFound
        if n not in self.objs:
            raise PDFObjectNotFound(n)
        return self.objs[n]


def _resources(order, inline, letters="XYZ"):
    """Font resource dictionary with the fonts in `order`; font i maps code 65 to letters[i] and is written inline or as an indirect reference"""
    from pdfminer.psparser import LIT
    from pdfminer.pdftypes import PDFObjRef
    doc = _Doc()
    fonts = {}
    for i in order:
        spec = {"Type": LIT("Font"), "Subtype": LIT("Type1"), "BaseFont": LIT("Custom%d" % i), "FirstChar": 65, "LastChar": 65, "Widths": [100 * (i + 3)],
                "Encoding": {"Type": LIT("Encoding"), "Differences": [65, LIT(letters[i])]}}
        if inline[i]:
            fonts["F%d" % i] = spec
        else:
            doc.objs[10 + i] = spec
            fonts["F%d" % i] = PDFObjRef(doc, 10 + i)
    return {"Font": fonts}


PERMS3 = [(0, 1, 2), (0, 2, 1), (1, 0, 2), (1, 2, 0), (2, 0, 1), (2, 1, 0)]


def _check_resources(order, inline, caching, twice):
    import pdfminer.pdfinterp as pi
    from pdfminer.pdfdevice import PDFDevice
    rm = pi.PDFResourceManager(caching=caching)
    it = pi.PDFPageInterpreter(rm, PDFDevice(rm))
    for _ in range(2 if twice else 1):                   # a second page with the same resources (cached fonts)
        it.init_resources(_resources(order, inline))
        for i in order:
            f = it.fontmap.get("F%d" % i)
            if f is None:
                return "font F%d is missing from the font map" % i
            got = (f.to_unichr(65), f.char_width(65))
            exp = ("XYZ"[i], 100 * (i + 3) * 0.001)
            if got[0] != exp[0] or abs(got[1] - exp[1]) > 1e-12:
                return "fonts in the order %r (%s), caching=%s: F%d shows code 65 as %r with width %r, its own dictionary says %r" % (
                    ["F%d" % k for k in order], ", ".join("F%d %s" % (k, "inline" if inline[k] else "indirect") for k in order), caching, i, got[0], got[1], exp)
    return None


def h5_resources(timeout=100, **kw):
    """PDFPageInterpreter.init_resources on a Font dictionary of three simple fonts, each inline or indirect, in every order, caching on/off, once or twice: every resource name
    gets the font of its own dictionary (text of code 65 and its width)"""
    import pdfminer.pdfinterp as pi

    def fn(ex):
        order = PERMS3[ex.choice(6, "order")]
        inline = [ex.choice(2, "inline%d" % i) == 1 for i in range(3)]
        caching = ex.choice(2, "caching") == 1
        twice = ex.choice(2, "twice") == 1
        r = _check_resources(order, inline, caching, twice)
        ex.require(r is None, r or "", order=list(order), inline=inline, caching=caching, twice=twice)

    def conc(m, info):
        return info
    return core.run_symx("H5_resources", fn, [pi.PDFPageInterpreter.init_resources, pi.PDFResourceManager.get_font], {"fonts": "three Type1 fonts with different Differences and Widths",
                                                                                                                        "each": "inline dictionary or indirect reference", "order": "all 6", "caching": "on/off", "pages": "1 or 2"},
                         timeout, concretize=conc)


def h6_getfont(timeout=200, part=None, **kw):
    """every 3-call get_font history over nine fonts, among them two Type 1 fonts that recover DIFFERENT built-in encodings from their embedded font programs and two uses of a
    standard-14 font with different /Differences: each font shows the text and widths its own dictionary / font program gives (C12.H4, run here as well)"""
    from harness import C12
    r = C12.h4_getfont(timeout=timeout, part=part)
    r["harness"] = "H6_getfont"
    return r


def replay(harness, inp):
    if harness == "H6_getfont":
        from harness import C12
        return C12.replay("H4_getfont", inp)
    import pdfminer.encodingdb as ed
    if harness == "H5_resources":
        return _check_resources(tuple(inp["order"]), inp["inline"], inp["caching"], inp["twice"])
    if harness == "H2_names":
        got, exp = _n2u(inp["name"]), agl(inp["name"])
        return None if got == exp else "name2unicode(%r) = %r, the Adobe Glyph List algorithm gives %r" % (inp["name"], got, exp)
    if harness == "H1_differences":
        from pdfminer.psparser import LIT
        diff = [x if isinstance(x, int) else LIT(x) for x in inp["diff"]]
        before = {k: dict(v) for k, v in ed.EncodingDB.encodings.items()}
        got = ed.EncodingDB.get_encoding(inp["base"], diff)
        exp = dict(before.get(inp["base"], before["StandardEncoding"]))
        code = 0
        for x in inp["diff"]:
            if isinstance(x, int):
                code = x
            else:
                u = agl(x)
                if u is not None:
                    exp[code] = u
                code += 1
        if got != exp:
            d = sorted(k for k in set(got) | set(exp) if got.get(k) != exp.get(k))
            return "get_encoding(%r, %r): codes %r map to %r, the overlay gives %r" % (inp["base"], inp["diff"], d, [got.get(k) for k in d], [exp.get(k) for k in d])
        after = {k: dict(v) for k, v in ed.EncodingDB.encodings.items()}
        if after != before:
            return "get_encoding(%r, %r) modified the shared table(s) %r" % (inp["base"], inp["diff"], [k for k in before if before[k] != after[k]])
        return None
    if harness == "H3_precedence":
        import pdfminer.pdffont as pf
        import pdfminer.cmapdb as cm
        code = inp["code"]
        f = pf.PDFSimpleFont.__new__(pf.PDFSimpleFont)
        f.cid2unicode = {code: "E"} if inp["enc"] else {}
        f.unicode_map = None
        if inp["tounicode"]:
            f.unicode_map = cm.FileUnicodeMap()
            f.unicode_map.add_cid2unichr(code + 1, ord("X"))
            if inp["tounicode"] == 2:
                f.unicode_map.add_cid2unichr(code, ord("T"))
        try:
            got = f.to_unichr(code)
        except pf.PDFUnicodeNotDefined:
            got = None
        exp = "T" if inp["tounicode"] == 2 else ("E" if inp["enc"] else None)
        return None if got == exp else "to_unichr(%d) = %r, expected %r" % (code, got, exp)
    if harness == "H4_widths":
        import pdfminer.pdffont as pf
        import pdfminer.pdfinterp as pi
        from pdfminer.psparser import LIT
        from lib.core import fl
        kind = inp["kind"]
        ws = [fl(w) for w in inp["ws"]]
        spec = {"Type": LIT("Font"), "Subtype": LIT(kind), "BaseFont": LIT("NotAStandardFont"), "FirstChar": inp["first"], "Widths": ws,
                "FontDescriptor": dict({"FontName": LIT("X"), "FontBBox": [0, -200, 1000, 800]}, **({"MissingWidth": fl(inp["missing"])} if inp["has_missing"] else {}))}
        if kind == "Type3":
            spec["FontMatrix"] = [fl(x) for x in inp["fm"]]
            spec["FontBBox"] = [0, 0, 1000, 1000]
            font = pf.PDFType3Font(pi.PDFResourceManager(), spec)
            scale = spec["FontMatrix"][0] + spec["FontMatrix"][2]
        else:
            font = pf.PDFType1Font(pi.PDFResourceManager(), spec)
            scale = 0.001
        i = inp["code"] - inp["first"]
        w = ws[i] if 0 <= i < len(ws) else (fl(inp["missing"]) if inp["has_missing"] else 0)
        got = font.char_width(inp["code"])
        return None if abs(got - w * scale) <= 1e-9 * max(1, abs(got)) else "%s font FirstChar=%d Widths=%r MissingWidth=%r: char_width(%d) = %r, expected %r" % (
            kind, inp["first"], ws, inp["missing"] if inp["has_missing"] else None, inp["code"], got, w * scale)
    raise KeyError(harness)


def jobs(tier):
    J = [Job("H3_precedence", "h3_precedence", {}, 100), Job("H5_resources", "h5_resources", {}, 100), Job("H6_getfont", "h6_getfont", {}, 300)]
    for kind in ("uni4", "uni8", "u", "comp"):
        for k in range(2):
            J.append(Job("H2_names:%s:%d" % (kind, k), "h2_names", {"kind": kind, "part": [k, 2, 6]}, 300, "H2_names"))
    np_ = 6 if tier == "quick" else 16
    for k in range(np_):
        J.append(Job("H1_differences:%d" % k, "h1_differences", {"part": [k, np_, 9], "maxitems": 3 if tier == "quick" else 4}, 300 if tier == "quick" else 1800, "H1_differences"))
    for kind in ("Type1", "Type3"):
        for k in range(2):
            J.append(Job("H4_widths:%s:%d" % (kind, k), "h4_widths", {"kind": kind, "part": [k, 2, 6]}, 300, "H4_widths"))
    return J
