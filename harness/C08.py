"""C08 - layout analysis conserves content and keeps its hierarchy well-formed.

Real LTChar objects (built with __new__ + set_bbox; symbolic real boxes) are put on a real LTPage and the real
LTPage.analyze(LAParams) runs; the structural invariants of the resulting tree are asserted as ONE z3 formula per path.
Families: two glyphs of fixed size at symbolic positions, two glyphs with symbolic position and size, degenerate glyphs
(zero width / height, blank / empty text), three glyphs of fixed size; LAParams from a list of concrete vectors.
"""
import z3

from engine import symx
from engine.symx import SB, SV, SI
from harness import numshim
from lib import core
from lib.core import Job, fl

ASSUMPTIONS = [
    "floats are exact reals; glyph coordinates within [-10, 60] on a page (0,0,50,50) (well below pdfminer's INF sentinel)",
    "LAParams are concrete per job (symbolic LAParams are used in the two-object harnesses of C09)",
]
OUTSIDE = ["more than 3 glyphs", "figures nested deeper than one level", "IEEE rounding"]

VECS = {
    "default": dict(),
    "zero": dict(line_overlap=0, char_margin=0, line_margin=0, word_margin=0),
    "neg": dict(line_overlap=-1, char_margin=-1, line_margin=-1, word_margin=-1),
    "big": dict(line_overlap=0.1, char_margin=50, line_margin=50, word_margin=5),
    "none": dict(boxes_flow=None),
    "vert": dict(detect_vertical=True),
    "alltexts": dict(all_texts=True, boxes_flow=-1.0),
}


# three separate one-glyph boxes at equal distances are grouped in an order decided by id() (object addresses, DESIGN section 5): the engine's replay of a decision
# prefix then diverges, so the three-box family leaves out the vectors ("zero", "neg") that make every glyph its own box
STACK_VECS = ["default", "big", "none", "vert", "alltexts"]


def setup():
    import pdfminer.utils as u
    s = numshim.install("utils", "layout")
    u.int = symx.sym_int          # drange / Plane grid cells
    u.range = symx.sym_range
    return s


def zr(x):
    return symx.zr(x)


def zmin(vals):
    r = zr(vals[0])
    for v in vals[1:]:
        v = zr(v)
        r = z3.If(v < r, v, r)
    return r


def zmax(vals):
    r = zr(vals[0])
    for v in vals[1:]:
        v = zr(v)
        r = z3.If(v > r, v, r)
    return r


def mkchar(ex, name, text, lo, hi, size=None, maxsize=20, degenerate=None):
    from pdfminer.layout import LTChar
    c = LTChar.__new__(LTChar)
    x0, y0 = ex.real(name + "x0", lo, hi), ex.real(name + "y0", lo, hi)
    if size is not None:
        w = h = size
        if degenerate == "w":
            w = 0
        elif degenerate == "h":
            h = 0
    else:
        w, h = ex.real(name + "w", 0, maxsize), ex.real(name + "h", 0, maxsize)
        ex.assume(w > 0)
        ex.assume(h > 0)
    c.set_bbox((x0, y0, x0 + w, y0 + h))
    c._text = text
    c.size = h
    c.upright = True
    c.fontname = "F"
    c.adv = w
    c.matrix = (1, 0, 0, 1, x0, y0)
    return c


def mkfixed(text, x0, y0, size):
    from pdfminer.layout import LTChar
    c = LTChar.__new__(LTChar)
    c.set_bbox((x0, y0, x0 + size, y0 + size))
    c._text, c.size, c.upright, c.fontname, c.adv, c.matrix = text, size, True, "F", size, (1, 0, 0, 1, x0, y0)
    return c


def leaves(o, out):
    from pdfminer.layout import LTContainer, LTAnno
    if isinstance(o, LTContainer):
        for c in o:
            leaves(c, out)
    elif not isinstance(o, LTAnno):
        out.append(o)
    return out


def tree_formula(o, conj, problems):
    """collect z3 constraints (non-forking) and structural problems (concrete)"""
    from pdfminer.layout import (LTTextLine, LTTextBox, LTTextGroup, LTComponent, LTAnno, LTContainer, LTTextBoxHorizontal, LTTextBoxVertical,
                                 LTTextLineHorizontal, LTTextLineVertical, LTText)
    if isinstance(o, (LTTextLine, LTTextBox, LTTextGroup)):
        ms = [m for m in o if isinstance(m, LTComponent)]
        if not ms:
            problems.append("empty %s" % type(o).__name__)
        else:
            conj += [zr(o.x0) == zmin([m.x0 for m in ms]), zr(o.y0) == zmin([m.y0 for m in ms]),
                     zr(o.x1) == zmax([m.x1 for m in ms]), zr(o.y1) == zmax([m.y1 for m in ms])]
        if isinstance(o, LTTextLine):
            objs = list(o)
            if not (objs and isinstance(objs[-1], LTAnno) and objs[-1].get_text() == "\n"):
                problems.append("line does not end in a line break")
        if isinstance(o, LTTextBoxHorizontal):
            if not all(isinstance(l, LTTextLineHorizontal) for l in o):
                problems.append("horizontal box holds a non-horizontal line")
            ys = [l.y1 for l in o]
            conj += [zr(a) >= zr(b) for a, b in zip(ys, ys[1:])]
        if isinstance(o, LTTextBoxVertical):
            if not all(isinstance(l, LTTextLineVertical) for l in o):
                problems.append("vertical box holds a non-vertical line")
            xs = [l.x1 for l in o]
            conj += [zr(a) >= zr(b) for a, b in zip(xs, xs[1:])]
        if isinstance(o, (LTTextLine, LTTextBox)):
            if o.get_text() != "".join(m.get_text() for m in o if isinstance(m, LTText)):
                problems.append("text of a container is not the concatenation of its members' text")
    if isinstance(o, LTContainer):
        for c in o:
            tree_formula(c, conj, problems)


def check_page(ex, pg, items, vec, info):
    from pdfminer.layout import LTTextBox, LTTextGroup
    got = leaves(pg, [])
    ex.require(sorted(map(id, got)) == sorted(map(id, items)), "items lost or duplicated: %d leaves in the hierarchy, %d items put on the page" % (len(got), len(items)), **info)
    conj, problems = [], []
    tree_formula(pg, conj, problems)
    ex.require(not problems, "; ".join(problems), **info)
    if conj:
        ex.require(SB(z3.And(conj)), "a bounding box is not the union of its members, or lines inside a box are not ordered", **info)
    boxes = [o for o in pg if isinstance(o, LTTextBox)]
    ex.require([b.index for b in boxes] == list(range(len(boxes))), "text boxes are not numbered 0..n-1 in output order: %r" % [b.index for b in boxes], **info)
    if pg.groups is not None:
        gl = []
        for g in pg.groups:
            leaves(g, gl)
        # every text box of the page sits in exactly one place of the group hierarchy
        def boxes_of(g, out):
            for m in g:
                if isinstance(m, LTTextGroup):
                    boxes_of(m, out)
                else:
                    out.append(m)
            return out
        gb = []
        for g in pg.groups:
            if isinstance(g, LTTextGroup):
                boxes_of(g, gb)
            else:
                gb.append(g)
        ex.require(sorted(map(id, gb)) == sorted(map(id, boxes)), "the group hierarchy does not hold every text box exactly once", **info)


TEXTS = ["a", " ", ""]


def h_analyze(family="fixed2", vec="default", timeout=200, part=None, **kw):
    shims = setup()
    import pdfminer.layout as lt
    from pdfminer.layout import LTPage, LAParams, LTRect

    def fn(ex):
        pg = LTPage(1, (0, 0, 50, 50))
        items = []
        if family == "fixed2":
            chars = [mkchar(ex, "c%d" % i, "ab"[i], -10, 60, size=10) for i in range(2)]
        elif family == "general2":
            chars = [mkchar(ex, "c%d" % i, "ab"[i], -10, 60) for i in range(2)]
        elif family == "degenerate2":
            # one ordinary glyph and one whose box has zero width or height and whose text is ordinary, blank or empty
            t = TEXTS[ex.choice(3, "t1")] if kw.get("texts", 3) == 3 else TEXTS[ex.choice(2, "t1")]
            d = ["w", "h"][ex.choice(2, "d1")]
            first = ex.choice(2, "first")
            chars = [mkchar(ex, "c0", "b", -10, 60, size=10), mkchar(ex, "c1", t, -10, 60, size=10, degenerate=d)]
            if first:
                chars.reverse()
        elif family == "fixed3":
            chars = [mkchar(ex, "c%d" % i, "abc"[i], -10, 60, size=10) for i in range(3)]
        elif family == "stack3":
            # two glyphs at fixed places, stacked (a vertical line when detect_vertical is on) or side by side (symbolic choice), and a third one anywhere
            stacked = ex.choice(2, "stacked") == 1
            chars = [mkfixed("a", 10, 30, 10), mkfixed("b", 10, 19, 10) if stacked else mkfixed("b", 21, 30, 10), mkchar(ex, "c2", "c", -10, 60, size=10)]
        else:
            raise KeyError(family)
        rect = LTRect(1, (5, 5, 20, 20))
        order = [chars[0], rect] + chars[1:]
        for c in order:
            pg.add(c)
            items.append(c)
        info = {"family": family, "vec": vec, "chars": [(c.get_text(), c.x0, c.y0, c.x1, c.y1) for c in chars]}
        try:
            pg.analyze(LAParams(**VECS[vec]))
        except symx.Violation:
            raise
        except Exception as e:
            ex.require(False, "analyze raised %s: %s" % (type(e).__name__, e), **info)
        check_page(ex, pg, items, vec, info)

    def conc(m, info):
        return {"family": info["family"], "vec": info["vec"], "chars": [(t,) + tuple(symx.mval(m, v) for v in bb) for (t, *bb) in info["chars"]]}
    L = lt.LTLayoutContainer
    return core.run_symx("H1_analyze", fn, [L.analyze, L.group_objects, L.group_textlines, L.group_textboxes, lt.LTExpandableContainer.add, lt.LTTextLineHorizontal.add,
                                            lt.LTTextLineVertical.add, lt.LTTextLineHorizontal.find_neighbors, lt.LTTextLineVertical.find_neighbors, lt.LTTextLine.is_empty,
                                            lt.LTTextBoxHorizontal.analyze, lt.LTTextBoxVertical.analyze, lt.IndexAssigner.run],
                         {"family": family, "laparams": VECS[vec] or "defaults", "glyph_coordinates": "symbolic reals in [-10, 60], page (0,0,50,50)", "extra_item": "one LTRect"},
                         timeout, concretize=conc, shims={"namespace_shims": shims}, part=part, int_lo=-4, int_hi=6)


def _mk_lines(chars, vertical, word_margin=0.1):
    from pdfminer.layout import LTTextLineHorizontal, LTTextLineVertical
    lines = []
    for c in chars:
        l = (LTTextLineVertical if vertical else LTTextLineHorizontal)(word_margin)
        l.add(c)
        lines.append(l)
    return lines


def _walk_boxes(boxes, lines):
    """concrete check used by the replay: conservation, bbox union, order, line breaks, concatenation"""
    from pdfminer.layout import LTTextBoxVertical, LTAnno, LTText
    got = [l for b in boxes for l in b]
    if sorted(map(id, got)) != sorted(map(id, lines)):
        return "%d lines in the boxes for %d lines given (lost or duplicated)" % (len(got), len(lines))
    for b in boxes:
        ms = list(b)
        bb = (min(m.x0 for m in ms), min(m.y0 for m in ms), max(m.x1 for m in ms), max(m.y1 for m in ms))
        if tuple(b.bbox) != bb:
            return "box %r is not the union %r of its lines" % (b.bbox, bb)
        key = [l.x1 for l in b] if isinstance(b, LTTextBoxVertical) else [l.y1 for l in b]
        if any(a < c for a, c in zip(key, key[1:])):
            return "lines of a %s box are not ordered %s: %r" % ("vertical" if isinstance(b, LTTextBoxVertical) else "horizontal", "right to left" if isinstance(b, LTTextBoxVertical) else "top to bottom", key)
        for l in b:
            objs = list(l)
            if not (isinstance(objs[-1], LTAnno) and objs[-1].get_text() == "\n"):
                return "line without line break"
        if b.get_text() != "".join(m.get_text() for m in b if isinstance(m, LTText)):
            return "text of a box is not the concatenation of its lines"
    return None


def h2_boxes(n=2, vec="default", timeout=200, part=None, size=10, **kw):
    """second stage alone: n one-glyph text lines of one orientation (symbolic choice) with symbolic boxes -> group_textlines + analyze of every box: each line sits in exactly
    one box, box = union of its lines, lines ordered top-to-bottom (right-to-left in vertical boxes), line breaks, concatenation"""
    shims = setup()
    import pdfminer.layout as lt
    from pdfminer.layout import LAParams

    def fn(ex):
        vertical = ex.choice(2, "vertical") == 1
        chars = [mkchar(ex, "c%d" % i, "abc"[i], 0, 40, size=size) for i in range(n)]
        lines = _mk_lines(chars, vertical)
        la = LAParams(**VECS[vec])
        cont = lt.LTLayoutContainer((0, 0, 50, 50))
        info = {"vertical": vertical, "vec": vec, "chars": [(c.get_text(), c.x0, c.y0, c.x1, c.y1) for c in chars]}
        try:
            boxes = list(cont.group_textlines(la, lines))
            for b in boxes:
                b.analyze(la)
        except symx.Violation:
            raise
        except Exception as e:
            ex.require(False, "group_textlines / analyze raised %s: %s" % (type(e).__name__, e), **info)
        got = [l for b in boxes for l in b]
        ex.require(sorted(map(id, got)) == sorted(map(id, lines)), "%d lines in the boxes for %d lines given (lost or duplicated)" % (len(got), len(lines)), **info)
        ex.require(all(isinstance(b, lt.LTTextBoxVertical if vertical else lt.LTTextBoxHorizontal) for b in boxes), "box orientation differs from its lines", **info)
        conj, problems = [], []
        for b in boxes:
            tree_formula(b, conj, problems)
        ex.require(not problems, "; ".join(problems), **info)
        ex.require(SB(z3.And(conj)) if conj else True, "a box is not the union of its lines, or its lines are not ordered top-to-bottom / right-to-left", **info)

    def conc(m, info):
        return {"vertical": info["vertical"], "vec": info["vec"], "chars": [(t,) + tuple(symx.mval(m, v) for v in bb) for (t, *bb) in info["chars"]]}
    L = lt.LTLayoutContainer
    return core.run_symx("H2_boxes", fn, [L.group_textlines, lt.LTTextBoxHorizontal.analyze, lt.LTTextBoxVertical.analyze, lt.LTTextLineHorizontal.find_neighbors, lt.LTTextLineVertical.find_neighbors,
                                          lt.LTTextLine.analyze],
                         {"lines": "%d, one glyph each, horizontal or vertical, symbolic position in [0,40], size %s" % (n, "symbolic in (0,20]" if size is None else "%d x %d" % (size, size)), "laparams": VECS[vec] or "defaults"},
                         timeout, concretize=conc, shims={"namespace_shims": shims}, part=part, int_lo=-4, int_hi=6)


def build_page(chars):
    from pdfminer.layout import LTPage, LTChar, LTRect
    pg = LTPage(1, (0, 0, 50, 50))
    items = []
    objs = []
    for (t, x0, y0, x1, y1) in chars:
        c = LTChar.__new__(LTChar)
        c.set_bbox((fl(x0), fl(y0), fl(x1), fl(y1)))
        c._text = t
        c.size = fl(y1) - fl(y0)
        c.upright = True
        c.fontname = "F"
        c.adv = fl(x1) - fl(x0)
        c.matrix = (1, 0, 0, 1, fl(x0), fl(y0))
        objs.append(c)
    rect = LTRect(1, (5, 5, 20, 20))
    for c in [objs[0], rect] + objs[1:]:
        pg.add(c)
        items.append(c)
    return pg, items


def replay(harness, inp):
    from pdfminer.layout import LAParams, LTTextBox, LTTextLine, LTTextGroup, LTComponent, LTAnno, LTText, LTTextBoxHorizontal, LTTextBoxVertical
    if harness == "H2_boxes":
        import pdfminer.layout as lt
        chars = []
        for (t, x0, y0, x1, y1) in inp["chars"]:
            c = lt.LTChar.__new__(lt.LTChar)
            c.set_bbox((x0, y0, x1, y1))
            c._text, c.size, c.upright, c.fontname, c.adv, c.matrix = t, y1 - y0, True, "F", x1 - x0, (1, 0, 0, 1, x0, y0)
            chars.append(c)
        lines = _mk_lines(chars, inp["vertical"])
        la = LAParams(**VECS[inp["vec"]])
        desc = "%s one-glyph lines (text,x0,y0,x1,y1) %r, LAParams(%r)" % ("vertical" if inp["vertical"] else "horizontal", [(c[0],) + tuple(float(v) for v in c[1:]) for c in inp["chars"]], VECS[inp["vec"]])
        try:
            boxes = list(lt.LTLayoutContainer((0, 0, 50, 50)).group_textlines(la, lines))
            for b in boxes:
                b.analyze(la)
        except Exception as e:
            return "%s: group_textlines / analyze raised %r" % (desc, e)
        r = _walk_boxes(boxes, lines)
        return None if r is None else "%s: %s" % (desc, r)
    pg, items = build_page(inp["chars"])
    try:
        pg.analyze(LAParams(**VECS[inp["vec"]]))
    except Exception as e:
        return "analyze(LAParams(%r)) on glyphs %r raised %r" % (VECS[inp["vec"]], inp["chars"], e)
    desc = "LAParams(%r), glyphs (text,x0,y0,x1,y1) %r + LTRect(5,5,20,20)" % (VECS[inp["vec"]], [(c[0],) + tuple(float(v) for v in c[1:]) for c in inp["chars"]])
    got = leaves(pg, [])
    if sorted(map(id, got)) != sorted(map(id, items)):
        return "%s: %d leaves in the hierarchy for %d items (lost or duplicated): %r" % (desc, len(got), len(items), got)
    boxes = [o for o in pg if isinstance(o, LTTextBox)]
    if [b.index for b in boxes] != list(range(len(boxes))):
        return "%s: text box indices %r" % (desc, [b.index for b in boxes])

    def walk(o):
        if isinstance(o, (LTTextLine, LTTextBox, LTTextGroup)):
            ms = [m for m in o if isinstance(m, LTComponent)]
            if not ms:
                return "empty container"
            bb = (min(m.x0 for m in ms), min(m.y0 for m in ms), max(m.x1 for m in ms), max(m.y1 for m in ms))
            if tuple(o.bbox) != bb:
                return "bbox %r of %r is not the union %r of its members" % (o.bbox, o, bb)
            if isinstance(o, LTTextLine):
                objs = list(o)
                if not (isinstance(objs[-1], LTAnno) and objs[-1].get_text() == "\n"):
                    return "line without line break"
            if isinstance(o, LTTextBoxHorizontal):
                ys = [l.y1 for l in o]
                if any(a < b for a, b in zip(ys, ys[1:])):
                    return "lines not top to bottom"
            if isinstance(o, LTTextBoxVertical):
                xs = [l.x1 for l in o]
                if any(a < b for a, b in zip(xs, xs[1:])):
                    return "lines not right to left"
            if isinstance(o, (LTTextLine, LTTextBox)) and o.get_text() != "".join(m.get_text() for m in o if isinstance(m, LTText)):
                return "text is not the concatenation"
        if hasattr(o, "__iter__"):
            for c in o:
                r = walk(c)
                if r:
                    return r
        return None
    r = walk(pg)
    return None if r is None else "%s: %s" % (desc, r)


def jobs(tier):
    J = [Job("H2_boxes:2:%s:%d" % (vec, k), "h2_boxes", {"n": 2, "vec": vec, "part": [k, 2, 6]}, 300, "H2_boxes") for vec in ("default", "big") for k in range(2)]
    if tier != "quick":          # budgets sized so that the whole tier ends within about 45 min on 16 cores; the general families exhaust them and say so
        J += [Job("H2_boxes:2g:%s:%d" % (vec, k), "h2_boxes", {"n": 2, "vec": vec, "size": None, "part": [k, 4, 9]}, 900, "H2_boxes") for vec in ("default", "big") for k in range(4)]
        J += [Job("H2_boxes:3:%s:%d" % (vec, k), "h2_boxes", {"n": 3, "vec": vec, "part": [k, 4, 9]}, 900, "H2_boxes") for vec in ("default", "big") for k in range(4)]
    if tier == "quick":
        for vec in ("default", "none", "vert", "neg"):
            for k in range(3):
                J.append(Job("H1_analyze:fixed2:%s:%d" % (vec, k), "h_analyze", {"family": "fixed2", "vec": vec, "part": [k, 3, 9]}, 300, "H1_analyze"))
        for vec in STACK_VECS:
            for k in range(2):
                J.append(Job("H1_analyze:stack3:%s:%d" % (vec, k), "h_analyze", {"family": "stack3", "vec": vec, "part": [k, 2, 6]}, 300, "H1_analyze"))
        for vec in ("default", "none"):          # blank / zero-extent glyphs take their own route through analyze (the "empty" lines), on both sides of the boxes_flow split
            for k in range(6):
                J.append(Job("H1_analyze:degenerate2:%s:%d" % (vec, k), "h_analyze", {"family": "degenerate2", "vec": vec, "texts": 2, "part": [k, 6, 10]}, 300, "H1_analyze"))
    else:
        for vec in VECS:
            for k in range(2):
                J.append(Job("H1_analyze:general2:%s:%d" % (vec, k), "h_analyze", {"family": "general2", "vec": vec, "part": [k, 2, 8]}, 900, "H1_analyze"))
            for k in range(4):
                J.append(Job("H1_analyze:degenerate2:%s:%d" % (vec, k), "h_analyze", {"family": "degenerate2", "vec": vec, "part": [k, 4, 9]}, 900, "H1_analyze"))
            for k in range(2):
                J.append(Job("H1_analyze:fixed2:%s:%d" % (vec, k), "h_analyze", {"family": "fixed2", "vec": vec, "part": [k, 2, 8]}, 900, "H1_analyze"))
        for vec in STACK_VECS:
            for k in range(2):
                J.append(Job("H1_analyze:stack3:%s:%d" % (vec, k), "h_analyze", {"family": "stack3", "vec": vec, "part": [k, 2, 6]}, 900, "H1_analyze"))
        # three free glyphs only where no hierarchy is built: with a numeric boxes_flow three boxes at equal distances are grouped in id() order (DESIGN section 5) and the
        # engine's prefix replay diverges at once (the 2026-10-04 run of fixed3 under "default" ended inconclusive in every part)
        for k in range(8):
            J.append(Job("H1_analyze:fixed3:none:%d" % k, "h_analyze", {"family": "fixed3", "vec": "none", "part": [k, 8, 11]}, 900, "H1_analyze"))
    return J
