"""shared helpers for the byte-level harnesses (C01, C14, C18.H4, C03.H7)"""
import io

import z3

from engine import symx, sbytes
from engine.symx import SB, SV, SI
from engine.sbytes import SBy, Opaque


_snap = None


def setup():
    """adapt psparser and make the process-wide intern tables path-local (they are restored before every path, otherwise
    names interned on one path would change the comparisons made on the next one)"""
    global _snap
    r = sbytes.setup_psparser()
    if _snap is None:
        import pdfminer.psparser as ps
        import pdfminer.pdfinterp, pdfminer.pdfdocument, pdfminer.pdffont, pdfminer.cmapdb, pdfminer.image  # noqa: register their literals first
        _snap = (dict(ps.PSLiteralTable.dict), dict(ps.PSKeywordTable.dict))

        def restore():
            ps.PSLiteralTable.dict.clear()
            ps.PSLiteralTable.dict.update(_snap[0])
            ps.PSKeywordTable.dict.clear()
            ps.PSKeywordTable.dict.update(_snap[1])
        symx.PATH_START_HOOKS.append(restore)
    return r


def canon(x):
    """token / object -> nested tuple of python values and z3 terms"""
    import pdfminer.psparser as ps
    if isinstance(x, SBy):
        return ("b", tuple(x.els))
    if isinstance(x, (bytes, bytearray)):
        return ("b", tuple(x))
    if isinstance(x, Opaque):
        return (x.kind, canon(x.text))
    if isinstance(x, ps.PSKeyword):
        return ("K", canon(x.name))
    if isinstance(x, ps.PSLiteral):
        n = x.name
        if isinstance(n, str):
            try:
                n = n.encode("utf-8")
            except UnicodeEncodeError:
                return ("L", ("s", n))
        return ("L", canon(n))
    if isinstance(x, bool):
        return ("B", x)
    if isinstance(x, (SV, SI)):
        return ("n", x.e)
    if isinstance(x, (list, tuple)):
        return ("A",) + tuple(canon(v) for v in x)
    if isinstance(x, dict):
        return ("D",) + tuple((k, canon(v)) for k, v in x.items())
    return x


def eq_term(a, b):
    """z3 Bool: canonical forms equal (False on shape mismatch)"""
    if isinstance(a, tuple) and isinstance(b, tuple):
        if len(a) != len(b):
            return z3.BoolVal(False)
        return z3.And([eq_term(x, y) for x, y in zip(a, b)]) if a else z3.BoolVal(True)
    if isinstance(a, tuple) or isinstance(b, tuple):
        return z3.BoolVal(False)
    if isinstance(a, z3.ExprRef) or isinstance(b, z3.ExprRef):
        if isinstance(a, (int, float)) and not isinstance(a, bool):
            a = z3.IntVal(a) if isinstance(a, int) else symx.zr(a)
        if isinstance(b, (int, float)) and not isinstance(b, bool):
            b = z3.IntVal(b) if isinstance(b, int) else symx.zr(b)
        if not isinstance(a, z3.ExprRef) or not isinstance(b, z3.ExprRef):
            return z3.BoolVal(False)
        if a.sort() != b.sort():
            a = z3.ToReal(a) if a.sort() == z3.IntSort() else a
            b = z3.ToReal(b) if b.sort() == z3.IntSort() else b
        return a == b
    return z3.BoolVal(type(a) == type(b) and a == b) if not (isinstance(a, (int, float)) and isinstance(b, (int, float))) \
        else z3.BoolVal(isinstance(a, bool) == isinstance(b, bool) and a == b)


def describe(c, model=None):
    """canonical form -> readable string under a model"""
    if isinstance(c, tuple):
        if c and c[0] == "b":
            bs = bytes(symx.mval(model, e) if isinstance(e, z3.ExprRef) else e for e in c[1]) if model is not None else c[1]
            return repr(bs)
        return "(" + " ".join(describe(x, model) for x in c) + ")"
    if isinstance(c, z3.ExprRef):
        return str(symx.mval(model, c)) if model is not None else str(c)
    return repr(c)


class CountingParserMixin:
    pass


def tokens_of(parser_cls, data, bufsiz, seed=None, max_steps=None):
    """run the real nexttoken() loop over `data` (bytes or SBy); returns (tokens, error, fills) where error is None or
    the exception other than PSEOF that escaped"""
    import pdfminer.psparser as ps

    fills = [0]
    limit = max_steps if max_steps is not None else 4 * len(data) + 16

    class P(parser_cls):
        BUFSIZ = bufsiz

        def fillbuf(self):
            fills[0] += 1
            if fills[0] > limit:
                raise NoProgress()
            return parser_cls.fillbuf(self)
    p = P(sbytes.SymFile(data))
    if seed is not None:
        seed(p)
    out = []
    try:
        while True:
            out.append(p.nexttoken())
    except ps.PSEOF:
        return out, None, fills[0]
    except NoProgress:
        return out, "no progress: more than %d buffer fills/scanner calls for %d bytes" % (limit, len(data)), fills[0]
    except symx.Violation:
        raise
    except Exception as e:      # BaseException (Abort, Unsupported) passes through
        return out, "%s: %s" % (type(e).__name__, e), fills[0]


class NoProgress(Exception):
    pass


def real_tokens(data, bufsiz, parser="PSBaseParser", seed=None):
    """same on the real, unpatched code with concrete bytes (used by replays)"""
    import pdfminer.psparser as ps
    cls = getattr(ps, parser)

    class P(cls):
        BUFSIZ = bufsiz
    p = P(io.BytesIO(data))
    if seed:
        seed(p)
    out = []
    n = 0
    try:
        while True:
            out.append(p.nexttoken())
            n += 1
            if n > 10 * len(data) + 100:
                return out, "no progress"
    except ps.PSEOF:
        return out, None
    except Exception as e:
        return out, "%s: %s" % (type(e).__name__, e)
