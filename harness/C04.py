"""C04 - page tree: order, inheritance, rotation/box normalisation, page selection.

H1 selection: real PDFPage.get_pages (parser/document/create_pages stubbed) with symbolic page_numbers and maxpages.
H2 walk: real PDFPage.create_pages on a stub document whose tree shape (Kids incl. repeats and cycles, Type, placement of the
   inheritable attributes, direct or indirect values) is chosen symbolically; oracle = pre-order DFS + nearest ancestor.
H3 Rotate normalisation for every symbolic integer.
H4 page CTM: real process_page + PDFLayoutAnalyzer.begin_page for a symbolic MediaBox and Rotate.
"""
import z3

from engine import symx
from engine.symx import SB, SI, SV
from harness import numshim
from lib import core
from lib.core import Job

ASSUMPTIONS = [
    "H1: page_numbers is None, a list or a set of ints; an empty container selects every page (pdfminer's documented meaning)",
    "H2: a tree from which no page is reachable is skipped (pdfminer then falls back to scanning the cross-reference table)",
    "H4: Rotate is a multiple of 90 (ISO 32000-1 table 30); MediaBox has x0<x1, y0<y1; floats are exact reals",
]
OUTSIDE = ["trees with more than 4 nodes", "more than 8 pages in the selection harness", "Rotate values that are not multiples of 90"]


# --------------------------------------------------------------------------------------- H1 selection
def h1_select(npages=6, timeout=100, part=None, **kw):
    import pdfminer.pdfpage as pp

    class _Doc:
        is_extractable = True

        def __init__(self, parser, password="", caching=True):
            pass

    class _P(pp.PDFPage):
        @classmethod
        def create_pages(cls, document):
            for i in range(npages):
                yield i
    pp.PDFParser = lambda fp: None
    pp.PDFDocument = _Doc

    def fn(ex):
        kind = ex.choice(4, "kind")              # None / list / set / empty list
        k = ex.choice(3, "k") + 1
        nos = [ex.int("p%d" % i, -1, npages + 1) for i in range(k)]
        pagenos = [None, list(nos), None, []][kind]
        if kind == 2:
            pagenos = set(nos)                   # hashing concretises the symbolic ints by forking
        maxpages = ex.int("maxpages", 0, npages + 2)
        got = list(_P.get_pages(None, pagenos, maxpages))
        info = {"kind": kind, "nos": nos, "maxpages": maxpages, "npages": npages}
        # oracle, evaluated without forking: page i is selected iff (no pagenos or i in pagenos) and (maxpages == 0 or i < maxpages)
        gi = 0
        for i in range(npages):
            sel = z3.BoolVal(True) if kind in (0, 3) else z3.Or([n.e == i for n in nos])
            lim = z3.Or(maxpages.e == 0, maxpages.e > i)
            want = SB(z3.And(sel, lim))
            has = gi < len(got) and got[gi] == i
            if has:
                ex.require(want, "page %d was returned although it is not selected / not below maxpages" % i, **info)
                gi += 1
            else:
                ex.require(~want, "page %d is selected and below maxpages but was not returned" % i, **info)
        ex.require(gi == len(got), "extra pages returned: %r" % (got,), **info)

    def conc(m, info):
        return {"kind": info["kind"], "nos": [symx.mval(m, n) for n in info["nos"]], "maxpages": symx.mval(m, info["maxpages"]), "npages": info["npages"]}
    return core.run_symx("H1_select", fn, [pp.PDFPage.get_pages], {"pages": npages, "page_numbers": "None / list / set of 1..3 symbolic ints in -1..%d / empty" % (npages + 1),
                                                                 "maxpages": "symbolic 0..%d" % (npages + 2)}, timeout, concretize=conc, part=part, int_lo=-2, int_hi=npages + 3)


# --------------------------------------------------------------------------------------- H2 walk
class _StubDoc:
    def __init__(self):
        self.objs = {}
        self.calls = 0
        self.xrefs = []

    def getobj(self, n):
        from pdfminer.pdfexceptions import PDFObjectNotFound
        self.calls += 1
        if self.calls > 400:
            raise symx.Violation("unbounded work: more than 400 object look-ups for a 4-node tree")
        if n not in self.objs:
            raise PDFObjectNotFound(n)
        return self.objs[n]

    def get_page_labels(self):
        from pdfminer.pdfdocument import PDFNoPageLabels
        raise PDFNoPageLabels


def _build_tree(spec):
    """spec: {node: (type, kids, attrs)}; attrs: {key: 'd'|'i'} direct / indirect; returns stub doc"""
    from pdfminer.pdfpage import LITERAL_PAGE, LITERAL_PAGES
    from pdfminer.pdftypes import PDFObjRef
    doc = _StubDoc()
    R = lambda n: PDFObjRef(doc, n)
    for n, (typ, kids, attrs) in spec.items():
        d = {}
        if typ != "none":
            d["Type"] = LITERAL_PAGES if typ == "Pages" else LITERAL_PAGE
        if typ == "Pages" or kids:
            d["Kids"] = [R(x) for x in kids]
        for key, how in attrs.items():
            val = _attr_value(key, n)
            if how == "i":
                doc.objs[100 + 10 * n + "MRCS".index(key[0])] = val
                val = R(100 + 10 * n + "MRCS".index(key[0]))
            d[key] = val
        doc.objs[n] = d
    doc.catalog = {"Pages": R(1)}
    return doc


def _attr_value(key, n):
    if key == "MediaBox":
        return [0, 0, 100 + n, 200 + n]
    if key == "CropBox":
        return [1, 1, 50 + n, 60 + n]
    if key == "Rotate":
        return ROTV[n]
    return {"Marker": n} if n != 2 else {}         # Resources (node 2 carries an empty, i.e. falsy, dictionary)


ROTV = {1: 270, 2: 0, 3: 90, 4: 180, 5: 450}        # distinct per node; node 2 carries the falsy value 0


def _expected_pages(spec):
    exp = []
    seen = set()

    def walk(n, inh):
        if n in seen or n not in spec:
            return
        seen.add(n)
        typ, kids, attrs = spec[n]
        inh = dict(inh)
        for key in attrs:
            inh[key] = n
        if typ == "Pages":
            for k in kids:
                walk(k, inh)
        elif typ == "Page":
            exp.append((n, inh.get("MediaBox"), inh.get("CropBox"), inh.get("Rotate"), inh.get("Resources")))
    walk(1, {})
    return exp


def _want(exp):
    return [(n, mb, cb, ROTV[r] % 360 if r is not None else None, (None if rs == 2 else rs)) for (n, mb, cb, r, rs) in exp]


def _reachable(spec):
    seen = set()
    todo = [1]
    while todo:
        n = todo.pop()
        if n in seen or n not in spec:
            continue
        seen.add(n)
        if spec[n][0] == "Pages":
            todo.extend(spec[n][1])
    return seen


def _observed_pages(pages):
    out = []
    for p in pages:
        mb = None if tuple(p.mediabox) == (0.0, 0.0, 612.0, 792.0) else int(p.mediabox[2]) - 100
        cb = None if tuple(p.cropbox) == tuple(p.mediabox) else int(p.cropbox[2]) - 50
        rot = None if "Rotate" not in p.attrs else p.rotate
        res = p.resources.get("Marker") if isinstance(p.resources, dict) else "?"
        out.append((p.pageid, mb, cb, rot, res))
    return out


def h2_walk(nodes=3, timeout=200, part=None, keys=("MediaBox", "Rotate"), **kw):
    import pdfminer.pdfpage as pp

    def fn(ex):
        spec = {}
        ids = list(range(1, nodes + 1))
        for n in ids:            # structure first ...
            typ = "Pages" if n == 1 else ["Page", "Pages", "none"][ex.choice(3, "t%d" % n)]
            maxk = 2 if n == 1 else 1
            k = ex.choice(maxk + 1, "nk%d" % n)
            kids = [ids[ex.choice(len(ids), "k%d_%d" % (n, i))] for i in range(k)]
            spec[n] = (typ, kids, {})
        if not _expected_pages(spec):
            raise symx.Abort()   # no page reachable: pdfminer falls back to the xref scan, not part of the claim
        reach = _reachable(spec)
        for n in ids:            # ... then the attributes of the nodes the walk can reach
            if n not in reach:
                continue
            for key in keys:
                a = ex.choice(3, "a%d%s" % (n, key[0]))
                if a:
                    spec[n][2][key] = "di"[a - 1]
        doc = _build_tree(spec)
        exp = _expected_pages(spec)
        if not exp:
            raise symx.Abort()
        try:
            pages = list(pp.PDFPage.create_pages(doc))
        except symx.Violation:
            raise
        except RecursionError:
            ex.require(False, "RecursionError while walking the page tree", spec=spec)
        except Exception as e:
            ex.require(False, "create_pages raised %s: %s" % (type(e).__name__, e), spec=spec)
        got = _observed_pages(pages)
        want = _want(exp)
        ex.require(got == want, "pages (id, MediaBox owner, CropBox owner, Rotate, Resources owner) %r, expected %r" % (got, want), spec=spec)

    def conc(m, info):
        return {"spec": {str(k): [v[0], v[1], v[2]] for k, v in info["spec"].items()}}
    return core.run_symx("H2_walk", fn, [pp.PDFPage.create_pages, pp.PDFPage.__init__, pp.PDFPage._parse_mediabox, pp.PDFPage._parse_cropbox],
                         {"nodes": nodes, "kids": "root 0..2, others 0..1, any node incl. repeats and cycles", "type": "Pages/Page/missing",
                          "inheritable_keys": list(keys), "value": "absent/direct/indirect per node"}, timeout, concretize=conc, part=part)


# --------------------------------------------------------------------------------------- H3 rotate
def h3_rotate(timeout=60, **kw):
    import pdfminer.pdfpage as pp
    shims = numshim.install("pdftypes", "utils", "pdfpage")

    def fn(ex):
        r = ex.int("rotate", -100000, 100000)
        page = pp.PDFPage(_StubDoc(), 1, {"Rotate": r}, None)
        got = page.rotate
        ex.require(SB(z3.And(symx.zi(got) >= 0, symx.zi(got) < 360, (symx.zi(got) - r.e) % 360 == 0)),
                   "Rotate is not reduced to 0..359 congruent to the input", r=r)

    def conc(m, info):
        return {"rotate": symx.mval(m, info["r"])}
    return core.run_symx("H3_rotate", fn, [pp.PDFPage.__init__], {"Rotate": "any int, |r| <= 100000"}, timeout, concretize=conc,
                         shims={"namespace_shims": shims})


# --------------------------------------------------------------------------------------- H4 page CTM
ROT = {0: (1, 0, 0, 1), 90: (0, -1, 1, 0), 180: (-1, 0, 0, -1), 270: (0, 1, -1, 0)}     # clockwise rotation matrices (a, b, c, d)


def h4_ctm(timeout=100, **kw):
    import pdfminer.pdfpage as pp
    import pdfminer.pdfinterp as pi
    import pdfminer.converter as cv
    import pdfminer.utils as u
    shims = numshim.install("pdftypes", "utils", "pdfpage", "casting")

    class Dev(cv.PDFPageAggregator):
        def begin_page(self, page, ctm):
            self.seen_ctm = ctm
            cv.PDFPageAggregator.begin_page(self, page, ctm)

        def receive_layout(self, ltpage):
            self.result = ltpage

    def fn(ex):
        x0, y0, x1, y1 = (ex.real(n, -5000, 5000) for n in ("x0", "y0", "x1", "y1"))
        ex.assume(x0 < x1)
        ex.assume(y0 < y1)
        k = ex.choice(4, "quarter")
        turns = ex.int("turns", -3, 3)
        rot = turns * 360 + 90 * k
        indirect = ex.choice(2, "indirect")
        doc = _StubDoc()
        mb = [x0, y0, x1, y1]
        if indirect:
            from pdfminer.pdftypes import PDFObjRef
            doc.objs[50] = mb
            mb = PDFObjRef(doc, 50)
        crop = ex.choice(2, "crop")            # a CropBox strictly inside the MediaBox: the page box reported stays the MediaBox
        attrs = {"MediaBox": mb, "Rotate": rot}
        if crop:
            attrs["CropBox"] = [x0 + (x1 - x0) / 4, y0 + (y1 - y0) / 4, x1 - (x1 - x0) / 4, y1 - (y1 - y0) / 8]
        page = pp.PDFPage(doc, 1, attrs, None)
        rm = pi.PDFResourceManager()
        dev = Dev(rm, laparams=None)
        pi.PDFPageInterpreter(rm, dev).process_page(page)
        info = {"x0": x0, "y0": y0, "x1": x1, "y1": y1, "rot": rot, "crop": crop}
        a, b, c, d = ROT[90 * k]
        ctm = dev.seen_ctm
        ex.require(SB(z3.And([symx.zr(p) == symx.zr(q) for p, q in zip(ctm[:4], (a, b, c, d))])), "linear part of the page CTM is not a clockwise rotation by Rotate", **info)
        # the four corners of the MediaBox must land on the box (0,0,W,H) with W,H the rotated extent
        w, h = x1 - x0, y1 - y0
        W, H = (w, h) if k in (0, 2) else (h, w)
        pts = [u.apply_matrix_pt(ctm, p) for p in ((x0, y0), (x1, y0), (x0, y1), (x1, y1))]
        mnx = pts[0][0]
        mny = pts[0][1]
        mxx, mxy = mnx, mny
        for px, py in pts[1:]:
            mnx, mny, mxx, mxy = symx.smin(mnx, px), symx.smin(mny, py), symx.smax(mxx, px), symx.smax(mxy, py)
        ex.require((mnx == 0) & (mny == 0) & (mxx == W) & (mxy == H), "the MediaBox does not land on (0,0,W,H)", **info)
        bb = dev.result.bbox
        ex.require((bb[0] == 0) & (bb[1] == 0) & (bb[2] == W) & (bb[3] == H), "LTPage.bbox is not (0,0,W,H) of the rotated page", **info)

    def conc(m, info):
        return dict({k: symx.mval(m, info[k]) for k in ("x0", "y0", "x1", "y1", "rot")}, crop=info["crop"])
    return core.run_symx("H4_ctm", fn, [pi.PDFPageInterpreter.process_page, cv.PDFLayoutAnalyzer.begin_page, pp.PDFPage.__init__, u.apply_matrix_rect, u.parse_rect],
                         {"MediaBox": "symbolic reals, |v| <= 5000, x0<x1, y0<y1, direct or indirect", "CropBox": "absent or strictly inside", "Rotate": "90*k + 360*t, t in -3..3"}, timeout,
                         concretize=conc, shims={"namespace_shims": shims})


def h4_boxes(timeout=60, **kw):
    """box defaults: missing / malformed MediaBox -> US Letter, missing / malformed CropBox -> MediaBox"""
    import pdfminer.pdfpage as pp
    shims = numshim.install("pdftypes", "utils", "pdfpage", "casting")

    def fn(ex):
        x0, y0, x1, y1 = (ex.real(n, -5000, 5000) for n in ("x0", "y0", "x1", "y1"))
        from pdfminer.psparser import LIT
        mk = ex.choice(5, "mb")        # absent / good / wrong length / not an array / array holding a name
        ck = ex.choice(5, "cb")
        attrs = {}
        good = [x0, y0, x1, y1]
        form = ex.choice(3, "form")      # a well-formed box is written directly / with every element an indirect reference / as one indirect reference to the array
        doc = _StubDoc()

        def wrap(box, base):
            from pdfminer.pdftypes import PDFObjRef
            if form == 1:
                for i, v in enumerate(box):
                    doc.objs[base + i] = v
                return [PDFObjRef(doc, base + i) for i in range(len(box))]
            if form == 2:
                doc.objs[base] = box
                return PDFObjRef(doc, base)
            return box
        if mk:
            attrs["MediaBox"] = [None, wrap(good, 20), good[:3], 7, [x0, LIT("A"), x1, y1]][mk]
        if ck:
            attrs["CropBox"] = [None, wrap([x0 + 1, y0 + 1, x1 - 1, y1 - 1], 30), good[:2], 7, [x0, LIT("A"), x1, y1]][ck]
        try:
            page = pp.PDFPage(doc, 1, attrs, None)
        except Exception as e:
            ex.require(False, "PDFPage(%r) raised %s: %s" % (attrs, type(e).__name__, e), mk=mk, ck=ck, form=form)
        emb = (x0, y0, x1, y1) if mk == 1 else (0.0, 0.0, 612.0, 792.0)
        ecb = (x0 + 1, y0 + 1, x1 - 1, y1 - 1) if ck == 1 else emb
        eq = lambda A, B: SB(z3.And([symx.zr(p) == symx.zr(q) for p, q in zip(A, B)]))
        ex.require(eq(page.mediabox, emb), "MediaBox default/parse wrong", mk=mk, ck=ck, form=form)
        ex.require(eq(page.cropbox, ecb), "CropBox default/parse wrong", mk=mk, ck=ck, form=form)

    def conc(m, info):
        return {"mk": info["mk"], "ck": info["ck"], "form": info["form"]}
    return core.run_symx("H4_boxes", fn, [pp.PDFPage._parse_mediabox, pp.PDFPage._parse_cropbox], {"boxes": "absent / 4 symbolic reals (direct, each element indirect, or the array indirect) / wrong length / not an array"},
                         timeout, concretize=conc, shims={"namespace_shims": shims})


# --------------------------------------------------------------------------------------- replay
# ------------------------------------------------------------------------------------------ H5 deep and wide page trees (real documents, concrete)
DEEP_DEPTHS = [1, 2, 10, 23, 24, 25, 26, 40, 120]
DEEP_WIDE = [1, 3]


def deep_doc(depth, wide):
    """a chain of `depth` nested /Pages nodes; every node holds `wide` leaf pages before and one after its child node; MediaBox and Rotate are set on the root and on the middle node only"""
    from lib.pdfgen import Ref, Stream, build
    objs = {1: {"Type": "Catalog", "Pages": Ref(10)}, 3: {"Type": "Font", "Subtype": "Type1", "BaseFont": "Helvetica"}}
    order, nid, expected = [], [5000], []

    def leaf(parent, label, box, rot):
        n = nid[0]; nid[0] += 2
        objs[n] = {"Type": "Page", "Parent": Ref(parent), "Contents": Ref(n + 1), "Resources": {"Font": {"F1": Ref(3)}}}
        objs[n + 1] = Stream({}, b"BT /F1 10 Tf 10 50 Td (" + label.encode() + b") Tj ET")
        expected.append((label, box, rot))
        return Ref(n)
    box, rot = [0, 0, 300, 400], 90
    tails = []
    for d in range(depth):
        node = 10 + d
        if d == depth // 2 and d > 0:
            box, rot = [0, 0, 200, 100], 180
        kids = [leaf(node, "L%da%d" % (d, i), box, rot) for i in range(wide)]
        objs[node] = {"Type": "Pages", "Kids": kids, "Count": 0}
        if d == 0:
            objs[node].update({"MediaBox": [0, 0, 300, 400], "Rotate": 90})
        elif d == depth // 2:
            objs[node].update({"MediaBox": [0, 0, 200, 100], "Rotate": 180})
        if d > 0:
            objs[node]["Parent"] = Ref(node - 1)
            objs[node - 1]["Kids"].append(Ref(node))
        tails.append((node, box, rot))
    for node, b, r in reversed(tails):                      # the page after the child node, innermost first = document order
        objs[node]["Kids"].append(leaf(node, "L%dz" % (node - 10), b, r))
    return build(objs), expected


def _deep_check(sel):
    import io
    from pdfminer.pdfpage import PDFPage
    from pdfminer.high_level import extract_text
    depth, wide = DEEP_DEPTHS[sel["depth"]], DEEP_WIDE[sel["wide"]]
    data, expected = deep_doc(depth, wide)
    desc = "page tree of %d nested /Pages nodes with %d+1 pages each" % (depth, wide)
    try:
        pages = list(PDFPage.get_pages(io.BytesIO(data)))
        got = [(tuple(p.mediabox), p.rotate) for p in pages]
        if got != [(tuple(b), r) for _, b, r in expected]:
            k = next((i for i in range(min(len(got), len(expected))) if got[i] != (tuple(expected[i][1]), expected[i][2])), min(len(got), len(expected)))
            return "%s: %d pages found, %d in the tree; first difference at page %d (%r, the nearest ancestor gives %r)" % (desc, len(got), len(expected), k, got[k] if k < len(got) else None, expected[k][1:] if k < len(expected) else None)
        txt = extract_text(io.BytesIO(data)).split("\x0c")
        labels = ["".join(t.split()) for t in txt if t.strip()]          # rotated pages lay the glyphs out one per line
        if labels != [l for l, _, _ in expected]:
            return "%s: the pages come out as %r..., document order is %r..." % (desc, labels[:6], [l for l, _, _ in expected][:6])
        last = len(expected) - 1
        sel_txt = ["".join(t.split()) for t in extract_text(io.BytesIO(data), page_numbers=[0, last]).split("\x0c") if t.strip()]
        if sel_txt != [expected[0][0], expected[last][0]]:
            return "%s: page_numbers=[0, %d] selects %r, the first and last pages are %r" % (desc, last, sel_txt, [expected[0][0], expected[last][0]])
    except Exception as e:
        return "%s: raised %s: %s" % (desc, type(e).__name__, str(e)[:200])
    return None


def h5_deep(timeout=200, part=None, **kw):
    import pdfminer.pdfpage as pp

    def fn(ex):
        sel = {"depth": ex.choice(len(DEEP_DEPTHS), "depth"), "wide": ex.choice(len(DEEP_WIDE), "wide")}
        r = _deep_check(sel)
        ex.require(r is None, r or "", deep=sel)

    def conc(m, info):
        return {"deep": info["deep"]}
    return core.run_symx("H5_deep", fn, [pp.PDFPage.create_pages, pp.PDFPage.get_pages], {"depths": DEEP_DEPTHS, "pages per node": [w + 1 for w in DEEP_WIDE], "inheritance": "MediaBox / Rotate on the root and the middle node"},
                         timeout, concretize=conc, part=part)


# ---- H6: every page of a run is mapped by its own Rotate / MediaBox, whatever the earlier pages' content left behind --------------------------------------------------
SEQ_ROT = [0, 90, 180, 270]
SEQ_BOX = [[0, 0, 300, 400], [100, 50, 400, 250]]
SEQ_TAIL = [b"", b" q 2 0 0 2 5 5 cm", b" q q 1 0 0 1 7 9 cm", b" BT /F1 7 Tf 3 Ts 5 Tc ET q"]        # what page 1 leaves open (ISO 32000-1 8.4.2: the stack is empty at the start of a page)
SEQ_HEAD = [b"", b"Q ", b"Q Q "]                                         # surplus Q operators at the start of page 2 (no saved state: nothing to restore)


def _page_ctm(rot, box):
    x0, y0, x1, y1 = box
    return {0: (1, 0, 0, 1, -x0, -y0), 90: (0, -1, 1, 0, -y0, x1), 180: (-1, 0, 0, -1, x1, y1), 270: (0, 1, -1, 0, y1, -x0)}[rot]


def _seq_check(sel):
    import io
    from lib.pdfgen import Ref, Stream, build
    from pdfminer.high_level import extract_pages
    from pdfminer.layout import LTChar
    rots = [SEQ_ROT[sel["r1"]], SEQ_ROT[sel["r2"]]]
    boxes = [SEQ_BOX[sel["b1"]], SEQ_BOX[1 - sel["b1"]]]
    contents = [b"BT /F1 10 Tf 10 50 Td (A) Tj ET" + SEQ_TAIL[sel["tail"]], SEQ_HEAD[sel["head"]] + b"BT /F1 10 Tf 10 50 Td (B) Tj ET"]
    objs = {1: {"Type": "Catalog", "Pages": Ref(2)}, 2: {"Type": "Pages", "Kids": [Ref(4), Ref(6)], "Count": 2}, 3: {"Type": "Font", "Subtype": "Type1", "BaseFont": "Helvetica"}}
    for i in range(2):
        objs[4 + 2 * i] = {"Type": "Page", "Parent": Ref(2), "Contents": Ref(5 + 2 * i), "Resources": {"Font": {"F1": Ref(3)}}, "MediaBox": boxes[i], "Rotate": rots[i]}
        objs[5 + 2 * i] = Stream({}, contents[i])
    data = build(objs)
    desc = "two pages (Rotate %r, MediaBox %r), page 1 ends with %r, page 2 starts with %r" % (rots, boxes, SEQ_TAIL[sel["tail"]], SEQ_HEAD[sel["head"]])

    def chars(**kw):
        out = []
        for page in extract_pages(io.BytesIO(data), **kw):
            out.append([tuple(c.matrix) for c in _walk(page) if isinstance(c, LTChar) and c.get_text() in "AB"])
        return out

    def _walk(o):
        yield o
        if hasattr(o, "__iter__") and not isinstance(o, LTChar):
            for c in o:
                yield from _walk(c)
    try:
        together = chars()
        alone = [chars(page_numbers=[i])[0] for i in range(2)]
    except Exception as e:
        return "%s: raised %s: %s" % (desc, type(e).__name__, str(e)[:200])
    for i in range(2):
        a, b, c, d, e, f = _page_ctm(rots[i], boxes[i])
        exp = (a, b, c, d, 10 * a + 50 * c + e, 10 * b + 50 * d + f)          # text matrix (1 0 0 1 10 50) x page matrix (LTChar.matrix does not include the font size)
        for name, got in (("in one run", together[i] if i < len(together) else None), ("extracted alone", alone[i])):
            if got != [exp]:
                return "%s: the glyph matrix of page %d %s is %r; its own Rotate and MediaBox give %r" % (desc, i + 1, name, got, [exp])
    return None


def h6_pages(timeout=200, part=None, **kw):
    import pdfminer.pdfinterp as pi

    def fn(ex):
        sel = {k: ex.choice(n, k) for k, n in (("r1", 4), ("r2", 4), ("b1", 2), ("tail", len(SEQ_TAIL)), ("head", len(SEQ_HEAD)))}
        r = _seq_check(sel)
        ex.require(r is None, r or "", pageseq=sel)

    def conc(m, info):
        return {"pageseq": info["pageseq"]}
    return core.run_symx("H6_pages", fn, [pi.PDFPageInterpreter.process_page, pi.PDFPageInterpreter.init_state, pi.PDFPageInterpreter.do_Q],
                         {"pages": 2, "Rotate": SEQ_ROT, "MediaBox": SEQ_BOX, "page 1 leaves open": [t.decode() for t in SEQ_TAIL], "page 2 starts with": [h.decode() for h in SEQ_HEAD],
                          "oracle": "glyph matrix = (1 0 0 1 10 50) x the page matrix of ISO 32000-1 8.3.2.3 / Rotate, in one run and page by page"}, timeout, concretize=conc, part=part)


def replay(harness, inp):
    if "deep" in inp:
        return _deep_check(inp["deep"])
    if "pageseq" in inp:
        return _seq_check(inp["pageseq"])
    import pdfminer.pdfpage as pp
    if harness == "H1_select":
        class _Doc:
            is_extractable = True

            def __init__(self, parser, password="", caching=True):
                pass
        n = inp["npages"]

        class _P(pp.PDFPage):
            @classmethod
            def create_pages(cls, document):
                for i in range(n):
                    yield i
        old = (pp.PDFParser, pp.PDFDocument)
        pp.PDFParser, pp.PDFDocument = (lambda fp: None), _Doc
        try:
            nos = inp["nos"]
            pagenos = [None, list(nos), set(nos), []][inp["kind"]]
            got = list(_P.get_pages(None, pagenos, inp["maxpages"]))
        finally:
            pp.PDFParser, pp.PDFDocument = old
        exp = [i for i in range(n) if (not pagenos or i in pagenos) and (inp["maxpages"] == 0 or i < inp["maxpages"])]
        return None if got == exp else "get_pages(page_numbers=%r, maxpages=%d) over %d pages yields %r, selected and below the limit are %r" % (pagenos, inp["maxpages"], n, got, exp)
    if harness == "H2_walk":
        spec = {int(k): (v[0], v[1], v[2]) for k, v in inp["spec"].items()}
        doc = _build_tree(spec)
        exp = _expected_pages(spec)
        want = _want(exp)
        try:
            got = _observed_pages(list(pp.PDFPage.create_pages(doc)))
        except BaseException as e:
            return "create_pages on tree %r raised %r" % (spec, e)
        return None if got == want else "tree %r: pages (id, MediaBox owner, CropBox owner, Rotate, Resources owner) = %r, expected %r" % (spec, got, want)
    if harness == "H3_rotate":
        r = inp["rotate"]
        got = pp.PDFPage(_StubDoc(), 1, {"Rotate": r}, None).rotate
        return None if (0 <= got < 360 and (got - r) % 360 == 0) else "Rotate %d -> %d" % (r, got)
    if harness == "H4_ctm":
        import pdfminer.pdfinterp as pi
        import pdfminer.converter as cv
        from lib.core import fl
        x0, y0, x1, y1 = (fl(inp[k]) for k in ("x0", "y0", "x1", "y1"))
        rot = inp["rot"]
        out = {}

        class Dev(cv.PDFPageAggregator):
            def begin_page(self, page, ctm):
                out["ctm"] = ctm
                cv.PDFPageAggregator.begin_page(self, page, ctm)

            def receive_layout(self, ltpage):
                out["bbox"] = ltpage.bbox
        attrs = {"MediaBox": [x0, y0, x1, y1], "Rotate": rot}
        if inp.get("crop"):
            attrs["CropBox"] = [x0 + (x1 - x0) / 4, y0 + (y1 - y0) / 4, x1 - (x1 - x0) / 4, y1 - (y1 - y0) / 8]
        page = pp.PDFPage(_StubDoc(), 1, attrs, None)
        rm = pi.PDFResourceManager()
        pi.PDFPageInterpreter(rm, Dev(rm, laparams=None)).process_page(page)
        k = (rot % 360) // 90
        w, h = x1 - x0, y1 - y0
        W, H = (w, h) if k in (0, 2) else (h, w)
        a, b, c, d, e, f = out["ctm"]
        corners = [(a * px + c * py + e, b * px + d * py + f) for px in (x0, x1) for py in (y0, y1)]        # where the page matrix puts the MediaBox
        hull = (min(p[0] for p in corners), min(p[1] for p in corners), max(p[0] for p in corners), max(p[1] for p in corners))
        near = lambda u, v: abs(u - v) <= 1e-9 * max(1.0, abs(u), abs(v))
        ok = tuple(out["ctm"][:4]) == ROT[90 * k] and tuple(out["bbox"]) == (0, 0, W, H) and all(near(u, v) for u, v in zip(hull, (0, 0, W, H)))
        if ok is False and tuple(out["ctm"][:4]) == ROT[90 * k] and tuple(out["bbox"]) == (0, 0, W, H):
            return "MediaBox %r Rotate %d: the page matrix %r maps the MediaBox onto %r, not onto (0, 0, %r, %r)" % ((x0, y0, x1, y1), rot, out["ctm"], hull, W, H)
        return None if ok else "MediaBox %r Rotate %d: ctm %r, LTPage.bbox %r; expected rotation %r and bbox (0,0,%r,%r)" % ((x0, y0, x1, y1), rot, out["ctm"], out["bbox"], ROT[90 * k], W, H)
    if harness == "H4_boxes":
        from pdfminer.psparser import LIT
        good = [1.0, 2.0, 30.0, 40.0]
        attrs = {}
        form = inp.get("form", 0)
        doc = _StubDoc()

        def wrap(box, base):
            from pdfminer.pdftypes import PDFObjRef
            if form == 1:
                for i, v in enumerate(box):
                    doc.objs[base + i] = v
                return [PDFObjRef(doc, base + i) for i in range(len(box))]
            if form == 2:
                doc.objs[base] = box
                return PDFObjRef(doc, base)
            return box
        if inp["mk"]:
            attrs["MediaBox"] = [None, wrap(good, 20), good[:3], 7, [1.0, LIT("A"), 30.0, 40.0]][inp["mk"]]
        if inp["ck"]:
            attrs["CropBox"] = [None, wrap([2.0, 3.0, 29.0, 39.0], 30), good[:2], 7, [1.0, LIT("A"), 30.0, 40.0]][inp["ck"]]
        try:
            page = pp.PDFPage(doc, 1, attrs, None)
        except Exception as e:
            return "PDFPage(attrs=%r) raised %r instead of falling back to the default box" % (attrs, e)
        emb = tuple(good) if inp["mk"] == 1 else (0.0, 0.0, 612.0, 792.0)
        ecb = (2.0, 3.0, 29.0, 39.0) if inp["ck"] == 1 else emb
        if tuple(page.mediabox) != emb or tuple(page.cropbox) != ecb:
            return "PDFPage(attrs=%r): mediabox %r cropbox %r, expected %r %r" % (attrs, page.mediabox, page.cropbox, emb, ecb)
        return None
    raise KeyError(harness)


def jobs(tier):
    J = [Job("H5_deep", "h5_deep", {}, 200), Job("H6_pages", "h6_pages", {}, 200), Job("H3_rotate", "h3_rotate", {}, 60), Job("H4_ctm", "h4_ctm", {}, 150), Job("H4_boxes", "h4_boxes", {}, 60)]
    if tier == "quick":
        for k in range(3):
            J.append(Job("H1_select:n6:%d" % k, "h1_select", {"npages": 6, "part": [k, 3, 6]}, 150, "H1_select"))
        for key in ("MediaBox", "Rotate", "CropBox", "Resources"):
            for k in range(3):
                J.append(Job("H2_walk:3:%s:%d" % (key, k), "h2_walk", {"nodes": 3, "keys": [key], "part": [k, 3, 8]}, 200, "H2_walk"))
    else:
        for k in range(4):
            J.append(Job("H1_select:n8:%d" % k, "h1_select", {"npages": 8, "part": [k, 4, 7]}, 600, "H1_select"))
        for key in ("MediaBox", "Rotate", "CropBox", "Resources"):
            for k in range(4):
                J.append(Job("H2_walk:3:%s:%d" % (key, k), "h2_walk", {"nodes": 3, "keys": [key], "part": [k, 4, 9]}, 900, "H2_walk"))
        for k in range(16):
            J.append(Job("H2_walk:3:MR:%d" % k, "h2_walk", {"nodes": 3, "keys": ["MediaBox", "Rotate"], "part": [k, 16, 11]}, 1500, "H2_walk"))
        for k in range(16):
            J.append(Job("H2_walk:4:M:%d" % k, "h2_walk", {"nodes": 4, "keys": ["MediaBox"], "part": [k, 16, 11]}, 1500, "H2_walk"))
    return J
