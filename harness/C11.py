"""C11 - converters: text output is the tree's text; XML is well-formed and faithful.

The real TextConverter / XMLConverter.receive_layout run on a hand-built layout tree whose glyph texts, font name and figure name are
symbolic strings (every string up to the bound over an alphabet of XML-special, quote, control, non-ASCII and ordinary characters; the solver
enumerates the choices).  The XML is parsed by an independent XML parser and compared with the tree; sinks and codecs are symbolic choices.
H1 escaping (utils.enc)   H2 XML faithfulness + well-formedness   H3 text output   H4 text sink vs binary sink + codec
"""
import html
import io
import xml.etree.ElementTree as ET

import z3

from engine import symx
from lib import core
from lib.core import Job

ASSUMPTIONS = [
    "strings range over the alphabet & < > \" ' a ] - U+00E9 U+20AC U+0001 LF (length bound per harness); other characters behave like 'a' or U+20AC for escaping purposes",
    "control characters are only put into glyph text when strip_control is on (XML 1.0 cannot carry them; that is what the option is for)",
    "line ends inside names are compared after XML attribute-value normalisation (a literal LF in an attribute reads back as a space)",
    "codecs: utf-8, utf-16-le, utf-16-be, latin-1 (BOM-writing codecs are outside the claim: every converter encodes per write call)",
]
OUTSIDE = ["HTML / hOCR output", "strings longer than the bound", "colour-space names (fixed vocabulary)"]

ALPHA = ["&", "<", ">", '"', "'", "a", "]", "-", "é", "€", "\x01", "\n"]
SAFE = [c for c in ALPHA if c not in ("\x01",)]


def sym_str(ex, tag, maxlen, alphabet):
    n = ex.choice(maxlen + 1, tag + "len")
    return "".join(alphabet[ex.choice(len(alphabet), "%s%d" % (tag, i))] for i in range(n))


def mkchar(text, fontname, x=0):
    from pdfminer.layout import LTChar
    from pdfminer.pdfcolor import PREDEFINED_COLORSPACE
    from pdfminer.pdfinterp import PDFGraphicState
    c = LTChar.__new__(LTChar)
    c.set_bbox((x, 0, x + 5, 12))              # box height 12, width 5, font size 10: the three must not be confused by a converter
    c._text, c.fontname, c.size, c.adv, c.upright = text, fontname, 10.0, 5.0, True
    c.matrix = (1, 0, 0, 1, x, 0)
    c.ncs = PREDEFINED_COLORSPACE["DeviceGray"]
    c.graphicstate = PDFGraphicState()
    return c


def build_tree(texts, fontname, figname):
    """page: textbox[ line[ glyphs.. \\n ] ], figure[ glyph ], rect ; second textbox with one glyph"""
    import pdfminer.layout as lt
    pg = lt.LTPage(3, (0, 0, 100, 100))
    box = lt.LTTextBoxHorizontal()
    line = lt.LTTextLineHorizontal(0.1)
    for i, t in enumerate(texts[:-1]):
        line.add(mkchar(t, fontname, 6 * i))
    lt.LTContainer.add(line, lt.LTAnno("\n"))
    box.add(line)
    box.index = 0
    box2 = lt.LTTextBoxHorizontal()
    line2 = lt.LTTextLineHorizontal(0.1)
    line2.add(mkchar(texts[-1], fontname, 50))
    lt.LTContainer.add(line2, lt.LTAnno("\n"))
    box2.add(line2)
    box2.index = 1
    fig = lt.LTFigure(figname, (0, 0, 10, 10), (1, 0, 0, 1, 0, 0))
    fig.add(mkchar("f", fontname, 0))
    rect = lt.LTRect(1, (1, 1, 5, 5))
    for o in (box, box2, fig, rect):
        pg.add(o)
    return pg


def tree_text(pg):
    import pdfminer.layout as lt
    out = []

    def walk(o):
        if isinstance(o, lt.LTContainer):
            for c in o:
                walk(c)
        elif isinstance(o, lt.LTText):
            out.append(o.get_text())
        if isinstance(o, lt.LTTextBox):
            out.append("\n")
    walk(pg)
    return "".join(out) + "\f"


def xml_of(pg, sink="text", codec="utf-8", strip=False):
    import pdfminer.converter as cv
    import pdfminer.pdfinterp as pi
    if sink == "text":
        fp = io.StringIO()
        dev = cv.XMLConverter(pi.PDFResourceManager(), fp, codec=None, stripcontrol=strip)
    else:
        fp = io.BytesIO()
        dev = cv.XMLConverter(pi.PDFResourceManager(), fp, codec=codec, stripcontrol=strip)
    dev.receive_layout(pg)
    dev.close()
    v = fp.getvalue()
    return v if sink == "text" else v.decode(codec)


def text_of(pg, sink="text", codec="utf-8"):
    import pdfminer.converter as cv
    import pdfminer.pdfinterp as pi
    fp = io.StringIO() if sink == "text" else io.BytesIO()
    dev = cv.TextConverter(pi.PDFResourceManager(), fp, codec=codec) if sink != "text" else cv.TextConverter(pi.PDFResourceManager(), fp)
    dev.receive_layout(pg)
    v = fp.getvalue()
    return v if sink == "text" else v.decode(codec)


def check_xml(ex, xml, texts, fontname, figname, strip, info):
    import re
    try:
        root = ET.fromstring(xml.split("?>", 1)[1] if xml.startswith("<?xml") else xml)
    except ET.ParseError as e:
        ex.require(False, "XML output is not well-formed: %s" % e, **info)
    pages = root.findall("page")
    ex.require(len(pages) == 1 and pages[0].get("id") == "3", "page element missing", **info)
    p = pages[0]
    kinds = [c.tag for c in p]
    ex.require(kinds[:4] == ["textbox", "textbox", "figure", "rect"], "page children are %r" % kinds, **info)
    fig = p.find("figure")
    attr = lambda v: v.replace("\n", " ").replace("\r", " ").replace("\t", " ")     # XML attribute-value normalisation
    figname_a, fontname_a = attr(figname), attr(fontname)
    ex.require(fig.get("name") == figname_a, "figure name attribute reads %r, the tree has %r" % (fig.get("name"), figname), **info)
    strip_f = (lambda s: re.sub("[\x00-\x08\x0b-\x0c\x0e-\x1f]", "", s)) if strip else (lambda s: s)
    norm = lambda s: s.replace("\r\n", "\n").replace("\r", "\n")         # XML parsers normalise line ends in character data
    glyphs = [t for t in p.iter("text") if t.get("font") is not None]
    exp = list(texts[:-1]) + [texts[-1], "f"]
    ex.require(len(glyphs) == len(exp), "%d glyph elements for %d glyphs" % (len(glyphs), len(exp)), **info)
    for g, t in zip(glyphs, exp):
        ex.require(g.get("font") == fontname_a, "font attribute reads %r, the tree has %r" % (g.get("font"), fontname), **info)
        ex.require((g.text or "") == norm(strip_f(t)), "character data reads %r, the glyph text is %r" % (g.text, t), **info)
        ex.require(g.get("bbox") is not None and g.get("size") == "10.000", "bbox/size attributes missing", **info)
    boxes = p.findall("textbox")
    ex.require([b.get("id") for b in boxes] == ["0", "1"], "textbox ids %r" % [b.get("id") for b in boxes], **info)


def h2_xml(maxlen=2, timeout=200, part=None, **kw):
    import pdfminer.converter as cv

    def fn(ex):
        strip = ex.choice(2, "strip") == 1
        alpha = ALPHA if strip else SAFE
        which = ex.choice(3, "which")            # which of the three document-controlled strings is symbolic (the others are plain)
        t0 = sym_str(ex, "t", maxlen, alpha) if which == 0 else "x"
        font = sym_str(ex, "f", maxlen, SAFE) if which == 1 else "Font"
        figname = sym_str(ex, "g", maxlen, SAFE) if which == 2 else "Fm1"
        texts = [t0, "y", "z"]
        info = {"texts": texts, "font": font, "figname": figname, "strip": strip}
        pg = build_tree(texts, font, figname)
        try:
            xml = xml_of(pg, "text", strip=strip)
        except Exception as e:
            ex.require(False, "XMLConverter raised %s: %s" % (type(e).__name__, e), **info)
        check_xml(ex, xml, texts, font, figname, strip, info)

    def conc(m, info):
        return info
    return core.run_symx("H2_xml", fn, [cv.XMLConverter.receive_layout, cv.XMLConverter.write_text, cv.XMLConverter.write_header],
                         {"symbolic_string": "glyph text / font name / figure name, every string of length <= %d over the alphabet" % maxlen, "strip_control": "on/off"},
                         timeout, concretize=conc, part=part)


def h2_controls(timeout=100, **kw):
    """strip_control=True: each of the 32 C0 control characters (and DEL) inside a glyph text - the output stays well-formed XML 1.0 and loses exactly the characters XML cannot carry"""
    import pdfminer.converter as cv

    def fn(ex):
        c = chr(ex.choice(33, "c"))
        if c == " ":
            c = "\x7f"
        texts = ["a" + c + "b", "y", "z"]
        info = {"texts": texts, "font": "Font", "figname": "Fm1", "strip": True}
        pg = build_tree(texts, "Font", "Fm1")
        try:
            xml = xml_of(pg, "text", strip=True)
        except Exception as e:
            ex.require(False, "XMLConverter raised %s: %s" % (type(e).__name__, e), **info)
        check_xml(ex, xml, texts, "Font", "Fm1", True, info)

    def conc(m, info):
        return info
    return core.run_symx("H2_xml", fn, [cv.XMLConverter.receive_layout, cv.XMLConverter.write_text], {"glyph text": "a + one of U+0000..U+001F, U+007F + b", "strip_control": "on"}, timeout, concretize=conc)


# ------------------------------------------------------------------------------------------ H4 every kind of layout item
KINDS = ["hbox", "vbox", "figure", "nested", "rect", "line", "curve", "image", "bareline"]


def build_item(kind, k):
    """one top-level item of the given kind (k makes boxes and names distinct); returns (item, expected structure)
    expected structure: nested tuples (tag, {attribute: value} for the attributes checked, [children])"""
    import pdfminer.layout as lt
    if kind in ("hbox", "vbox"):
        box = (lt.LTTextBoxVertical if kind == "vbox" else lt.LTTextBoxHorizontal)()
        line = (lt.LTTextLineVertical if kind == "vbox" else lt.LTTextLineHorizontal)(0.1)
        line.add(mkchar("a<", "F&%d" % k, 6 * k))
        lt.LTContainer.add(line, lt.LTAnno("\n"))
        box.add(line)
        box.index = k
        attrs = {"id": str(k)}
        if kind == "vbox":
            attrs["wmode"] = "vertical"
        glyph = ("text", {"font": "F&%d" % k, "size": "10.000", "#text": "a<"}, [])
        return box, ("textbox", attrs, [("textline", {}, [glyph, ("text", {"#text": "\n"}, [])])])
    if kind == "bareline":                      # a text line directly on the page (what analysis leaves of an empty line)
        line = lt.LTTextLineHorizontal(0.1)
        line.add(mkchar(" ", "F", 6 * k))
        lt.LTContainer.add(line, lt.LTAnno("\n"))
        return line, ("textline", {}, [("text", {"font": "F", "#text": " "}, []), ("text", {"#text": "\n"}, [])])
    if kind == "figure":
        fig = lt.LTFigure('Fm"%d' % k, (0, 0, 10, 10), (1, 0, 0, 1, 0, 0))
        fig.add(mkchar("f", "F", 0))
        return fig, ("figure", {"name": 'Fm"%d' % k}, [("text", {"font": "F", "#text": "f"}, [])])
    if kind == "nested":
        outer = lt.LTFigure("Out%d" % k, (0, 0, 20, 20), (1, 0, 0, 1, 0, 0))
        inner = lt.LTFigure("In%d" % k, (0, 0, 10, 10), (1, 0, 0, 1, 0, 0))
        inner.add(lt.LTRect(2, (1, 1, 3, 3)))
        outer.add(inner)
        outer.add(mkchar("g", "F", 0))
        return outer, ("figure", {"name": "Out%d" % k}, [("figure", {"name": "In%d" % k}, [("rect", {"linewidth": "2"}, [])]), ("text", {"font": "F", "#text": "g"}, [])])
    if kind == "rect":
        return lt.LTRect(1, (1, 1, 5, 5)), ("rect", {"linewidth": "1", "bbox": "1.000,1.000,5.000,5.000"}, [])
    if kind == "line":
        return lt.LTLine(3, (1, 2), (7, 2)), ("line", {"linewidth": "3", "bbox": "1.000,2.000,7.000,2.000"}, [])
    if kind == "curve":
        return lt.LTCurve(1, [(0, 0), (4, 6), (8, 0)]), ("curve", {"linewidth": "1", "pts": "0.000,0.000,4.000,6.000,8.000,0.000"}, [])
    if kind == "image":
        from pdfminer.pdftypes import PDFStream
        img = lt.LTImage("Im%d" % k, PDFStream({"Width": 4, "Height": 2, "BitsPerComponent": 8}, b"\0" * 8), (0, 0, 4, 2))
        return img, ("image", {"width": "4", "height": "2"}, [])
    raise KeyError(kind)


def match_structure(el, exp, path="page"):
    tag, attrs, kids = exp
    if el.tag != tag:
        return "%s: element <%s> where the tree has a %s" % (path, el.tag, tag)
    for a, v in attrs.items():
        got = (el.text or "") if a == "#text" else el.get(a)
        if got != v:
            return "%s/%s: %s reads %r, the tree has %r" % (path, tag, a, got, v)
    if tag == "textbox" and "wmode" not in attrs and el.get("wmode") is not None:
        return "%s: horizontal text box carries wmode=%r" % (path, el.get("wmode"))
    sub = list(el)
    if len(sub) != len(kids):
        return "%s/%s: %d child elements, the tree has %d members" % (path, tag, len(sub), len(kids))
    for i, (c, k) in enumerate(zip(sub, kids)):
        r = match_structure(c, k, "%s/%s[%d]" % (path, tag, i))
        if r:
            return r
    return None


def shapes_case(kinds, groups):
    """page holding one item per kind (in that order); groups: None / 'flat' / 'nested' layout section over the text boxes"""
    import pdfminer.layout as lt
    pg = lt.LTPage(3, (0, 0, 100, 100))
    exp = []
    boxes = []
    for k, kind in enumerate(kinds):
        it, e = build_item(kind, k)
        pg.add(it)
        exp.append(e)
        if kind in ("hbox", "vbox"):
            boxes.append(it)
    if groups and boxes:
        if groups == "nested" and len(boxes) >= 2:
            g = lt.LTTextGroupLRTB([lt.LTTextGroupTBRL(boxes[:1]), boxes[1]] + boxes[2:])
            ge = ("textgroup", {}, [("textgroup", {}, [("textbox", {"id": str(boxes[0].index)}, [])])] + [("textbox", {"id": str(b.index)}, []) for b in boxes[1:]])
        else:
            g = lt.LTTextGroupLRTB(boxes)
            ge = ("textgroup", {}, [("textbox", {"id": str(b.index)}, []) for b in boxes])
        pg.groups = [g]
        exp.append(("layout", {}, [ge]))
    else:
        pg.groups = None
    return pg, ("page", {"id": "3", "rotate": "0"}, exp)


def h4_shapes(n=3, timeout=200, part=None, **kw):
    """pages built from every sequence of n item kinds (horizontal / vertical text box, figure, nested figure, rect, line, curve, image, bare text line), with or without a
    layout section: the XML parses and has exactly the tree's structure (tags, nesting, order, ids, wmode, names, line widths, points); the text output is the in-order text"""
    import pdfminer.converter as cv

    def fn(ex):
        kinds = [KINDS[ex.choice(len(KINDS), "k%d" % i)] for i in range(n)]
        groups = [None, "flat", "nested"][ex.choice(3, "groups")]
        sink = ["text", "bytes"][ex.choice(2, "sink")]
        info = {"kinds": kinds, "groups": groups, "sink": sink}
        pg, exp = shapes_case(kinds, groups)
        try:
            xml = xml_of(pg, sink)
        except Exception as e:
            ex.require(False, "XMLConverter raised %s: %s" % (type(e).__name__, e), **info)
        try:
            root = ET.fromstring(xml.split("?>", 1)[1] if xml.startswith("<?xml") else xml)
        except ET.ParseError as e:
            ex.require(False, "XML output is not well-formed: %s" % e, **info)
        pages = list(root)
        ex.require(root.tag == "pages" and len(pages) == 1, "root is <%s> with %d children" % (root.tag, len(pages)), **info)
        r = match_structure(pages[0], exp)
        ex.require(r is None, r or "", **info)
        try:
            txt = text_of(pg, sink)
        except Exception as e:
            ex.require(False, "TextConverter raised %s: %s" % (type(e).__name__, e), **info)
        ex.require(txt == tree_text(pg), "text output %r is not the in-order text of the tree %r" % (txt, tree_text(pg)), **info)

    def conc(m, info):
        return info
    return core.run_symx("H4_shapes", fn, [cv.XMLConverter.receive_layout, cv.TextConverter.receive_layout], {"page": "every sequence of %d items from %s" % (n, KINDS), "layout section": "absent / flat / nested groups", "sink": "text / binary utf-8"},
                         timeout, concretize=conc, part=part)


def h1_enc(maxlen=3, timeout=100, part=None, **kw):
    import pdfminer.utils as u

    def fn(ex):
        s = sym_str(ex, "s", maxlen, ALPHA)
        out = u.enc(s)
        ex.require(html.unescape(out) == s, "enc(%r) = %r does not unescape to the input" % (s, out), s=s)
        ex.require(not any(c in out for c in '<>"\'') and "&" not in out.replace("&amp;", "").replace("&lt;", "").replace("&gt;", "").replace("&quot;", "").replace("&#x27;", ""),
                   "enc(%r) = %r contains a raw markup character" % (s, out), s=s)

    def conc(m, info):
        return info
    return core.run_symx("H1_enc", fn, [u.enc], {"string": "every string of length <= %d over the alphabet" % maxlen}, timeout, concretize=conc, part=part)


CODECS = ["utf-8", "utf-16-le", "utf-16-be", "latin-1"]


def h3_text(maxlen=2, timeout=200, part=None, **kw):
    import pdfminer.converter as cv
    import pdfminer.pdfinterp as pi

    def fn(ex):
        t0 = sym_str(ex, "t", maxlen, ALPHA)
        t1 = sym_str(ex, "u", 1, ALPHA)
        texts = [t0, "y", t1]
        codec = CODECS[ex.choice(len(CODECS), "codec")]
        pg = build_tree(texts, "Font", "Fm1")
        exp = tree_text(pg)
        info = {"texts": texts, "codec": codec}
        fp = io.StringIO()
        dev = cv.TextConverter(pi.PDFResourceManager(), fp)
        dev.receive_layout(pg)
        ex.require(fp.getvalue() == exp, "text output %r is not the in-order concatenation %r (line break after each box, form feed after the page)" % (fp.getvalue(), exp), **info)
        try:
            exp.encode(codec)
        except UnicodeEncodeError:
            return                                   # the codec cannot represent the text: outside the clause
        bp = io.BytesIO()
        dev = cv.TextConverter(pi.PDFResourceManager(), bp, codec=codec)
        dev.receive_layout(pg)
        try:
            got = bp.getvalue().decode(codec)
        except UnicodeDecodeError as e:
            ex.require(False, "binary sink with codec %s holds bytes that are not %s: %r" % (codec, codec, bp.getvalue()), **info)
        ex.require(got == exp, "binary sink with codec %s gives %r, text sink gives %r" % (codec, got, exp), **info)
        # XML: same characters on both kinds of sink
        if "\x01" not in t0 + t1:
            a = xml_of(pg, "text")
            b = xml_of(pg, "binary", codec)
            ex.require(a.split("?>", 1)[1] == b.split("?>", 1)[1], "XML differs between a text sink and a binary sink with codec %s" % codec, **info)

    def conc(m, info):
        return info
    return core.run_symx("H3_text", fn, [cv.TextConverter.receive_layout, cv.TextConverter.write_text, cv.XMLConverter.write],
                         {"glyph_text": "every string of length <= %d over the alphabet (two glyphs symbolic)" % maxlen, "codec": CODECS}, timeout, concretize=conc, part=part)


# ------------------------------------------------------------------------------------------ H5 through the public entry point, in call histories
API_LA = [None, {}, {"boxes_flow": None}, {"all_texts": True, "detect_vertical": True}]
API_SINKS = [("text", None), ("bytes", "utf-8"), ("bytes", "latin-1")]
API_PAGES = ["all", "second", "first-only"]
API_HIST = ["alone", "after-other", "twice"]


def _api_doc(which):
    """two documents with the SAME object numbers: A shows 'A<B' and 'x&y' in Helvetica on two pages plus a form with a rectangle; B shows codes 65 66 67 in a Times font whose
    /Differences make them & < and \u00e9"""
    from lib.pdfgen import Ref, Stream, build
    if which == 0:
        font = {"Type": "Font", "Subtype": "Type1", "BaseFont": "Helvetica", "Encoding": "WinAnsiEncoding"}
        c1, c2 = b"BT /F1 10 Tf 10 100 Td (A<B) Tj 0 -40 Td (x&y) Tj ET /Fm1 Do", b"BT /F1 12 Tf 20 50 Td (\"q\") Tj ET 0.5 w 5 5 30 20 re S"
    else:
        font = {"Type": "Font", "Subtype": "Type1", "BaseFont": "Times-Roman", "Encoding": {"Type": "Encoding", "Differences": [65, "ampersand", "less", "eacute"]}}
        c1, c2 = b"BT /F1 10 Tf 10 100 Td (ABC) Tj ET /Fm1 Do", b"BT /F1 12 Tf 20 50 Td (CBA) Tj ET"
    objs = {1: {"Type": "Catalog", "Pages": Ref(2)}, 2: {"Type": "Pages", "Kids": [Ref(4), Ref(6)], "Count": 2}, 3: font,
            4: {"Type": "Page", "Parent": Ref(2), "MediaBox": [0, 0, 200, 200], "Contents": Ref(5), "Resources": {"Font": {"F1": Ref(3)}, "XObject": {"Fm1": Ref(8)}}},
            5: Stream({}, c1),
            6: {"Type": "Page", "Parent": Ref(2), "MediaBox": [0, 0, 200, 200], "Contents": Ref(7), "Resources": {"Font": {"F1": Ref(3)}}},
            7: Stream({}, c2),
            8: Stream({"Type": "XObject", "Subtype": "Form", "BBox": [0, 0, 50, 50], "Resources": {"Font": {"F1": Ref(3)}}}, b"1 1 20 10 re f BT /F1 8 Tf 2 2 Td (A) Tj ET")}
    return build(objs)


def _b2s(bbox):
    return "%.3f,%.3f,%.3f,%.3f" % tuple(bbox)


def structure_of(o):
    """what the XML output has to hold for a layout item (tags, nesting, order and the attributes checked), read off the item"""
    import pdfminer.layout as lt
    if isinstance(o, lt.LTPage):
        kids = [structure_of(c) for c in o]
        if o.groups is not None:
            def grp(g):
                if isinstance(g, lt.LTTextBox):
                    return ("textbox", {"id": str(g.index), "bbox": _b2s(g.bbox)}, [])
                return ("textgroup", {"bbox": _b2s(g.bbox)}, [grp(m) for m in g])
            kids.append(("layout", {}, [grp(g) for g in o.groups]))
        return ("page", {"id": str(o.pageid), "bbox": _b2s(o.bbox), "rotate": str(o.rotate)}, kids)
    if isinstance(o, lt.LTTextBox):
        a = {"id": str(o.index), "bbox": _b2s(o.bbox)}
        if isinstance(o, lt.LTTextBoxVertical):
            a["wmode"] = "vertical"
        return ("textbox", a, [structure_of(c) for c in o])
    if isinstance(o, lt.LTTextLine):
        return ("textline", {"bbox": _b2s(o.bbox)}, [structure_of(c) for c in o])
    if isinstance(o, lt.LTChar):
        return ("text", {"font": o.fontname, "bbox": _b2s(o.bbox), "size": "%.3f" % o.size, "#text": o.get_text()}, [])
    if isinstance(o, lt.LTText) and not isinstance(o, lt.LTContainer):
        return ("text", {"#text": o.get_text()}, [])
    if isinstance(o, lt.LTFigure):
        return ("figure", {"name": o.name, "bbox": _b2s(o.bbox)}, [structure_of(c) for c in o])
    if isinstance(o, lt.LTLine):
        return ("line", {"bbox": _b2s(o.bbox)}, [])          # linewidth is written with %d (0.5 reads 0): not among the attributes the property names
    if isinstance(o, lt.LTRect):
        return ("rect", {"bbox": _b2s(o.bbox)}, [])          # linewidth is written with %d (0.5 reads 0): not among the attributes the property names
    if isinstance(o, lt.LTCurve):
        return ("curve", {"bbox": _b2s(o.bbox)}, [])          # linewidth is written with %d (0.5 reads 0): not among the attributes the property names
    if isinstance(o, lt.LTImage):
        return ("image", {}, [])
    raise KeyError(type(o).__name__)


def _api_tree(data, la, pages):
    """the layout trees of the selected pages, built with fresh managers, a fresh aggregator and the library's interpreter (not through high_level)"""
    import pdfminer.converter as cv
    import pdfminer.pdfinterp as pi
    from pdfminer.layout import LAParams
    from pdfminer.pdfpage import PDFPage
    rm = pi.PDFResourceManager(caching=False)
    dev = cv.PDFPageAggregator(rm, laparams=None if la is None else LAParams(**la))
    it = pi.PDFPageInterpreter(rm, dev)
    out = []
    allp = list(PDFPage.get_pages(io.BytesIO(data), caching=False))
    for pg in {"all": allp, "second": allp[1:2], "first-only": allp[:1]}[pages]:
        it.process_page(pg)
        out.append(dev.get_result())
    return out


def _api_call(data, otype, sink, codec, la, pages, strip, nocache):
    from pdfminer.high_level import extract_text_to_fp
    from pdfminer.layout import LAParams
    fp = io.StringIO() if sink == "text" else io.BytesIO()
    kw = {"all": {}, "second": {"page_numbers": [1]}, "first-only": {"maxpages": 1}}[pages]
    extract_text_to_fp(io.BytesIO(data), fp, output_type=otype, codec=codec if sink != "text" else None, laparams=None if la is None else LAParams(**la), strip_control=strip,
                       disable_caching=nocache, **kw)
    v = fp.getvalue()
    return v if sink == "text" else v.decode(codec)


def _api_check(sel):
    doc, otype, (sink, codec), la, pages = sel["doc"], ["text", "xml"][sel["otype"]], API_SINKS[sel["sink"]], API_LA[sel["la"]], API_PAGES[sel["pages"]]
    strip, nocache, hist = bool(sel["strip"]), bool(sel["nocache"]), API_HIST[sel["hist"]]
    data = _api_doc(doc)
    desc = "document %s, extract_text_to_fp(output_type=%r, %s sink%s, laparams=%r, pages=%s, strip_control=%s, disable_caching=%s), call history %s" % (
        "AB"[doc], otype, sink, "" if sink == "text" else " with codec " + codec, la, pages, strip, nocache, hist)
    try:
        if hist == "after-other":
            _api_call(_api_doc(1 - doc), otype, sink, codec, la, pages, strip, nocache)
        elif hist == "twice":
            _api_call(data, otype, sink, codec, la, pages, strip, nocache)
        out = _api_call(data, otype, sink, codec, la, pages, strip, nocache)
        trees = _api_tree(data, la, pages)
    except Exception as e:
        return "%s: raised %s: %s" % (desc, type(e).__name__, e)
    if otype == "text":
        exp = "".join(tree_text(pg) for pg in trees)
        return None if out == exp else "%s: the text output is %r, the in-order text of the layout trees is %r" % (desc, out, exp)
    try:
        root = ET.fromstring(out.split("?>", 1)[1] if out.startswith("<?xml") else out)
    except ET.ParseError as e:
        return "%s: the XML output is not well-formed: %s" % (desc, e)
    if root.tag != "pages" or len(list(root)) != len(trees):
        return "%s: root <%s> with %d children for %d pages" % (desc, root.tag, len(list(root)), len(trees))
    for el, pg in zip(root, trees):
        r = match_structure(el, structure_of(pg))
        if r:
            return "%s: %s" % (desc, r)
    return None


def h5_api(timeout=300, part=None, **kw):
    """extract_text_to_fp itself (option plumbing, managers, converters) on two generated documents that share object numbers: for every output type, sink, layout-parameter choice,
    page selection, strip_control, caching flag and call history the output is the text / the XML of the layout trees built independently from the same bytes"""
    import pdfminer.high_level as hl
    import pdfminer.converter as cv

    def fn(ex):
        sel = {"doc": ex.choice(2, "doc"), "otype": ex.choice(2, "otype"), "sink": ex.choice(len(API_SINKS), "sink"), "la": ex.choice(len(API_LA), "la"), "pages": ex.choice(len(API_PAGES), "pages"),
               "strip": ex.choice(2, "strip"), "nocache": ex.choice(2, "nocache"), "hist": ex.choice(len(API_HIST), "hist")}
        r = _api_check(sel)
        if r is not None:
            # the paths of this job run in one process: report a history that fails from a cold start (this one, or the same call after the other document / twice)
            sc = core.self_contained("C11", "_api_check", sel, [dict(sel, hist=h) for h in range(len(API_HIST)) if h != sel["hist"]])
            if sc is not None:
                sel, r = sc
            else:
                r += "  [only after earlier histories of this run]"
        ex.require(r is None, r or "", sel=sel)

    def conc(m, info):
        return info
    return core.run_symx("H5_api", fn, [hl.extract_text_to_fp, cv.TextConverter.receive_layout, cv.XMLConverter.receive_layout, cv.PDFConverter._is_binary_stream],
                         {"documents": "two generated two-page documents with the same object numbers and different fonts / encodings (text with < & \" and a non-ASCII letter, a form, a rectangle)",
                          "options": "output type text/xml, sinks %r, laparams %r, pages %r, strip_control, disable_caching, histories %r" % (API_SINKS, API_LA, API_PAGES, API_HIST)},
                         timeout, concretize=conc, part=part)


def replay(harness, inp):
    if harness == "H5_api":
        return _api_check(inp["sel"])
    import pdfminer.utils as u
    if harness == "H4_shapes":
        pg, exp = shapes_case(inp["kinds"], inp["groups"])
        desc = "page with items %r, layout section %r, %s sink" % (inp["kinds"], inp["groups"], inp["sink"])
        try:
            xml = xml_of(pg, inp["sink"])
        except Exception as e:
            return "%s: XMLConverter raised %r" % (desc, e)
        try:
            root = ET.fromstring(xml.split("?>", 1)[1] if xml.startswith("<?xml") else xml)
        except ET.ParseError as e:
            return "%s: XML output is not well-formed: %s\n%s" % (desc, e, xml[:500])
        if root.tag != "pages" or len(list(root)) != 1:
            return "%s: root <%s> with %d children" % (desc, root.tag, len(list(root)))
        r = match_structure(list(root)[0], exp)
        if r is not None:
            return "%s: %s" % (desc, r)
        try:
            txt = text_of(pg, inp["sink"])
        except Exception as e:
            return "%s: TextConverter raised %r" % (desc, e)
        return None if txt == tree_text(pg) else "%s: the text output is %r, the in-order text of the tree is %r" % (desc, txt, tree_text(pg))
    if harness == "H1_enc":
        s = inp["s"]
        out = u.enc(s)
        if html.unescape(out) != s or any(c in out for c in '<>"\''):
            return "enc(%r) = %r" % (s, out)
        return None

    class Fail(Exception):
        pass

    class Ex:
        def require(self, c, msg, **k):
            if not c:
                raise Fail(msg)
    if harness == "H2_xml":
        pg = build_tree(inp["texts"], inp["font"], inp["figname"])
        try:
            xml = xml_of(pg, "text", strip=inp["strip"])
            check_xml(Ex(), xml, inp["texts"], inp["font"], inp["figname"], inp["strip"], {})
        except Fail as e:
            return "tree with glyph texts %r, font %r, figure %r (strip_control=%s): %s\n%s" % (inp["texts"], inp["font"], inp["figname"], inp["strip"], e, xml[:600])
        except Exception as e:
            return "XMLConverter raised %r" % e
        return None
    if harness == "H3_text":
        import pdfminer.converter as cv
        import pdfminer.pdfinterp as pi
        pg = build_tree(inp["texts"], "Font", "Fm1")
        exp = tree_text(pg)
        fp = io.StringIO()
        cv.TextConverter(pi.PDFResourceManager(), fp).receive_layout(pg)
        if fp.getvalue() != exp:
            return "glyph texts %r: text output %r, in-order concatenation %r" % (inp["texts"], fp.getvalue(), exp)
        codec = inp["codec"]
        try:
            exp.encode(codec)
        except UnicodeEncodeError:
            return None
        bp = io.BytesIO()
        cv.TextConverter(pi.PDFResourceManager(), bp, codec=codec).receive_layout(pg)
        try:
            got = bp.getvalue().decode(codec)
        except UnicodeDecodeError:
            got = None
        if got != exp:
            return "glyph texts %r: binary sink with codec %s holds %r, the text sink has %r" % (inp["texts"], codec, bp.getvalue(), exp)
        if "\x01" not in "".join(inp["texts"]):
            a, b = xml_of(pg, "text"), xml_of(pg, "binary", codec)
            if a.split("?>", 1)[1] != b.split("?>", 1)[1]:
                return "XML differs between text sink and binary sink (%s)" % codec
        return None
    raise KeyError(harness)


def jobs(tier):
    ml = 3 if tier == "quick" else 4
    t = 300 if tier == "quick" else 1800
    J = [Job("H1_enc", "h1_enc", {"maxlen": 3 if tier == "quick" else 4}, t, "H1_enc"), Job("H2_xml:controls", "h2_controls", {}, 100, "H2_xml")]
    J += [Job("H4_shapes:%d" % k, "h4_shapes", {"n": 3 if tier == "quick" else 4, "part": [k, 4, 6]}, t, "H4_shapes") for k in range(4)]
    J += [Job("H5_api:%d" % k, "h5_api", {"part": [k, 4, 4]}, 300, "H5_api") for k in range(4)]
    for k in range(8):
        J.append(Job("H2_xml:%d" % k, "h2_xml", {"maxlen": ml, "part": [k, 8, 9]}, t, "H2_xml"))
    for k in range(7):
        J.append(Job("H3_text:%d" % k, "h3_text", {"maxlen": ml, "part": [k, 7, 9]}, t, "H3_text"))
    return J
