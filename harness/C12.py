"""C12 - extraction is a pure function: deterministic, cache- and history-independent (reduction to frame conditions).

Histories and interleavings of whole extract_* calls are whole-program runs.  The only channel through which one call can influence another
is process-wide mutable state and objects shared through caches; the claim is that every operation touching them is frame-preserving from any
state (the induction from there to history independence is an argument of DESIGN.md, not something the solver checks):
H1 EncodingDB.get_encoding leaves the shared tables unchanged (two-call histories)        H2 CMap.use_cmap deep-copies
H3 literal / keyword interning is a function of the name; init_resources copies the predefined colour spaces
H4 PDFResourceManager.get_font does not modify the font dictionaries it is given and gives equivalent fonts with caching on or off
H5 resolve_all / decipher_all are idempotent on already processed objects                 H6 the CMapDB caches (C07.H5)
H7 small end-to-end histories: documents that share object numbers and font names, every call history of length <= 3, caching flag, page-at-a-time vs together
H0 inventory of module- and class-level mutable containers (recomputed from the AST of the current tree; reported in the evidence)
"""
import ast
import copy
import io
import os

import z3

from engine import symx
from lib import core, pdfgen
from lib.core import Job
from lib.pdfgen import Ref, Stream

ASSUMPTIONS = [
    "the step from frame conditions to independence of arbitrary call histories is an argument (DESIGN.md 4.C12), not a solver result",
    "H7 uses a pool of two small generated documents; it is an enumeration of histories through symbolic choices",
]
OUTSIDE = ["thread interleavings", "histories over large real documents", "ordering of equal-distance text boxes by object address (see DESIGN.md 7.1)"]

KNOWN_STATE = {"encodingdb.EncodingDB.std2unicode", "encodingdb.EncodingDB.mac2unicode", "encodingdb.EncodingDB.win2unicode", "encodingdb.EncodingDB.pdf2unicode",
               "encodingdb.EncodingDB.encodings", "cmapdb.CMapDB._cmap_cache", "cmapdb.CMapDB._umap_cache", "pdfcolor.PREDEFINED_COLORSPACE"}


def inventory():
    """module-level and class-level names bound to dict/list/set displays or constructor calls, from the AST of every pdfminer module"""
    import pdfminer
    root = os.path.dirname(pdfminer.__file__)
    found = []
    for fn in sorted(os.listdir(root)):
        if not fn.endswith(".py"):
            continue
        tree = ast.parse(open(os.path.join(root, fn)).read())

        def scan(body, prefix):
            for node in body:
                if isinstance(node, ast.ClassDef):
                    scan(node.body, prefix + node.name + ".")
                targets, value = [], None
                if isinstance(node, ast.Assign):
                    targets, value = node.targets, node.value
                elif isinstance(node, ast.AnnAssign) and node.value is not None:
                    targets, value = [node.target], node.value
                if value is None:
                    continue
                mutable = isinstance(value, (ast.Dict, ast.List, ast.Set, ast.DictComp, ast.ListComp, ast.SetComp)) or (
                    isinstance(value, ast.Call) and getattr(value.func, "id", getattr(value.func, "attr", "")) in ("dict", "list", "set", "OrderedDict", "defaultdict"))
                if mutable:
                    for t in targets:
                        if isinstance(t, ast.Name):
                            found.append("%s.%s%s" % (fn[:-3], prefix, t.id))
        scan(tree.body, "")
    return found


def h0_inventory(timeout=60, **kw):
    import pdfminer.encodingdb as ed

    def fn(ex):
        inv = inventory()
        ex.notes.append("mutable module/class level containers: %d" % len(inv))
        ex.require(KNOWN_STATE <= set(inv) | {"encodingdb.EncodingDB.encodings"}, "the inventory of shared state no longer contains %r" % sorted(KNOWN_STATE - set(inv)), missing=sorted(KNOWN_STATE - set(inv)))
    r = core.run_symx("H0_inventory", fn, [ed.EncodingDB.get_encoding], {"scan": "AST of pdfminer/*.py"}, timeout, concretize=lambda m, i: i)
    r["extra"]["inventory"] = inventory()
    return r


def h1_encoding(timeout=200, part=None, **kw):
    from harness import C06
    r = C06.h1_differences(timeout=timeout, part=part, maxitems=2)
    r["harness"] = "H1_encoding"
    return r


def h2_usecmap(timeout=100, **kw):
    import pdfminer.cmapdb as cm

    def fn(ex):
        src = cm.FileCMap()
        codes = [("A", 1), ("\x81\x40", 2), ("\x81\x41", 3), ("\x82\x40\x41", 4)]
        present = [c for i, c in enumerate(codes) if ex.choice(2, "c%d" % i)]
        for code, cid in present:
            src.add_code2cid(code, cid)
        before = copy.deepcopy(src.code2cid)
        dst = cm.FileCMap()
        dst.use_cmap(src)
        ex.require(dst.code2cid == before, "use_cmap does not copy the source mapping", present=present)
        # mutate the copy at every level
        which = ex.choice(3, "mutate")
        if which == 0:
            dst.add_code2cid("\x81\x42", 9)
        elif which == 1:
            dst.add_code2cid("A", 7)
        else:
            dst.add_code2cid("\x82\x40\x42", 8)
        ex.require(src.code2cid == before, "changing a CMap that used another one changes the used one (shallow copy)", present=present, which=which)

    def conc(m, info):
        return info
    return core.run_symx("H2_usecmap", fn, [cm.CMap.use_cmap, cm.FileCMap.add_code2cid], {"source_codes": "every subset of 4 codes (1-3 bytes)", "mutation": "3 kinds, at depth 1-3"}, timeout, concretize=conc)


NAMEPOOL = ["A", "B", "AB", "", "Font", "é"]


def h3_intern(timeout=100, **kw):
    import pdfminer.psparser as ps
    import pdfminer.pdfinterp as pi
    import pdfminer.pdfcolor as pc

    def fn(ex):
        hist = [NAMEPOOL[ex.choice(len(NAMEPOOL), "h%d" % i)] for i in range(2)]
        a = NAMEPOOL[ex.choice(len(NAMEPOOL), "a")]
        b = NAMEPOOL[ex.choice(len(NAMEPOOL), "b")]
        for h in hist:
            ps.LIT(h)
            ps.KWD(h.encode("utf-8"))
        ex.require((ps.LIT(a) is ps.LIT(b)) == (a == b), "LIT(%r) is LIT(%r) disagrees with name equality after interning %r" % (a, b, hist), a=a, b=b, hist=hist)
        ex.require((ps.KWD(a.encode()) is ps.KWD(b.encode())) == (a == b), "KWD interning disagrees with name equality", a=a, b=b, hist=hist)
        ex.require(ps.literal_name(ps.LIT(a)) == a and ps.keyword_name(ps.KWD(a.encode())) == a, "interned name does not read back", a=a, b=b, hist=hist)
        # colour spaces: an interpreter gets its own copy of the predefined map
        before = dict(pc.PREDEFINED_COLORSPACE)
        it = pi.PDFPageInterpreter(pi.PDFResourceManager(), None)
        from pdfminer.pdftypes import PDFStream
        it.init_resources({"ColorSpace": {a or "X": [ps.LIT("ICCBased"), PDFStream({"N": 3}, b"")], "DeviceGray": ps.LIT("DeviceRGB")}})
        ex.require(dict(pc.PREDEFINED_COLORSPACE) == before, "init_resources changed the process-wide PREDEFINED_COLORSPACE table", a=a, b=b, hist=hist)

    def conc(m, info):
        return info
    return core.run_symx("H3_intern", fn, [ps.PSSymbolTable.intern, pi.PDFPageInterpreter.init_resources], {"names": NAMEPOOL, "history": "2 earlier interns"}, timeout, concretize=conc)


def _fontspecs():
    from pdfminer.psparser import LIT
    from pdfminer.pdftypes import PDFStream
    tu = PDFStream({}, b"/CIDInit /ProcSet findresource begin 12 dict begin begincmap 1 begincodespacerange <0000> <ffff> endcodespacerange 1 beginbfchar <0022> <0058> endbfchar endcmap end end")
    desc = {"Type": LIT("Font"), "Subtype": LIT("CIDFontType2"), "BaseFont": LIT("Shared"), "CIDSystemInfo": {"Registry": b"Adobe", "Ordering": b"Identity", "Supplement": 0},
            "FontDescriptor": {"FontName": LIT("Shared"), "FontBBox": [0, 0, 1000, 1000]}, "DW": 500}
    f1 = {"Type": LIT("Font"), "Subtype": LIT("Type0"), "BaseFont": LIT("Shared"), "Encoding": LIT("Identity-H"), "DescendantFonts": [desc], "ToUnicode": tu}
    f2 = {"Type": LIT("Font"), "Subtype": LIT("Type0"), "BaseFont": LIT("Shared"), "Encoding": LIT("Identity-V"), "DescendantFonts": [desc]}
    t1 = {"Type": LIT("Font"), "Subtype": LIT("Type1"), "BaseFont": LIT("NoStd"), "FirstChar": 65, "Widths": [500, 600], "Encoding": {"Differences": [65, LIT("B")]},
          "FontDescriptor": {"FontName": LIT("NoStd"), "FontBBox": [0, 0, 1000, 1000]}}
    t3 = {"Type": LIT("Font"), "Subtype": LIT("Type3"), "FontBBox": [0, 0, 1, 1], "FontMatrix": [0.001, 0, 0, 0.001, 0, 0], "FirstChar": 65, "Widths": [500], "Encoding": {"Differences": [65, LIT("A")]}}
    # two Type 1 fonts WITHOUT /Encoding: pf recovers its encoding from the embedded font program (65 -> B, 66 -> A), pn relies on the shared StandardEncoding table
    header = b"%!PS-AdobeFont-1.0: PF 001.000\n/Encoding 256 array\n0 1 255 {1 index exch /.notdef put} for\ndup 65 /B put\ndup 66 /A put\nreadonly def\ncurrentfile eexec\n"
    prog = PDFStream({"Length1": len(header)}, header)
    pf = {"Type": LIT("Font"), "Subtype": LIT("Type1"), "BaseFont": LIT("PF"), "FirstChar": 65, "Widths": [500, 600],
          "FontDescriptor": {"FontName": LIT("PF"), "FontBBox": [0, 0, 1000, 1000], "FontFile": prog}}
    # a second font with its own embedded program and a DIFFERENT built-in encoding (65 -> C, 67 -> A): each font keeps its own
    header2 = b"%!PS-AdobeFont-1.0: PG 001.000\n/Encoding 256 array\n0 1 255 {1 index exch /.notdef put} for\ndup 65 /C put\ndup 67 /A put\nreadonly def\ncurrentfile eexec\n"
    pg = {"Type": LIT("Font"), "Subtype": LIT("Type1"), "BaseFont": LIT("PG"), "FirstChar": 65, "Widths": [500, 600],
          "FontDescriptor": {"FontName": LIT("PG"), "FontBBox": [0, 0, 1000, 1000], "FontFile": PDFStream({"Length1": len(header2)}, header2)}}
    pn = {"Type": LIT("Font"), "Subtype": LIT("Type1"), "BaseFont": LIT("PN"), "FirstChar": 65, "Widths": [500, 600], "FontDescriptor": {"FontName": LIT("PN"), "FontBBox": [0, 0, 1000, 1000]}}
    # two uses of one standard-14 font (metrics come from the process-wide table of the library) whose encodings show different glyphs under code 65
    s1 = {"Type": LIT("Font"), "Subtype": LIT("Type1"), "BaseFont": LIT("Helvetica"), "Encoding": {"Differences": [65, LIT("W")]}}
    s2 = {"Type": LIT("Font"), "Subtype": LIT("Type1"), "BaseFont": LIT("Helvetica"), "Encoding": {"Differences": [65, LIT("i")]}}
    return {"f1": f1, "f2": f2, "t1": t1, "t3": t3, "desc": desc, "pf": pf, "pn": pn, "s1": s1, "s2": s2, "pg": pg}


FONT_NAMES = ["f1", "f2", "t1", "t3", "pf", "pn", "s1", "s2", "pg"]
FONT_IDS = {"f1": 11, "f2": 12, "t1": 13, "t3": 14, "pf": 15, "pn": 16, "s1": 17, "s2": 18, "pg": 19}
ABS_WIDTHS = {"s1": [0.944, 0.667], "s2": [0.222, 0.667]}                  # Helvetica's AFM widths of W, i and B (codes 65, 66)


ABSOLUTE = {"pg": ["C", "PDFUnicodeNotDefined"], "pf": ["B", "A"], "pn": ["A", "B"], "t1": ["B", "B"], "s1": ["W", "B"], "s2": ["i", "B"]}          # text of codes 65, 66 that does not depend on anything but the font's own dictionary


def _shared_tables():
    import pdfminer.encodingdb as ed
    import pdfminer.fontmetrics as fm
    t = {k: dict(v) for k, v in vars(ed.EncodingDB).items() if isinstance(v, dict)}
    t["FONT_METRICS"] = {k: (dict(d), dict(w)) for k, (d, w) in fm.FONT_METRICS.items()}
    return t


def _snap(x, depth=0):
    from pdfminer.pdftypes import PDFStream
    if isinstance(x, dict):
        return {k: _snap(v, depth + 1) for k, v in x.items()}
    if isinstance(x, list):
        return [_snap(v, depth + 1) for v in x]
    if isinstance(x, PDFStream):
        return ("stream", _snap(x.attrs, depth + 1))
    return x


def _font_sig(f):
    return (type(f).__name__, getattr(f, "fontname", None), f.is_vertical(), f.is_multibyte(), [f.char_width(c) for c in (34, 65, 66)],
            [(_try(f.to_unichr, c)) for c in (34, 65, 66)])


def _try(fn, *a):
    try:
        return fn(*a)
    except Exception as e:
        return type(e).__name__


def h4_getfont(ncalls=3, timeout=150, part=None, **kw):
    import pdfminer.pdfinterp as pi

    def fn(ex):
        specs = _fontspecs()
        names = FONT_NAMES
        caching = ex.choice(2, "caching") == 1
        hist = [names[ex.choice(len(names), "h%d" % i)] for i in range(ncalls)]
        ids = FONT_IDS
        # the histories of one job share this process: a failure is first re-stated as a history that fails from a cold start (this one, or "some other font first")
        r0 = replay("H4_getfont", {"hist": hist, "caching": caching})
        if r0 is not None:
            sc = core.self_contained("C12", "_replay_getfont", {"hist": hist, "caching": caching},
                                     [{"hist": ([x] + [n] * ncalls)[:max(2, ncalls)], "caching": caching} for n in dict.fromkeys(hist) for x in names if x != n])
            if sc is not None:
                ex.require(False, sc[1], hist=sc[0]["hist"], caching=caching, step=0)
        rm = pi.PDFResourceManager(caching=caching)
        before = {k: _snap(v) for k, v in specs.items()}
        tables = _shared_tables()
        sigs = {}
        for i, n in enumerate(hist):
            f = rm.get_font(ids[n], specs[n])
            sig = _font_sig(f)
            if n in ABSOLUTE:
                got = [_try(f.to_unichr, c) for c in (65, 66)]
                ex.require(got == ABSOLUTE[n], "font %s after the history %r shows codes 65, 66 as %r, its own dictionary / font program says %r" % (n, hist[:i], got, ABSOLUTE[n]),
                           hist=hist, caching=caching, step=i)
            if n in ABS_WIDTHS:
                gw = [round(f.char_width(c), 6) for c in (65, 66)]
                ex.require(gw == ABS_WIDTHS[n], "font %s after the history %r gives codes 65, 66 the widths %r, the metrics of its glyphs are %r" % (n, hist[:i], gw, ABS_WIDTHS[n]),
                           hist=hist, caching=caching, step=i)
            ex.require(_shared_tables() == tables, "building or measuring font %s modified a process-wide encoding or metrics table" % n, hist=hist, caching=caching, step=i)
            # reference: a fresh manager, fresh specs
            ref = _font_sig(pi.PDFResourceManager(caching=False).get_font(None, _fontspecs()[n]))
            ex.require(sig == ref, "font %s obtained after the history %r (caching=%s) differs from the same font built in isolation: %r vs %r" % (n, hist[:i], caching, sig, ref),
                       hist=hist, caching=caching, step=i)
        after = {k: _snap(v) for k, v in specs.items()}
        ex.require(after == before, "get_font modified a font dictionary of the document: %r" % [k for k in before if before[k] != after[k]], hist=hist, caching=caching, step=len(hist))
        ex.require(pi.PDFResourceManager(caching=True).get_font(0, specs["t1"]) is not None and 0 not in rm._cached_fonts, "a falsy object id was cached", hist=hist, caching=caching, step=-1)

    def conc(m, info):
        return info
    return core.run_symx("H4_getfont", fn, [pi.PDFResourceManager.get_font], {"fonts": "two Type0 fonts sharing one descendant (only one has ToUnicode), a Type1 and a Type3 font with Differences, two Type1 fonts without Encoding (one with an embedded font program), two uses of standard-14 Helvetica with different Differences",
                                                                            "history": "every sequence of %d get_font calls" % ncalls, "caching": "on/off"}, timeout, concretize=conc, part=part)


def _replay_getfont(inp):
    return replay("H4_getfont", inp)


def h5_idempotent(timeout=100, **kw):
    import pdfminer.pdftypes as pt
    from harness import C13

    def fn(ex):
        doc = C13.Doc(200)
        kinds = ["int", "bytes", "list", "dict", "ref1", "ref2", "ref9", "name"]
        doc.objs[1] = C13.make_value(doc, kinds[ex.choice(len(kinds), "o1")])
        doc.objs[2] = [C13.make_value(doc, kinds[ex.choice(len(kinds), "o2")]), {"K": C13.make_value(doc, "ref1")}]
        x = {"A": C13.make_value(doc, kinds[ex.choice(len(kinds), "x")]), "B": [C13.make_value(doc, "ref2"), b"s"]}
        try:
            once = pt.resolve_all(x)
            twice = pt.resolve_all(once)
        except (C13.WorkLimit, RecursionError):
            raise symx.Abort()            # cyclic data: termination is C13's subject
        ex.require(_snap(once) == _snap(twice), "resolve_all is not idempotent")
        calls = []
        dec = lambda o, g, d, a=None: (calls.append(d), b"D" + d)[1]
        d1 = pt.decipher_all(dec, 1, 0, copy.deepcopy(_plain(once)))
        n1 = len(calls)
        ex.require(n1 == len(_strings(_plain(once))), "decipher_all does not visit every non-empty string exactly once")

    def conc(m, info):
        return info
    return core.run_symx("H5_idempotent", fn, [pt.resolve_all, pt.decipher_all], {"objects": "nested values with references, by symbolic choice"}, timeout, concretize=conc)


def _plain(x):
    from pdfminer.pdftypes import PDFStream, PDFObjRef
    if isinstance(x, dict):
        return {k: _plain(v) for k, v in x.items()}
    if isinstance(x, list):
        return [_plain(v) for v in x]
    if isinstance(x, (PDFStream, PDFObjRef)):
        return None
    return x


def _strings(x):
    if isinstance(x, bytes):
        return [x] if x else []
    if isinstance(x, dict):
        return [s for v in x.values() for s in _strings(v)]
    if isinstance(x, list):
        return [s for v in x for s in _strings(v)]
    return []


def h6_mapcache(n=3, timeout=100, **kw):
    from harness import C07
    r = C07.h5_mapcache(n=n, timeout=timeout)
    r["harness"] = "H6_mapcache"
    return r


# --------------------------------------------------------------------------------------------- H7 end-to-end histories
def _doc(letter):
    """two-page document; both documents use object number 3 and resource name F1 for a font whose Differences map code 65 to `letter`"""
    font = {"Type": "Font", "Subtype": "Type1", "BaseFont": "Helvetica", "Encoding": {"Type": "Encoding", "BaseEncoding": "WinAnsiEncoding", "Differences": [65, letter]}}
    objs = {1: {"Type": "Catalog", "Pages": Ref(2)}, 2: {"Type": "Pages", "Kids": [Ref(4), Ref(6)], "Count": 2}, 3: font,
            4: {"Type": "Page", "Parent": Ref(2), "MediaBox": [0, 0, 200, 200], "Contents": Ref(5), "Resources": {"Font": {"F1": Ref(3)}}},
            5: Stream({}, b"BT /F1 10 Tf 10 100 Td (A) Tj ET"),
            6: {"Type": "Page", "Parent": Ref(2), "MediaBox": [0, 0, 200, 200], "Contents": Ref(7), "Resources": {"Font": {"F1": Ref(3)}}},
            7: Stream({}, b"BT /F1 10 Tf 10 100 Td (AA) Tj ET"),
            # a third page WITHOUT resources whose content still names F1 and a form: whatever the library makes of it, it must not depend on the pages rendered before
            8: {"Type": "Page", "Parent": Ref(2), "MediaBox": [0, 0, 200, 200], "Contents": Ref(9)},
            9: Stream({}, b"BT /F1 10 Tf 10 100 Td (A) Tj ET /Fm1 Do")}
    objs[2] = {"Type": "Pages", "Kids": [Ref(4), Ref(6), Ref(8)], "Count": 3}
    return pdfgen.build(objs)


def _bad_doc():
    """a document whose extraction is abandoned half-way: its page draws a form XObject whose stream names a filter that does not exist, so the failure happens with a figure open"""
    font = {"Type": "Font", "Subtype": "Type1", "BaseFont": "Helvetica"}
    objs = {1: {"Type": "Catalog", "Pages": Ref(2)}, 2: {"Type": "Pages", "Kids": [Ref(4)], "Count": 1}, 3: font,
            4: {"Type": "Page", "Parent": Ref(2), "MediaBox": [0, 0, 200, 200], "Contents": Ref(5), "Resources": {"Font": {"F1": Ref(3)}, "XObject": {"Fm1": Ref(6)}}},
            5: Stream({}, b"BT /F1 10 Tf 10 100 Td (A) Tj ET q /Fm1 Do Q"),
            6: Stream({"Type": "XObject", "Subtype": "Form", "BBox": [0, 0, 50, 50], "Filter": "NoSuchFilterDecode"}, b"BT /F1 8 Tf (B) Tj ET")}
    return pdfgen.build(objs)


def _extract_alone(arg):
    """[letter, page index] -> text of that page extracted on its own (called in a fresh interpreter through core.fresh_eval)"""
    from pdfminer import high_level
    return high_level.extract_text(io.BytesIO(_doc(arg[0])), page_numbers=[arg[1]])


def h7_histories(n=3, timeout=200, part=None, **kw):
    from pdfminer import high_level
    # what the resource-less third page gives when extracted alone from a cold start (the reference for "one at a time instead of together")
    THIRD = {d: core.fresh_eval("C12", "_extract_alone", [d, 2]) for d in "XY"}
    BAD = _bad_doc()

    def fn(ex):
        docs = {"X": _doc("X"), "Y": _doc("Y")}
        expect = {"X": ["X\n\n\x0c", "XX\n\n\x0c", THIRD["X"]], "Y": ["Y\n\n\x0c", "YY\n\n\x0c", THIRD["Y"]]}
        hist = []
        for i in range(n):
            d = "XYZ"[ex.choice(3, "d%d" % i)]          # Z: the document whose extraction fails with a figure open
            mode = ex.choice(4, "m%d" % i)           # whole document / page 0 only / page 1 only / page 2 only
            caching = ex.choice(2, "c%d" % i) == 1
            hist.append((d, mode, caching))
        interleave = ex.choice(2, "interleave") == 1
        info = {"hist": [list(h) for h in hist], "interleave": interleave}
        for i, (d, mode, caching) in enumerate(hist):
            pn = None if mode == 0 else [mode - 1]
            if d == "Z":
                try:
                    high_level.extract_text(io.BytesIO(BAD), caching=caching)
                except Exception:
                    pass                                  # how it fails is C13's subject; here only what it leaves behind matters
                continue
            try:
                got = high_level.extract_text(io.BytesIO(docs[d]), page_numbers=pn, caching=caching)
            except Exception as e:
                ex.require(False, "call %d of the history %r raised %s: %s (in isolation it returns its text)" % (i, hist, type(e).__name__, e), **info)
            exp = "".join(expect[d]) if mode == 0 else expect[d][mode - 1]
            ex.require(got == exp, "call %d of the history %r returns %r, the same call in isolation returns %r" % (i, hist, got, exp), **info)
        if interleave:
            its = [high_level.extract_pages(io.BytesIO(docs[d])) for d in "XY"]
            texts = {"X": [], "Y": []}
            for _ in range(2):
                for d, it in zip("XY", its):
                    pg = next(it)
                    texts[d].append("".join(o.get_text() for o in pg if hasattr(o, "get_text")))
            ex.require(texts["X"] == ["X\n", "XX\n"] and texts["Y"] == ["Y\n", "YY\n"], "interleaved page iterators of two documents give %r" % texts, **info)

    def conc(m, info):
        return info
    return core.run_symx("H7_histories", fn, [high_level.extract_text, high_level.extract_pages],
                         {"documents": "two 2-page documents sharing object numbers, font resource name and base encoding but with different Differences",
                          "history": "every sequence of %d calls (document, whole/page 0/page 1, caching on/off), optionally followed by interleaved page iterators" % n}, timeout, concretize=conc, part=part)


def h8_encrypted(timeout=300, part=None, **kw):
    """really encrypted documents (six schemes) read with caching on and off, twice, alone or before / after another encrypted document is opened or rejected in the same process:
    always the plain original (C10.H7_docs, run here as well: the call histories and the caching flag are this property's subject)"""
    from harness import C10
    r = C10.h7_docs(timeout=timeout, part=part)
    r["harness"] = "H8_encrypted"
    return r


def h9_resources(timeout=100, **kw):
    """caching on and off give the same fonts: a Font resource dictionary of three fonts, each inline or indirect, in every order, caching on/off - an inline font after an indirect one
    must not be answered from the object-number cache (C06.H5, run here as the cache-independence clause of C12)"""
    from harness import C06
    r = C06.h5_resources(timeout=timeout)
    r["harness"] = "H9_resources"
    return r


def replay(harness, inp):
    if harness == "H9_resources":
        from harness import C06
        return C06.replay("H5_resources", inp)
    if harness == "H8_encrypted":
        from harness import C10
        return C10.replay("H7_docs", inp)
    import pdfminer.pdfinterp as pi
    if harness == "H1_encoding":
        from harness import C06
        return C06.replay("H1_differences", inp)
    if harness == "H6_mapcache":
        from harness import C07
        return C07.replay("H5_mapcache", inp)
    if harness == "H4_getfont":
        specs = _fontspecs()
        ids = FONT_IDS
        rm = pi.PDFResourceManager(caching=inp["caching"])
        before = {k: _snap(v) for k, v in specs.items()}
        tables = _shared_tables()
        for i, n in enumerate(inp["hist"]):
            f = rm.get_font(ids[n], specs[n])
            if n in ABSOLUTE and [_try(f.to_unichr, c) for c in (65, 66)] != ABSOLUTE[n]:
                return "get_font history %r (caching=%s): font %s shows codes 65, 66 as %r, its own dictionary / font program says %r" % (
                    inp["hist"][:i + 1], inp["caching"], n, [_try(f.to_unichr, c) for c in (65, 66)], ABSOLUTE[n])
            if n in ABS_WIDTHS and [round(f.char_width(c), 6) for c in (65, 66)] != ABS_WIDTHS[n]:
                return "get_font history %r (caching=%s): font %s gives codes 65, 66 the widths %r, the metrics of its glyphs are %r" % (
                    inp["hist"][:i + 1], inp["caching"], n, [round(f.char_width(c), 6) for c in (65, 66)], ABS_WIDTHS[n])
            if _shared_tables() != tables:
                return "get_font history %r: building or measuring font %s modified a process-wide encoding or metrics table" % (inp["hist"][:i + 1], n)
            sig = _font_sig(f)
            ref = _font_sig(pi.PDFResourceManager(caching=False).get_font(None, _fontspecs()[n]))
            if sig != ref:
                return "get_font history %r (caching=%s): font %s (class, name, vertical, multibyte, widths, text of codes 34/65/66) = %r, built in isolation %r" % (inp["hist"][:i + 1], inp["caching"], n, sig, ref)
        after = {k: _snap(v) for k, v in specs.items()}
        if after != before:
            return "get_font history %r modified the font dictionaries %r of the document" % (inp["hist"], [k for k in before if before[k] != after[k]])
        return None
    if harness == "H7_histories":
        from pdfminer import high_level
        docs = {"X": _doc("X"), "Y": _doc("Y")}
        THIRD = {d: core.fresh_eval("C12", "_extract_alone", [d, 2]) for d in "XY"}
        expect = {"X": ["X\n\n\x0c", "XX\n\n\x0c", THIRD["X"]], "Y": ["Y\n\n\x0c", "YY\n\n\x0c", THIRD["Y"]]}
        for i, (d, mode, caching) in enumerate(inp["hist"]):
            pn = None if mode == 0 else [mode - 1]
            if d == "Z":
                try:
                    high_level.extract_text(io.BytesIO(_bad_doc()), caching=caching)
                except Exception:
                    pass
                continue
            try:
                got = high_level.extract_text(io.BytesIO(docs[d]), page_numbers=pn, caching=caching)
            except Exception as e:
                return "history %r: call %d raised %s: %s" % (inp["hist"], i, type(e).__name__, e)
            exp = "".join(expect[d]) if mode == 0 else expect[d][mode - 1]
            if got != exp:
                return "history %r: call %d returns %r, in isolation %r" % (inp["hist"], i, got, exp)
        return None
    if harness in ("H2_usecmap", "H3_intern", "H5_idempotent", "H0_inventory"):
        return core.replay_by_choices({"H2_usecmap": h2_usecmap, "H3_intern": h3_intern, "H5_idempotent": h5_idempotent, "H0_inventory": h0_inventory}[harness], {}, inp["_choices"])
    raise KeyError(harness)


def jobs(tier):
    J = [Job("H8_encrypted:%d" % k, "h8_encrypted", {"part": [k, 4, 4]}, 300, "H8_encrypted") for k in range(4)] + [Job("H0_inventory", "h0_inventory", {}, 60), Job("H9_resources", "h9_resources", {}, 100), Job("H2_usecmap", "h2_usecmap", {}, 100), Job("H3_intern", "h3_intern", {}, 150), Job("H4_getfont", "h4_getfont", {}, 200),
         Job("H5_idempotent", "h5_idempotent", {}, 150), Job("H6_mapcache", "h6_mapcache", {}, 100)]
    for k in range(3):
        J.append(Job("H1_encoding:%d" % k, "h1_encoding", {"part": [k, 3, 7]}, 300, "H1_encoding"))
    if tier == "quick":
        for k in range(6):
            J.append(Job("H7_histories:%d" % k, "h7_histories", {"part": [k, 6, 8]}, 300, "H7_histories"))
    else:               # one call more in every history
        J = [j for j in J if j.name not in ("H4_getfont", "H6_mapcache")] + [Job("H4_getfont:n4", "h4_getfont", {"ncalls": 4}, 600, "H4_getfont"), Job("H4_getfont:n5", "h4_getfont", {"ncalls": 5}, 900, "H4_getfont"),
                                                                           Job("H6_mapcache:n4", "h6_mapcache", {"n": 4}, 600, "H6_mapcache")]
        for k in range(16):
            J.append(Job("H7_histories:n4:%d" % k, "h7_histories", {"n": 4, "part": [k, 16, 10]}, 1800, "H7_histories"))
    return J
