"""C20 - geometry helpers obey affine algebra; spatial index equals brute-force search.

H1 (E3/E2, one path, pure z3 queries): algebraic laws of mult_matrix / apply_matrix_pt / translate_matrix /
   apply_matrix_norm over symbolic reals (the real functions are called on proxies; the returned terms are the encoding).
H2 (E2): apply_matrix_rect == tight hull of the four transformed corners.
H3 (E2): real utils.Plane against a list model with brute-force proper overlap, for a symbolic sequence of
   add / remove / find / iterate operations on boxes with symbolic real coordinates.
"""
import functools

import z3

from engine import symx
from engine.symx import SB, SV, smin, smax, mval
from lib import core
from lib.core import Job, fl

ASSUMPTIONS = [
    "floats are modelled as exact reals (rounding outside the claim)",
    "Plane: an object is only added when it is not live and only removed when it is live (set-like use, as in layout.py)",
    "Plane: boxes and queries have x0<x1, y0<y1 (one family also has zero-width boxes and queries; 'properly overlap' is then the same strict inequalities); expected hits are those whose box, the query and the index bounds pairwise properly overlap "
    "(objects or queries wholly outside the index bounds are never reported by design - not claimed either way)",
]
OUTSIDE = ["more than 3 boxes / 5 operations per history", "grid sizes other than those listed in bounds", "IEEE rounding"]


def _utils(shim=True):
    import pdfminer.utils as u
    if shim:
        u.int = symx.sym_int
        u.range = symx.sym_range
    return u


# ------------------------------------------------------------------------------- H1
def h1_laws(timeout=60, **kw):
    u = _utils()
    R = 1000

    def fn(ex):
        A = tuple(ex.real("a%d" % i, -R, R) for i in range(6))
        B = tuple(ex.real("b%d" % i, -R, R) for i in range(6))
        C = tuple(ex.real("c%d" % i, -R, R) for i in range(6))
        p = (ex.real("px", -R, R), ex.real("py", -R, R))
        v = (ex.real("vx", -R, R), ex.real("vy", -R, R))
        I = (1, 0, 0, 1, 0, 0)
        eq = lambda X, Y: functools.reduce(lambda a, b: a & b, [x == y for x, y in zip(X, Y)])
        ex.require(eq(u.mult_matrix(u.mult_matrix(A, B), C), u.mult_matrix(A, u.mult_matrix(B, C))), "mult_matrix is not associative", law="assoc")
        ex.require(eq(u.mult_matrix(A, I), A) & eq(u.mult_matrix(I, A), A), "identity is not a unit of mult_matrix", law="unit")
        # mult_matrix(m1, m0) is 'm0 applied after m1': apply(m1*m0, p) == apply(m0, apply(m1, p))
        ex.require(eq(u.apply_matrix_pt(u.mult_matrix(A, B), p), u.apply_matrix_pt(B, u.apply_matrix_pt(A, p))),
                   "apply_matrix_pt(mult_matrix(m1,m0),p) != apply(m0, apply(m1,p))", law="compose")
        ex.require(eq(u.translate_matrix(A, v), u.mult_matrix((1, 0, 0, 1, v[0], v[1]), A)),
                   "translate_matrix(m,v) != mult_matrix(translation(v), m)", law="translate")
        # apply_matrix_norm: linear part only
        n = u.apply_matrix_norm(A, v)
        q = u.apply_matrix_pt(A, v)
        o = u.apply_matrix_pt(A, (0, 0))
        ex.require((n[0] == q[0] - o[0]) & (n[1] == q[1] - o[1]), "apply_matrix_norm is not the linear part of the map", law="norm")
        ex.require(eq(u.apply_matrix_pt(I, p), p), "identity does not fix points", law="idpt")

    def conc(m, info):
        return {"law": info.get("law"), "vals": {str(d): mval(m, m[d]) for d in m.decls()}}
    return core.run_symx("H1_laws", fn, [u.mult_matrix, u.apply_matrix_pt, u.translate_matrix, u.apply_matrix_norm],
                         {"reals": "|v| <= 1000, 22 symbolic reals", "laws": 6}, timeout, concretize=conc, engine="E3 direct z3 (symx, single path)")


# ------------------------------------------------------------------------------- H2
def h2_rect(timeout=120, far=False, **kw):
    u = _utils()
    R = 1000
    T = 2 ** 40 if far else R           # translations and rectangle coordinates: also far beyond pdfminer's INF sentinel (2**31 - 1), where a hull computed from +-INF start values clamps

    def fn(ex):
        m = tuple(ex.real("m%d" % i, -R, R) for i in range(4)) + tuple(ex.real("m%d" % i, -T, T) for i in (4, 5))
        r = tuple(ex.real("r%d" % i, -R, R) for i in range(4))
        ex.assume(r[0] <= r[2])
        ex.assume(r[1] <= r[3])
        out = u.apply_matrix_rect(m, r)
        pts = [u.apply_matrix_pt(m, (x, y)) for x in (r[0], r[2]) for y in (r[1], r[3])]
        xs = [p[0] for p in pts]
        ys = [p[1] for p in pts]
        exp = (functools.reduce(smin, xs), functools.reduce(smin, ys), functools.reduce(smax, xs), functools.reduce(smax, ys))
        ex.require((out[0] == exp[0]) & (out[1] == exp[1]) & (out[2] == exp[2]) & (out[3] == exp[3]),
                   "apply_matrix_rect is not the tight hull of the four transformed corners")

    def conc(m, info):
        return {"m": [mval(m, z3.Real("m%d" % i)) for i in range(6)], "r": [mval(m, z3.Real("r%d" % i)) for i in range(4)]}
    return core.run_symx("H2_rect", fn, [u.apply_matrix_rect, u.apply_matrix_pt], {"reals": "|v| <= 1000" + (", translation |e|, |f| <= 2^40" if far else ""), "rect": "x0<=x1, y0<=y1"},
                         timeout, concretize=conc)


# ------------------------------------------------------------------------------- H3
CONFIGS = {        # name: (index bounds, grid size, (lowest, highest) symbolic coordinate)
    "pos": ((0, 0, 100, 100), 50, (-20, 120)),
    "neg": ((-50, -50, 50, 50), 50, (-70, 70)),
    "off": ((10, 10, 60, 60), 50, (-5, 75)),
    "tiny": ((-7, -7, 7, 7), 7, (-10, 10)),
    "wide": ((-100, -100, 100, 100), 50, (-130, 130)),
    # four different bounds (x0 > y0, x1 > y1 and the other way round): an x bound used for y, or a lower bound used for an upper one, is invisible in the square configurations above
    "skew": ((30, -20, 130, 60), 50, (-40, 150)),
    "skew2": ((-20, 30, 60, 130), 50, (-40, 150)),
}


class Box:
    def __init__(self, name, b):
        self.name = name
        (self.x0, self.y0, self.x1, self.y1) = b

    def __repr__(self):
        return self.name


def _overlap(a, b):
    return SB(z3.And(symx.zr(a[0]) < symx.zr(b[2]), symx.zr(b[0]) < symx.zr(a[2]), symx.zr(a[1]) < symx.zr(b[3]), symx.zr(b[1]) < symx.zr(a[3])))


def h3_plane(config="pos", nbox=2, seqs=(), timeout=120, oned=False, part=None, degenerate=False, **kw):
    """seqs: list of concrete operation sequences, e.g. [["a0","a1","r0","f"]] (a=add i, r=remove i, f=find, i=iterate);
    the box and query coordinates are symbolic."""
    u = _utils()
    bbox, grid, (LO, HI) = CONFIGS[config]

    def fresh_box(ex, tag):
        x0 = ex.real(tag + "x0", LO, HI)
        x1 = x0 if (degenerate and ex.choice(2, tag + "flat") == 1) else ex.real(tag + "x1", LO, HI)      # zero-width boxes (hairlines, empty glyphs)
        if oned:     # one-dimensional family: y extent fixed inside the bounds (halves the number of symbolic cell ranges)
            y0, y1 = bbox[1] + 1, bbox[1] + 3
        else:
            y0, y1 = ex.real(tag + "y0", LO, HI), ex.real(tag + "y1", LO, HI)
            ex.assume(y0 < y1)
        if x1 is not x0:
            ex.assume(x0 < x1)
        return (x0, y0, x1, y1)

    def make(seq):
        def fn(ex):
            plane = u.Plane(bbox, gridsize=grid)
            boxes = [Box("o%d" % i, fresh_box(ex, "o%d" % i)) for i in range(nbox)]
            live = []                       # list model: insertion order
            log = []
            for step, op in enumerate(seq):
                if op[0] == "a":
                    i = int(op[1:])
                    plane.add(boxes[i])
                    live.append(boxes[i])
                    log.append(("add", i))
                elif op[0] == "r":
                    i = int(op[1:])
                    plane.remove(boxes[i])
                    live.remove(boxes[i])
                    log.append(("remove", i))
                elif op[0] == "f":
                    q = fresh_box(ex, "q%d" % step)
                    got = list(plane.find(q))
                    log.append(("find", step))
                    ex.require(len(set(map(id, got))) == len(got), "find() reported an object twice", log=list(log))
                    for b in live:
                        bb = (b.x0, b.y0, b.x1, b.y1)
                        inb = _overlap(bb, bbox) & _overlap(q, bbox)
                        exp = _overlap(bb, q)
                        if b in got:
                            ex.require(exp, "find() returned an object that does not properly overlap the query", log=list(log))
                        else:
                            ex.require(~(exp & inb), "find() missed a live object that properly overlaps the query inside the index bounds", log=list(log))
                    for g in got:
                        ex.require(g in live, "find() returned an object that is not live", log=list(log))
                else:
                    log.append(("iter",))
                ex.require(list(plane) == live, "iteration is not the live objects in insertion order", log=list(log))
                ex.require(len(plane) == len(live), "len() differs from the number of live objects", log=list(log))
                for b in boxes:
                    ex.require((b in plane) == (b in live), "membership differs from the list model", log=list(log))
        return fn

    def conc(m, info):
        vals = {}
        for d in m.decls():
            vals[str(d)] = mval(m, m[d])
        return {"config": config, "nbox": nbox, "oned": oned, "log": info.get("log"), "vals": vals}      # a flat box has no x1 symbol: replay uses x0

    parts = []
    import time
    t_end = time.time() + timeout
    for k, seq in enumerate(seqs):
        left = max(5.0, (t_end - time.time()) / (len(seqs) - k))
        r = core.run_symx("H3_plane", make(seq), [u.Plane.add, u.Plane.remove, u.Plane.find, u.Plane._getrange, u.Plane.__iter__, u.drange],
                          {"config": config, "bbox": bbox, "gridsize": grid, "boxes": nbox, "sequences": len(seqs), "operations": max(map(len, seqs)),
                           "coords": "%d <= v <= %d" % (LO, HI), "family": ("x only symbolic" if oned else "x and y symbolic") + (", zero-width boxes allowed" if degenerate else "")},
                          left, concretize=conc, int_lo=-8, int_hi=8, part=part,
                          shims={"namespace_shims": ["utils.int -> sym_int", "utils.range -> sym_range"]})
        r["extra"]["sequence"] = seq
        parts.append(r)
        if r["verdict"] == "counterexample":
            break
    return core.merge("H3_plane", parts)


def op_sequences(nbox, nops, need_find=True):
    """all valid operation sequences of exactly nops operations (adds only of non-live, removes only of live objects),
    ending in an observation that can tell something (find or iterate)"""
    out = []

    def rec(seq, live):
        if len(seq) == nops:
            if any(o[0] == "a" for o in seq) and (not need_find or "f" in seq or any(o[0] == "r" for o in seq)):
                out.append(list(seq))
            return
        for i in range(nbox):
            if i not in live:
                if i == 0 or (i - 1) in live or any(o == "a%d" % (i - 1) for o in seq):   # symmetry: introduce boxes in index order
                    rec(seq + ["a%d" % i], live | {i})
            else:
                rec(seq + ["r%d" % i], live - {i})
        rec(seq + ["f"], live)
    rec([], frozenset())
    return out


# ------------------------------------------------------------------------------- H4 bulk insertion
EXT_KINDS = ["list", "tuple", "generator", "iter", "map"]


def _extend_check(sel):
    """Plane.extend with every kind of iterable (also one-shot ones), before / after single adds: membership, length, insertion order, find and remove agree with the list model"""
    import pdfminer.utils as u
    kind, pre, post = EXT_KINDS[sel["kind"]], sel["pre"], sel["post"]
    plane = u.Plane((0, 0, 100, 100), gridsize=50)
    boxes = [Box("o%d" % i, (10 * i, 10 * i, 10 * i + 15, 10 * i + 15)) for i in range(6)]
    live = []
    for b in boxes[:pre]:
        plane.add(b); live.append(b)
    bulk = boxes[pre:pre + 3]
    arg = {"list": list(bulk), "tuple": tuple(bulk), "generator": (b for b in bulk), "iter": iter(bulk), "map": map(lambda b: b, bulk)}[kind]
    plane.extend(arg)
    live += bulk
    for b in boxes[pre + 3:pre + 3 + post]:
        plane.add(b); live.append(b)
    desc = "%d add(s), extend(%s of 3 objects), %d add(s)" % (pre, kind, post)
    if list(plane) != live:
        return "%s: iteration gives %r, inserted were %r" % (desc, list(plane), live)
    if len(plane) != len(live) or not all(b in plane for b in live):
        return "%s: len() = %d, membership %r for %d live objects" % (desc, len(plane), [b in plane for b in live], len(live))
    found = list(plane.find((0, 0, 100, 100)))
    if sorted(map(repr, found)) != sorted(map(repr, live)):
        return "%s: find(everything) returns %r" % (desc, found)
    try:
        plane.remove(bulk[1])
    except Exception as e:
        return "%s: remove() of an object inserted by extend raised %s: %s" % (desc, type(e).__name__, e)
    live.remove(bulk[1])
    if list(plane) != live or bulk[1] in list(plane.find((0, 0, 100, 100))):
        return "%s: after remove() iteration gives %r" % (desc, list(plane))
    return None


def h4_extend(timeout=100, **kw):
    import pdfminer.utils as u

    def fn(ex):
        sel = {"kind": ex.choice(len(EXT_KINDS), "kind"), "pre": ex.choice(3, "pre"), "post": ex.choice(2, "post")}
        r = _extend_check(sel)
        ex.require(r is None, r or "", ext=sel)

    def conc(m, info):
        return {"ext": info["ext"]}
    return core.run_symx("H4_extend", fn, [u.Plane.extend, u.Plane.add, u.Plane.remove, u.Plane.find, u.Plane.__iter__], {"iterables": EXT_KINDS, "adds before": "0..2", "adds after": "0..1"}, timeout, concretize=conc)


# ------------------------------------------------------------------------------- replay (real code, no shims)
def replay(harness, inp):
    import pdfminer.utils as u
    if "ext" in inp:
        return _extend_check(inp["ext"])
    from fractions import Fraction as F
    if harness == "H1_laws":
        v = inp["vals"]
        g = lambda n: tuple(F(v.get("%s%d" % (n, i), 0)) for i in range(6))
        A, B, C = g("a"), g("b"), g("c")
        p = (F(v.get("px", 0)), F(v.get("py", 0)))
        w = (F(v.get("vx", 0)), F(v.get("vy", 0)))
        I = (1, 0, 0, 1, 0, 0)
        bad = []
        if u.mult_matrix(u.mult_matrix(A, B), C) != u.mult_matrix(A, u.mult_matrix(B, C)): bad.append("assoc")
        if u.mult_matrix(A, I) != A or u.mult_matrix(I, A) != A: bad.append("unit")
        if u.apply_matrix_pt(u.mult_matrix(A, B), p) != u.apply_matrix_pt(B, u.apply_matrix_pt(A, p)): bad.append("compose")
        if u.translate_matrix(A, w) != u.mult_matrix((1, 0, 0, 1, w[0], w[1]), A): bad.append("translate")
        n, q, o = u.apply_matrix_norm(A, w), u.apply_matrix_pt(A, w), u.apply_matrix_pt(A, (0, 0))
        if (n[0], n[1]) != (q[0] - o[0], q[1] - o[1]): bad.append("norm")
        if tuple(u.apply_matrix_pt(I, p)) != p: bad.append("idpt")
        return ("laws violated with exact rationals: %s" % bad) if bad else None
    if harness == "H2_rect":
        m = tuple(F(x) for x in inp["m"])
        r = tuple(F(x) for x in inp["r"])
        out = u.apply_matrix_rect(m, r)
        pts = [u.apply_matrix_pt(m, (x, y)) for x in (r[0], r[2]) for y in (r[1], r[3])]
        exp = (min(p[0] for p in pts), min(p[1] for p in pts), max(p[0] for p in pts), max(p[1] for p in pts))
        return None if tuple(out) == exp else "apply_matrix_rect%r = %r, hull of corners is %r" % ((m, r), out, exp)
    if harness == "H3_plane":
        bbox, grid, _ = CONFIGS[inp["config"]]
        v = inp["vals"]

        def box(tag):
            if inp.get("oned"):
                return (fl(F(v[tag + "x0"])), bbox[1] + 1, fl(F(v.get(tag + "x1", v[tag + "x0"]))), bbox[1] + 3)
            return tuple(fl(F(v.get(tag + k, v[tag + "x0"]))) for k in ("x0", "y0", "x1", "y1"))
        plane = u.Plane(bbox, gridsize=grid)
        boxes = [Box("o%d" % i, box("o%d" % i)) for i in range(inp["nbox"])]
        live = []
        ov = lambda a, b: a[0] < b[2] and b[0] < a[2] and a[1] < b[3] and b[1] < a[3]
        for op in inp["log"]:
            if op[0] == "add":
                plane.add(boxes[op[1]]); live.append(boxes[op[1]])
            elif op[0] == "remove":
                plane.remove(boxes[op[1]]); live.remove(boxes[op[1]])
            elif op[0] == "find":
                q = box("q%d" % op[1])
                got = list(plane.find(q))
                if len(set(map(id, got))) != len(got):
                    return "find(%r) reported an object twice: %r" % (q, got)
                for b in live:
                    bb = (b.x0, b.y0, b.x1, b.y1)
                    if b in got and not ov(bb, q):
                        return "find(%r) returned %r=%r which does not overlap" % (q, b, bb)
                    if b not in got and ov(bb, q) and ov(bb, bbox) and ov(q, bbox):
                        return "Plane(%r, %d) holding %r=%r: find(%r) misses it" % (bbox, grid, b, bb, q)
                if any(g not in live for g in got):
                    return "find returned a removed object"
            if list(plane) != live:
                return "after %r iteration gives %r, live objects in insertion order are %r" % (inp["log"], list(plane), live)
            if len(plane) != len(live):
                return "len()=%d but %d live objects" % (len(plane), len(live))
        return None
    raise KeyError(harness)


# ------------------------------------------------------------------------------- job list
def _split(seqs, n):
    return [seqs[k::n] for k in range(n) if seqs[k::n]]


def jobs(tier):
    J = [Job("H4_extend", "h4_extend", {}, 100), Job("H1_laws", "h1_laws", {}, 60), Job("H2_rect:far", "h2_rect", {"far": True}, 200, "H2_rect"), Job("H2_rect", "h2_rect", {}, 120)]
    if tier == "quick":
        s3 = op_sequences(2, 3)
        for c in ("pos", "neg"):
            for k, part in enumerate(_split(s3, 4)):
                J.append(Job("H3_plane:%s:1d:2box:3ops:%d" % (c, k), "h3_plane", {"config": c, "nbox": 2, "seqs": part, "oned": True}, 150))
        # insertion order under re-insertion: every add/remove sequence of 5 operations over two boxes without a query (cheap: no symbolic query box)
        J.append(Job("H3_plane:pos:1d:2box:order", "h3_plane", {"config": "pos", "nbox": 2, "seqs": [q for q in op_sequences(2, 5) if "f" not in q], "oned": True}, 150))
        for c in ("off", "tiny", "skew", "skew2"):
            J.append(Job("H3_plane:%s:1d:1box:2ops" % c, "h3_plane", {"config": c, "nbox": 1, "seqs": [["a0", "f"]], "oned": True}, 100))
        for k in range(6):
            J.append(Job("H3_plane:neg:2d:1box:2ops:%d" % k, "h3_plane", {"config": "neg", "nbox": 1, "seqs": [["a0", "f"]], "part": [k, 6, 9]}, 150))
        for c in ("pos", "neg"):
            J.append(Job("H3_plane:%s:1d:flat:2ops" % c, "h3_plane", {"config": c, "nbox": 1, "seqs": [["a0", "f"]], "oned": True, "degenerate": True}, 150))
    else:
        s4 = op_sequences(2, 4)
        for c in ("pos", "neg", "off", "tiny", "skew", "skew2"):
            for k, part in enumerate(_split(s4, 8)):
                J.append(Job("H3_plane:%s:1d:2box:4ops:%d" % (c, k), "h3_plane", {"config": c, "nbox": 2, "seqs": part, "oned": True}, 900))
            for k in range(4):
                J.append(Job("H3_plane:%s:2d:1box:2ops:%d" % (c, k), "h3_plane", {"config": c, "nbox": 1, "seqs": [["a0", "f"]], "part": [k, 4, 9]}, 600))
        for c in ("skew", "skew2"):          # two-dimensional family over the rectangular index bounds (about 70000 paths each: thorough tier only; the quick tier has the 1d family)
            for k in range(8):
                J.append(Job("H3_plane:%s:2d:1box:2ops:%d" % (c, k), "h3_plane", {"config": c, "nbox": 1, "seqs": [["a0", "f"]], "part": [k, 8, 10]}, 900))
        for k in range(16):
            J.append(Job("H3_plane:wide:1d:2box:3ops:%d" % k, "h3_plane", {"config": "wide", "nbox": 2, "seqs": [["a0", "a1", "f"]], "oned": True, "part": [k, 16, 10]}, 900))
        for k in range(16):
            J.append(Job("H3_plane:neg:2d:2box:3ops:%d" % k, "h3_plane", {"config": "neg", "nbox": 2, "seqs": [["a0", "a1", "f"]], "part": [k, 16, 11]}, 900))
        s5 = op_sequences(3, 5)
        for k, part in enumerate(_split(s5, 16)):
            J.append(Job("H3_plane:neg:1d:3box:5ops:%d" % k, "h3_plane", {"config": "neg", "nbox": 3, "seqs": part, "oned": True}, 900))
    return J
