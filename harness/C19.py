"""C19 - CCITT Group 4 decoding inverts a conforming encoder for every bitmap (ITU-T T.6).

H1 one coding step (vertical / pass / horizontal) of the real CCITTG4Parser from an arbitrary line state with symbolic reference
   line bits, against the T.6 2.2 definitions of b1 / b2.
H2 whole bitmaps with symbolic pixels: a reference T.6 encoder (mode level, with admissible alternatives) feeds the real
   _parse_mode / _parse_horiz1 / _parse_horiz2; H3 the same rows through the bit-level reference encoder (frozen T.4 tables,
   lib/t4tables.py) and the real ccittfaxdecode with EncodedByteAlign and BlackIs1 as symbolic choices.
H4 the live code tries equal the frozen transcription of T.4 tables 2-3 / T.6 table 1 (finite enumeration, supporting).
"""
import z3

from engine import symx
from engine.symx import SB, SI
from harness import numshim
from lib import core
from lib.core import Job
from lib.t4tables import TABLES

ASSUMPTIONS = [
    "pixels: 1 = white, 0 = black, an imaginary white pixel precedes every line, the first reference line is all white (T.6 2.2.1)",
    "the encoder may always choose horizontal mode instead of pass/vertical (decodable, though not what the T.6 flow chart prescribes)",
    "the T.4/T.6 code tables used by the reference encoder are a frozen transcription (lib/t4tables.py), reconciled once against the pinned tree",
]
OUTSIDE = ["widths above the bound with symbolic pixels (make-up codes are covered by H3 on concrete long rows and by H4)", "uncompressed mode and the 2-D extensions", "K >= 0 (Group 3)"]


def mk(W, ref, cur, curpos, color):
    from pdfminer.ccitt import CCITTG4Parser
    p = CCITTG4Parser.__new__(CCITTG4Parser)
    p.width = W
    p.bytealign = False
    p._y = 0
    p._pos = 0
    p._refline = list(ref)
    p._curline = list(cur)
    p._curpos = curpos
    p._color = color
    return p


def zb1(ref, W, a0, color):
    """T.6 b1 as a z3 term: first changing element of the reference line right of a0 whose colour is opposite to `color`, else W"""
    r = z3.IntVal(W)
    for x in range(W - 1, max(a0, -1), -1):
        prev = ref[x - 1] if x > 0 else z3.IntVal(1)
        r = z3.If(z3.And(ref[x] != color, prev == color), z3.IntVal(x), r)
    return r


def zb2(ref, W, b1):
    """next changing element right of b1 (b1 a z3 term)"""
    r = z3.IntVal(W)
    for x in range(W - 1, 0, -1):
        r = z3.If(z3.And(b1 < x, ref[x] != ref[x - 1]), z3.IntVal(x), r)
    return r


def h1_step(kind="vertical", W=6, timeout=150, part=None, **kw):
    import pdfminer.ccitt as cc
    shims = numshim.install("ccitt")

    def fn(ex):
        ref = [z3.Int("r%d" % i) for i in range(W)]
        for v in ref:
            ex.s.add(v >= 0, v <= 1)
        a0 = ex.choice(W + 1, "a0") - 1
        color = ex.choice(2, "col")
        if a0 == -1 and color == 0:
            raise symx.Abort()                    # a line starts with a white run
        cur0 = [z3.Int("c%d" % i) for i in range(W)]      # pixels already coded (left of a0) are arbitrary, the rest is still white
        cur = []
        for i in range(W):
            if i < a0:
                ex.s.add(cur0[i] >= 0, cur0[i] <= 1)
                cur.append(SI(cur0[i]))
            else:
                cur.append(1)
        p = mk(W, [SI(v) for v in ref], cur, a0, color)
        b1 = zb1(ref, W, a0, color)
        info = {"ref": ref, "a0": a0, "color": color, "kind": kind, "W": W, "cur": [c.e if isinstance(c, SI) else c for c in cur]}
        start = max(a0, 0)
        if kind == "vertical":
            dx = ex.choice(7, "dx") - 3
            info["dx"] = dx
            a1 = b1 + dx
            # producible by an encoder: a1 lies right of a0 (or at 0 at line start) and inside the line
            ex.assume(SB(z3.And(a1 <= W, a1 > a0 if a0 >= 0 else a1 >= 0)))
            p._do_vertical(dx)
            conds = [symx.zi(p._curpos) == a1, z3.BoolVal(p._color == 1 - color)]
            for x in range(W):
                was = info["cur"][x]
                conds.append(symx.zi(p._curline[x]) == z3.If(z3.And(x >= start, x < a1), z3.IntVal(color), was if isinstance(was, z3.ExprRef) else z3.IntVal(was)))
            ex.require(SB(z3.And(conds)), "vertical mode V(%d) does not fill a0..a1=b1%+d with the current colour and flip it" % (dx, dx), **info)
        elif kind == "pass":
            ex.assume(SB(b1 < W))                 # pass mode needs b2 to exist
            b2 = zb2(ref, W, b1)
            p._do_pass()
            conds = [symx.zi(p._curpos) == b2, z3.BoolVal(p._color == color)]
            for x in range(W):
                was = info["cur"][x]
                conds.append(symx.zi(p._curline[x]) == z3.If(z3.And(x >= start, x < b2), z3.IntVal(color), was if isinstance(was, z3.ExprRef) else z3.IntVal(was)))
            ex.require(SB(z3.And(conds)), "pass mode does not fill a0..b2 with the current colour and keep it", **info)
        else:
            n1 = ex.choice(W + 1, "n1")
            n2 = ex.choice(W + 1, "n2")
            if start + n1 + n2 > W:
                raise symx.Abort()
            info["n1"], info["n2"] = n1, n2
            p._do_horizontal(n1, n2)
            conds = [symx.zi(p._curpos) == start + n1 + n2, z3.BoolVal(p._color == color)]
            for x in range(W):
                was = info["cur"][x]
                want = color if start <= x < start + n1 else (1 - color) if start + n1 <= x < start + n1 + n2 else was
                conds.append(symx.zi(p._curline[x]) == (want if isinstance(want, z3.ExprRef) else z3.IntVal(want)))
            ex.require(SB(z3.And(conds)), "horizontal mode H(%d,%d) does not write the two runs" % (n1, n2), **info)

    def conc(m, info):
        return {"kind": info["kind"], "W": info["W"], "ref": [symx.mval(m, v) for v in info["ref"]], "cur": [symx.mval(m, v) for v in info["cur"]],
                "a0": info["a0"], "color": info["color"], "dx": info.get("dx"), "n1": info.get("n1"), "n2": info.get("n2")}
    return core.run_symx("H1_step", fn, [cc.CCITTG4Parser._do_vertical, cc.CCITTG4Parser._do_pass, cc.CCITTG4Parser._do_horizontal],
                         {"step": kind, "width": W, "reference_line": "all %d bits symbolic" % W, "a0": "-1..%d" % (W - 1), "colour": "both", "coded_prefix": "symbolic"},
                         timeout, concretize=conc, shims={"namespace_shims": shims}, part=part, int_lo=-4, int_hi=W + 4)


# ------------------------------------------------------------------------------------------- reference encoder (mode level)
def encode_rows(ex, rows, W, force_at):
    """T.6 encoder over symbolic pixel terms (forks on pixel comparisons).  returns list of per-row mode lists"""
    out = []
    ref = [1] * W
    step = 0
    px = lambda line, x: line[x]
    is_ = lambda a, b: bool(SB(a == b)) if isinstance(a, z3.ExprRef) or isinstance(b, z3.ExprRef) else a == b
    for cur in rows:
        modes = []
        a0, color = -1, 1
        while a0 < W:
            # a1: next changing element on the coding line, a2 the one after
            a1 = W
            for x in range(max(a0 + 1, 0), W):
                if not is_(px(cur, x), color):
                    a1 = x
                    break
            a2 = W
            for x in range(a1 + 1, W):
                if is_(px(cur, x), color):
                    a2 = x
                    break
            b1 = W
            for x in range(max(a0 + 1, 0), W):
                prev = px(ref, x - 1) if x > 0 else 1
                if not is_(px(ref, x), color) and is_(prev, color):
                    b1 = x
                    break
            b2 = W
            for x in range(b1 + 1, W):
                if not is_(px(ref, x), px(ref, x - 1)):
                    b2 = x
                    break
            forced = (step == force_at)
            step += 1
            if b2 < a1 and not forced:
                modes.append(("p",))
                a0 = b2
            elif abs(a1 - b1) <= 3 and not forced:
                modes.append(("v", a1 - b1))
                a0, color = a1, 1 - color
            else:
                modes.append(("h", a1 - max(a0, 0), a2 - a1, color))
                a0 = a2
                if a0 >= W and a2 == W and a1 == W:
                    pass
        out.append(modes)
        ref = cur
    return out


def runcodes(n, color):
    """code words (bit strings) for a run of n pixels: make-up codes then one terminating code (T.4 4.1.1)"""
    tab = {v: k for k, v in TABLES["WHITE" if color else "BLACK"].items()}
    out = []
    while n >= 2624:               # 2560 + 64: longest make-up code may be repeated
        out.append(tab[2560])
        n -= 2560
    if n >= 64:
        out.append(tab[n - n % 64])
        n %= 64
    out.append(tab[n])
    return out


def runparts(n):
    parts = []
    while n >= 2624:
        parts.append(2560)
        n -= 2560
    if n >= 64:
        parts.append(n - n % 64)
        n %= 64
    parts.append(n)
    return parts


def to_bits(modes_rows, bytealign, eofb):
    mt = {v: k for k, v in TABLES["MODE"].items()}
    bits = ""
    for modes in modes_rows:
        for m in modes:
            if m[0] == "p":
                bits += mt["p"]
            elif m[0] == "v":
                bits += mt[m[1]]
            else:
                bits += mt["h"] + "".join(runcodes(m[1], m[3])) + "".join(runcodes(m[2], 1 - m[3]))
        if bytealign and len(bits) % 8:
            bits += "0" * (8 - len(bits) % 8)
    if eofb:
        bits += mt["e"]
    if len(bits) % 8:
        bits += "0" * (8 - len(bits) % 8)
    return bytes(int(bits[i:i + 8], 2) for i in range(0, len(bits), 8))


def pack(rows, W, black_is_1):
    out = bytearray()
    for r in rows:
        arr = [0] * ((W + 7) // 8)
        for i, b in enumerate(r):
            v = (1 - b) if black_is_1 else b
            if v:
                arr[i // 8] |= 128 >> (i % 8)
        out += bytes(arr)
    return bytes(out)


def h2_rows(W=4, H=2, timeout=200, part=None, **kw):
    import pdfminer.ccitt as cc
    shims = numshim.install("ccitt")

    def fn(ex):
        rows = [[z3.Int("p%d_%d" % (y, x)) for x in range(W)] for y in range(H)]
        for r in rows:
            for v in r:
                ex.s.add(v >= 0, v <= 1)
        force_at = ex.choice(W * H + 2, "force") - 1          # -1: never force horizontal mode
        bytealign = ex.choice(2, "bytealign") == 1
        black1 = ex.choice(2, "blackis1") == 1
        eofb = ex.choice(2, "eofb") == 1
        modes = encode_rows(ex, rows, W, force_at)
        got = []

        class D(cc.CCITTFaxDecoder):
            def output_line(self, y, bits):
                got.append(list(bits))
                cc.CCITTFaxDecoder.output_line(self, y, bits)
        d = D(W, bytealign=bytealign, reversed=black1)
        info = {"rows": rows, "modes": modes, "bytealign": bytealign, "black1": black1, "eofb": eofb, "W": W}
        try:
            for rm in modes:
                for m in rm:
                    try:
                        if m[0] == "p":
                            d._accept("p")
                        elif m[0] == "v":
                            d._accept(m[1])
                        else:
                            d._accept("h")
                            for part_ in runparts(m[1]):
                                d._accept(part_)
                            for part_ in runparts(m[2]):
                                d._accept(part_)
                    except cc.CCITTG4Parser.ByteSkip:
                        d._accept = d._parse_mode
        except symx.Violation:
            raise
        except Exception as e:
            ex.require(False, "decoder raised %s: %s" % (type(e).__name__, e), **info)
        ex.require(len(got) == H, "%d rows decoded, %d encoded" % (len(got), H), **info)
        conds = [symx.zi(g) == p for gr, pr in zip(got, rows) for g, p in zip(gr, pr)]
        ex.require(SB(z3.And(conds)), "decoded rows differ from the bitmap (mode level)", **info)
        # bit level: every pixel comparison has been decided on this path, so the rows are concrete under the path condition
        m = ex.model()
        crow = [[symx.mval(m, v) for v in r] for r in rows]
        cmodes = encode_rows_concrete(crow, W, force_at)
        data = to_bits(cmodes, bytealign, eofb)
        try:
            out = cc.ccittfaxdecode(data, {"K": -1, "Columns": W, "EncodedByteAlign": bytealign, "BlackIs1": black1})
        except Exception as e:
            ex.require(False, "ccittfaxdecode raised %s: %s" % (type(e).__name__, e), **info)
        ex.require(out == pack(crow, W, black1), "ccittfaxdecode(%r) gives %r, the bitmap packs to %r" % (data, out, pack(crow, W, black1)), **info)

    def conc(m, info):
        return {"W": info["W"], "rows": [[symx.mval(m, v) for v in r] for r in info["rows"]], "bytealign": info["bytealign"], "black1": info["black1"], "eofb": info["eofb"],
                "force": symx.mval(m, z3.Int("force")) - 1}
    return core.run_symx("H2_rows", fn, [cc.CCITTG4Parser._parse_mode, cc.CCITTG4Parser._parse_horiz1, cc.CCITTG4Parser._parse_horiz2, cc.CCITTG4Parser._flush_line,
                                         cc.CCITTG4Parser._reset_line, cc.CCITTFaxDecoder.output_line, cc.ccittfaxdecode, cc.CCITTG4Parser.feedbytes],
                         {"width": W, "height": H, "pixels": "all symbolic", "alternatives": "horizontal mode forced at one symbolic step (or never)", "EncodedByteAlign": "both", "BlackIs1": "both",
                          "EOFB": "with/without"}, timeout, concretize=conc, shims={"namespace_shims": shims}, part=part, int_lo=-4, int_hi=W + 4)


class _NoEx:
    def choice(self, *a):
        return 0


def encode_rows_concrete(rows, W, force_at):
    return encode_rows(None, rows, W, force_at)


def h3_long(timeout=100, **kw):
    """concrete long rows exercising make-up codes (> 63, > 2560) through the bit-level path; the run boundaries are chosen symbolically"""
    import pdfminer.ccitt as cc

    def fn(ex):
        W = [70, 200, 1728, 2600, 5300][ex.choice(5, "width")]
        k1 = ex.choice(4, "k1")
        k2 = ex.choice(4, "k2")
        cuts = sorted({[0, 1, 63, 64][k1], W - [0, 1, 64, 65][k2]})
        black1 = ex.choice(2, "blackis1") == 1
        bytealign = ex.choice(2, "bytealign") == 1
        row = []
        c = 1
        for x in range(W):
            if x in cuts:
                c = 1 - c
            row.append(c)
        rows = [row, [1] * W, row]
        force = ex.choice(3, "force") - 1
        data = to_bits(encode_rows_concrete(rows, W, force), bytealign, True)
        try:
            out = cc.ccittfaxdecode(data, {"K": -1, "Columns": W, "EncodedByteAlign": bytealign, "BlackIs1": black1})
        except Exception as e:
            ex.require(False, "ccittfaxdecode raised %s: %s" % (type(e).__name__, e), W=W, cuts=cuts)
        ex.require(out == pack(rows, W, black1), "long rows (W=%d, colour changes at %r) do not decode to the original" % (W, cuts), W=W, cuts=cuts, black1=black1, bytealign=bytealign, force=force)

    def conc(m, info):
        return {k: info.get(k) for k in ("W", "cuts", "black1", "bytealign", "force")}
    return core.run_symx("H3_long", fn, [cc.ccittfaxdecode, cc.CCITTG4Parser._parse_horiz1, cc.CCITTG4Parser._parse_horiz2],
                         {"widths": [70, 200, 1728, 2600, 5300], "rows": "3 rows with runs across the 64 / 2560 make-up boundaries", "note": "concrete per path (choices only)"},
                         timeout, concretize=conc)


def h4_tables(timeout=60, **kw):
    import pdfminer.ccitt as cc

    def walk(t, pre=""):
        out = {}
        for b in (0, 1):
            v = t[b]
            if isinstance(v, list):
                out.update(walk(v, pre + str(b)))
            elif v is not None:
                out[pre + str(b)] = v
        return out

    def fn(ex):
        for name in ("MODE", "WHITE", "BLACK"):
            live = walk(getattr(cc.CCITTG4Parser, name))
            ex.require(live == TABLES[name], "code table %s differs from T.4/T.6: %r" % (name, sorted(set(live.items()) ^ set(TABLES[name].items()))[:4]), table=name)

    def conc(m, info):
        return {"table": info["table"]}
    return core.run_symx("H4_tables", fn, [cc.BitParser.add], {"tables": "MODE (18), WHITE (104), BLACK (104) codes", "note": "finite enumeration"}, timeout, concretize=conc)


# ------------------------------------------------------------------------------------------- replay
def replay(harness, inp):
    import pdfminer.ccitt as cc
    if harness == "H1_step":
        W = inp["W"]
        ref, cur, a0, color = inp["ref"], list(inp["cur"]), inp["a0"], inp["color"]
        p = mk(W, ref, cur, a0, color)
        start = max(a0, 0)

        def b1of():
            for x in range(max(a0 + 1, 0), W):
                prev = ref[x - 1] if x > 0 else 1
                if ref[x] != color and prev == color:
                    return x
            return W
        b1 = b1of()
        exp = list(cur)
        if inp["kind"] == "vertical":
            a1 = b1 + inp["dx"]
            p._do_vertical(inp["dx"])
            for x in range(start, a1):
                exp[x] = color
            want = (exp, a1, 1 - color)
        elif inp["kind"] == "pass":
            b2 = W
            for x in range(b1 + 1, W):
                if ref[x] != ref[x - 1]:
                    b2 = x
                    break
            p._do_pass()
            for x in range(start, b2):
                exp[x] = color
            want = (exp, b2, color)
        else:
            p._do_horizontal(inp["n1"], inp["n2"])
            for x in range(start, start + inp["n1"]):
                exp[x] = color
            for x in range(start + inp["n1"], start + inp["n1"] + inp["n2"]):
                exp[x] = 1 - color
            want = (exp, start + inp["n1"] + inp["n2"], color)
        got = (list(p._curline), p._curpos, p._color)
        return None if got == want else "%s step on reference line %r, coding line %r, a0=%d, colour %d, %r: line/a0/colour %r, T.6 gives %r" % (
            inp["kind"], ref, cur, a0, color, {k: inp.get(k) for k in ("dx", "n1", "n2")}, got, want)
    if harness == "H2_rows":
        W, rows = inp["W"], inp["rows"]
        data = to_bits(encode_rows_concrete(rows, W, inp["force"]), inp["bytealign"], inp["eofb"])
        try:
            out = cc.ccittfaxdecode(data, {"K": -1, "Columns": W, "EncodedByteAlign": inp["bytealign"], "BlackIs1": inp["black1"]})
        except Exception as e:
            return "ccittfaxdecode(%r, Columns=%d) raised %r for bitmap %r" % (data, W, e, rows)
        exp = pack(rows, W, inp["black1"])
        return None if out == exp else "bitmap %r (1=white) encoded as %r (EncodedByteAlign=%s BlackIs1=%s): ccittfaxdecode gives %r, expected %r" % (
            rows, data, inp["bytealign"], inp["black1"], out, exp)
    if harness == "H3_long":
        W, cuts = inp["W"], inp["cuts"]
        row, c = [], 1
        for x in range(W):
            if x in cuts:
                c = 1 - c
            row.append(c)
        rows = [row, [1] * W, row]
        data = to_bits(encode_rows_concrete(rows, W, inp["force"]), inp["bytealign"], True)
        try:
            out = cc.ccittfaxdecode(data, {"K": -1, "Columns": W, "EncodedByteAlign": inp["bytealign"], "BlackIs1": inp["black1"]})
        except Exception as e:
            return "ccittfaxdecode raised %r for W=%d cuts=%r" % (e, W, cuts)
        return None if out == pack(rows, W, inp["black1"]) else "rows of width %d with colour changes at %r do not decode to the original" % (W, cuts)
    if harness == "H4_tables":
        def walk(t, pre=""):
            out = {}
            for b in (0, 1):
                v = t[b]
                if isinstance(v, list):
                    out.update(walk(v, pre + str(b)))
                elif v is not None:
                    out[pre + str(b)] = v
            return out
        live = walk(getattr(cc.CCITTG4Parser, inp["table"]))
        d = sorted(set(live.items()) ^ set(TABLES[inp["table"]].items()))
        return None if not d else "code table %s: entries differing from T.4/T.6: %r" % (inp["table"], d[:6])
    raise KeyError(harness)


def jobs(tier):
    J = [Job("H4_tables", "h4_tables", {}, 60), Job("H3_long", "h3_long", {}, 150)]
    if tier == "quick":
        for kind in ("vertical", "pass", "horizontal"):
            J.append(Job("H1_step:%s:W8" % kind, "h1_step", {"kind": kind, "W": 8}, 150, "H1_step"))
        for k in range(6):
            J.append(Job("H2_rows:W4H2:%d" % k, "h2_rows", {"W": 4, "H": 2, "part": [k, 6, 8]}, 200, "H2_rows"))
        for k in range(9):
            J.append(Job("H2_rows:W3H3:%d" % k, "h2_rows", {"W": 3, "H": 3, "part": [k, 9, 9]}, 200, "H2_rows"))
    else:
        for kind in ("vertical", "pass", "horizontal"):
            for k in range(4):
                J.append(Job("H1_step:%s:W10:%d" % (kind, k), "h1_step", {"kind": kind, "W": 10, "part": [k, 4, 8]}, 900, "H1_step"))
        for k in range(16):
            J.append(Job("H2_rows:W5H3:%d" % k, "h2_rows", {"W": 5, "H": 3, "part": [k, 16, 11]}, 1800, "H2_rows"))
        for k in range(8):
            J.append(Job("H2_rows:W8H2:%d" % k, "h2_rows", {"W": 8, "H": 2, "part": [k, 8, 10]}, 1800, "H2_rows"))
    return J
