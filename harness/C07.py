"""C07 - composite fonts: segmentation, CID, Unicode follow CMap, ToUnicode, W/DW.

H1 IdentityCMap / IdentityCMapByte.decode on symbolic bytes.
H2 CMap.decode trie walk: codespace built through the real FileCMap.add_code2cid, strings chosen symbolically; oracle: segmentation by first byte.
H3 ToUnicode: real CMapParser.do_keyword(endbfchar / endbfrange) with the operand stack pre-loaded with symbolic byte strings; oracle ISO 32000-1 9.10.3.
H4 get_widths / get_widths2 (both W syntaxes) with symbolic ints and reals.
H5 CMapDB cache histories.  H6 PDFCIDFont.__init__ + char_width / char_disp against the W/DW (W2/DW2) arrays.
H7 TrueTypeFont.create_unicode_map on generated font files with a format-4 cmap (symbolic idDelta / glyphIdArray) against the OpenType rule.
"""
import z3

from engine import symx, sbytes
from engine.symx import SB, SI, SV
from engine.sbytes import SBy, SByI
from harness import numshim
from lib import core
from lib.core import Job

ASSUMPTIONS = [
    "predefined CJK CMaps / collection maps (pickled tables) and the 'agrees with platform codecs' clause are static data: not addressable by symbolic execution, not claimed",
    "embedded TrueType cmap: format 4 is claimed (H7, generated font files, struct.unpack replaced by big-endian arithmetic); formats 0 and 2 are not",
    "bfrange with a string target: the increment stays inside the last byte (ISO 32000-1 9.10.3 forbids overflow)",
    "H3: struct.pack('>L') / int.from_bytes are replaced by arithmetic references; the recorded add_cid2unichr calls are compared (UTF-16BE decoding itself is C code)",
]
OUTSIDE = ["vertical metrics beyond the W2 array parsing", "usecmap chains", "strings longer than the bound"]


def py_unpack(fmt, data):
    import struct
    if isinstance(data, SBy):
        if fmt[0] == ">" and fmt[-1] == "H":
            n = int(fmt[1:-1])
            if len(data) != 2 * n:
                raise struct.error("unpack requires a buffer of %d bytes" % (2 * n))
            e = data.ints()
            return tuple(e[2 * i] * 256 + e[2 * i + 1] for i in range(n))
        if fmt[0] == ">" and fmt[-1] == "B":
            n = int(fmt[1:-1])
            if len(data) != n:
                raise struct.error("unpack requires a buffer of %d bytes" % n)
            return tuple(data.ints())
        raise symx.Unsupported("struct.unpack(%r) on symbolic bytes" % fmt)
    return struct.unpack(fmt, data)


def py_pack(fmt, *vals):
    import struct
    if fmt == ">L" and isinstance(vals[0], SI):
        v = vals[0]
        if not bool(SB(z3.And(v.e >= 0, v.e < 2 ** 32))):
            raise struct.error("argument out of range")
        return SBy([(v.e / (256 ** k)) % 256 for k in (3, 2, 1, 0)])
    return struct.pack(fmt, *vals)


def _cm():
    import types
    import struct
    import pdfminer.cmapdb as cm
    from harness import C02
    shims = numshim.install("cmapdb", "utils", "pdffont", "pdftypes", "casting")
    C02._shims()
    cm.struct = types.SimpleNamespace(unpack=py_unpack, pack=py_pack, error=struct.error)
    cm.bytes = sbytes.BytesT
    return cm, shims + ["cmapdb.struct.pack/unpack -> arithmetic", "cmapdb.bytes"]


def h1_identity(timeout=100, **kw):
    cm, shims = _cm()

    def fn(ex):
        n = ex.choice(6, "len")
        data = sbytes.sym_bytes(ex, "b", n)
        for cls, width in ((cm.IdentityCMap, 2), (cm.IdentityCMapByte, 1)):
            try:
                got = tuple(cls(WMode=0).decode(SByI(data.els)))
            except symx.Violation:
                raise
            except Exception as e:
                ex.require(False, "%s.decode raised %s: %s" % (cls.__name__, type(e).__name__, e), data=data, cls=cls.__name__)
            exp = [data.els[i] * 256 + data.els[i + 1] for i in range(0, n - 1, 2)] if width == 2 else list(data.els)
            ex.require(len(got) == len(exp), "%s.decode gives %d codes for %d bytes" % (cls.__name__, len(got), n), data=data, cls=cls.__name__)
            if exp:
                ex.require(SB(z3.And([symx.zi(g) == e for g, e in zip(got, exp)])), "%s.decode codes are not the big-endian %d-byte groups" % (cls.__name__, width), data=data, cls=cls.__name__)

    def conc(m, info):
        return {"data": sbytes.model_bytes(m, info["data"]), "cls": info["cls"]}
    return core.run_symx("H1_identity", fn, [cm.IdentityCMap.decode, cm.IdentityCMapByte.decode], {"bytes": "0..5 symbolic"}, timeout, concretize=conc, shims={"namespace_shims": shims})


CODES1 = [0x20, 0x41]
CODES2 = [(0x81, 0x40), (0x81, 0x41), (0x82, 0x40)]
BYTES = [0x20, 0x41, 0x81, 0x82, 0x40, 0xFF]


def h2_trie(maxlen=4, timeout=200, part=None, **kw):
    import pdfminer.cmapdb as cm

    def fn(ex):
        m = cm.FileCMap()
        table = {}
        for i, c in enumerate(CODES1):
            if ex.choice(2, "one%d" % i):
                m.add_code2cid(chr(c), 100 + i)
                table[(c,)] = 100 + i
        for i, c in enumerate(CODES2):
            if ex.choice(2, "two%d" % i):
                m.add_code2cid(chr(c[0]) + chr(c[1]), 200 + i)
                table[c] = 200 + i
        n = ex.choice(maxlen + 1, "len")
        s = bytes(BYTES[ex.choice(len(BYTES), "s%d" % i)] for i in range(n))
        got = list(m.decode(s))
        # oracle: the first byte decides the code length (1 if it is a one-byte code, 2 if it starts a two-byte code); undefined codes give no CID
        two_first = {c[0] for c in table if len(c) == 2}
        exp, i = [], 0
        while i < n:
            if s[i] in two_first:
                if i + 1 < n and (s[i], s[i + 1]) in table:
                    exp.append(table[(s[i], s[i + 1])])
                i += 2
            else:
                if (s[i],) in table:
                    exp.append(table[(s[i],)])
                i += 1
        ex.require(got == exp, "decode(%r) = %r with codes %r, segmentation by first byte gives %r" % (s, got, sorted(table), exp), s=s, table=sorted(table))

    def conc(m, info):
        return {"s": info["s"], "table": [list(t) for t in info["table"]]}
    return core.run_symx("H2_trie", fn, [cm.CMap.decode, cm.FileCMap.add_code2cid], {"codes": "any subset of %r and %r" % (CODES1, CODES2), "string": "<= %d bytes from %r" % (maxlen, BYTES)},
                         timeout, concretize=conc, part=part)


class RecMap:
    """stands for the unicode map: records add_cid2unichr calls"""

    def __init__(self):
        self.calls = []

    def add_cid2unichr(self, cid, code):
        self.calls.append((cid, code))


def h3_tounicode(kind="bfrange", timeout=200, part=None, **kw):
    cm, shims = _cm()

    def fn(ex):
        rec = RecMap()
        p = cm.CMapParser.__new__(cm.CMapParser)
        p.cmap = rec
        p._in_cmap = True
        p._warnings = set()
        p.curstack = []
        p.context = []
        p.curtype = None
        p.results = []
        clen = 1 + ex.choice(2, "codelen")
        tlen = 2 + ex.choice(3, "targetlen")                 # 2..4 bytes
        start = sbytes.sym_bytes(ex, "s", clen)
        target = sbytes.sym_bytes(ex, "t", tlen)
        info = {"kind": kind, "start": start, "target": target}
        sval = sum((e * 256 ** (clen - 1 - i) for i, e in enumerate(start.els)), z3.IntVal(0))
        if kind == "bfchar":
            p.curstack = [(0, start), (0, target)]
            p.do_keyword(0, cm.CMapParser.KEYWORD_ENDBFCHAR)
            ex.require(len(rec.calls) == 1, "endbfchar registered %d mappings" % len(rec.calls), **info)
            cid, code = rec.calls[0]
            ex.require(SB(z3.And(symx.zi(cid) == sval, (SBy.of(code) == target).e)) if len(SBy.of(code)) == tlen else False, "bfchar <code> <target> is not registered as code -> target", **info)
            return
        steps = ex.choice(4, "steps")                        # end = start + steps
        ex.assume(SB(start.els[-1] + steps <= 255))
        end = SBy(start.els[:-1] + [start.els[-1] + steps])
        info["steps"] = steps
        if kind == "bfrange":
            ex.assume(SB(target.els[-1] + steps <= 255))      # no overflow of the last byte (9.10.3)
            p.curstack = [(0, start), (0, end), (0, target)]
            p.do_keyword(0, cm.CMapParser.KEYWORD_ENDBFRANGE)
            ex.require(len(rec.calls) == steps + 1, "bfrange over %d codes registered %d mappings" % (steps + 1, len(rec.calls)), **info)
            conds = []
            for i, (cid, code) in enumerate(rec.calls):
                code = SBy.of(code)
                if len(code) != tlen:
                    ex.require(False, "bfrange target has the wrong length", **info)
                conds.append(symx.zi(cid) == sval + i)
                conds.append((code == SBy(target.els[:-1] + [target.els[-1] + i])).e)
            ex.require(SB(z3.And(conds)), "bfrange <s> <e> <target>: code s+i does not map to target with its last byte incremented by i", **info)
        else:                                                # array form (the code range is iterated concretely: keep the start code small)
            for e in start.els:
                ex.assume(SB(e <= 2))
            arr = [sbytes.sym_bytes(ex, "a%d_" % i, 2) for i in range(steps + 1)]
            p.curstack = [(0, start), (0, end), (0, list(arr))]
            p.do_keyword(0, cm.CMapParser.KEYWORD_ENDBFRANGE)
            ex.require(len(rec.calls) == steps + 1, "bfrange (array) over %d codes registered %d mappings" % (steps + 1, len(rec.calls)), **info)
            conds = []
            for i, (cid, code) in enumerate(rec.calls):
                conds.append(symx.zi(cid) == sval + i)
                conds.append(z3.BoolVal(code is arr[i]))
            ex.require(SB(z3.And(conds)), "bfrange <s> <e> [array]: code s+i does not map to the i-th array element", **info)

    def conc(m, info):
        return {"kind": info["kind"], "start": sbytes.model_bytes(m, info["start"]), "target": sbytes.model_bytes(m, info["target"]), "steps": info.get("steps", 0)}
    return core.run_symx("H3_tounicode", fn, [cm.CMapParser.do_keyword], {"form": kind, "code_length": "1..2 symbolic bytes", "target": "2..4 symbolic bytes", "range": "0..3 steps"},
                         timeout, concretize=conc, shims={"namespace_shims": shims}, part=part, int_lo=-1, int_hi=70000)


def h3_unichr(timeout=60, **kw):
    """FileUnicodeMap.add_cid2unichr on concrete samples (UTF-16BE decoding is C code): multi-character targets, surrogate pairs, ints, glyph names"""
    import pdfminer.cmapdb as cm
    from pdfminer.psparser import LIT
    samples = [(b"\x00A", "A"), (b"\x00f\x00i", "fi"), (b"\xd8\x3d\xde\x00", "\U0001F600"), (0x41, "A"), (LIT("uni0041"), "A"), (b"\x20\xac", "€"), (b"", ""), (b"\x00\xa0", "\u00a0"), (b"\x00 ", " ")]

    def fn(ex):
        i = ex.choice(len(samples), "i")
        j = ex.choice(len(samples) + 1, "earlier")          # an earlier definition of the same code (none / each sample): a CMap is a PostScript program executed in order, the later definition stands
        m = cm.FileUnicodeMap()
        if j:
            m.add_cid2unichr(7, samples[j - 1][0])
            if samples[j - 1][1] == " " and samples[i][1] == "\u00a0":
                return          # the library keeps a space that a later NO-BREAK SPACE would replace (its rule for fonts that map both to one code): left out of the claim
        m.add_cid2unichr(7, samples[i][0])
        ex.require(m.get_unichr(7) == samples[i][1], "add_cid2unichr(7, %r)%s -> %r, expected %r" % (samples[i][0], (" after add_cid2unichr(7, %r)" % (samples[j - 1][0],)) if j else "", m.get_unichr(7), samples[i][1]), i=i, earlier=j)

    def conc(m, info):
        return info
    return core.run_symx("H3_unichr", fn, [cm.FileUnicodeMap.add_cid2unichr], {"samples": len(samples), "earlier definition of the same code": "none / each sample (space then NO-BREAK SPACE excluded)"}, timeout, concretize=conc)


def h5_mapcache(n=3, timeout=100, **kw):
    """CMapDB.get_cmap / get_unicode_map with the resource loader stubbed: for every call history (names, writing modes, repeated calls) the map returned is
    the one for the requested collection and writing mode (history / cache independence; also serves C12)"""
    import types
    import pdfminer.cmapdb as cm

    def fn(ex):
        loads = []

        def fake_load(name):
            loads.append(name)
            return types.SimpleNamespace(CID2UNICHR_H={1: name + ":H"}, CID2UNICHR_V={1: name + ":V"}, CODE2CID={65: len(name)}, IS_VERTICAL=name.endswith("-V"))
        real = cm.CMapDB._load_data
        c1, c2 = dict(cm.CMapDB._cmap_cache), dict(cm.CMapDB._umap_cache)
        cm.CMapDB._load_data = staticmethod(fake_load)
        cm.CMapDB._cmap_cache.clear()
        cm.CMapDB._umap_cache.clear()
        hist = []
        try:
            for step in range(n):
                kind = ex.choice(2, "kind%d" % step)
                name = ["Adobe-X1", "Adobe-X2"][ex.choice(2, "name%d" % step)] if kind == 0 else ["Foo-H", "Foo-V"][ex.choice(2, "name%d" % step)]
                if kind == 0:
                    vertical = ex.choice(2, "v%d" % step) == 1
                    hist.append(("umap", name, vertical))
                    m = cm.CMapDB.get_unicode_map(name, vertical)
                    want = "to-unicode-%s:%s" % (name, "V" if vertical else "H")
                    ex.require(m.get_unichr(1) == want and m.is_vertical() == vertical, "after %r get_unicode_map(%r, vertical=%s) returns the map %r (vertical=%s)" % (
                        hist[:-1], name, vertical, m.get_unichr(1), m.is_vertical()), hist=list(hist))
                else:
                    hist.append(("cmap", name))
                    m = cm.CMapDB.get_cmap(name)
                    ex.require(list(m.decode(b"A")) == [len(name)] and m.is_vertical() == name.endswith("-V"), "after %r get_cmap(%r) returns a wrong map" % (hist[:-1], name), hist=list(hist))
            ex.require(len(loads) == len(set(loads)), "a resource was loaded twice in spite of the cache: %r" % loads, hist=list(hist))
        finally:
            cm.CMapDB._load_data = real
            cm.CMapDB._cmap_cache.clear()
            cm.CMapDB._cmap_cache.update(c1)
            cm.CMapDB._umap_cache.clear()
            cm.CMapDB._umap_cache.update(c2)

    def conc(m, info):
        return {"hist": [list(h) for h in info["hist"]]}
    return core.run_symx("H5_mapcache", fn, [cm.CMapDB.get_cmap, cm.CMapDB.get_unicode_map, cm.PyUnicodeMap.__init__, cm.PyCMap.__init__],
                         {"history": "%d calls, each get_unicode_map(one of 2 collections, either writing mode) or get_cmap(one of 2 names)" % n, "loader": "stubbed"}, timeout, concretize=conc)


def h4_widths(which=1, timeout=200, part=None, **kw):
    import pdfminer.pdffont as pf
    shims = numshim.install("pdffont", "pdftypes", "casting", "utils")

    def fn(ex):
        form = ex.choice(3, "form")            # list form / range form / both
        c1 = ex.int("c1", 0, 6)
        w = [ex.real("w%d" % i, -2000, 2000) for i in range(6)]
        seq, exp = [], {}
        if which == 1:
            if form in (0, 2):
                k = 1 + ex.choice(2, "k")
                seq += [c1, list(w[:k])]
                for i in range(k):
                    exp[("c1", i)] = w[i]
            if form in (1, 2):
                c2 = ex.int("c2", 0, 6)
                span = ex.choice(3, "span")
                seq += [c2, c2 + span, w[5]]
                for i in range(span + 1):
                    exp[("c2", i)] = w[5]
            got = pf.get_widths(seq)
        else:
            if form in (0, 2):
                seq += [c1, [w[0], w[1], w[2]]]
                exp[("c1", 0)] = (w[0], (w[1], w[2]))
            if form in (1, 2):
                c2 = ex.int("c2", 0, 6)
                span = ex.choice(3, "span")
                seq += [c2, c2 + span, w[3], w[4], w[5]]
                for i in range(span + 1):
                    exp[("c2", i)] = (w[3], (w[4], w[5]))
            got = pf.get_widths2(seq)
        info = {"which": which, "form": form, "seq": seq}
        # every expected (code -> width) must be present unless overwritten by a later entry for the same code
        items = list(exp.items())
        conds = []
        code_of = lambda key: (c1 if key[0] == "c1" else c2).e + key[1]
        for idx, (key, val) in enumerate(items):
            code = code_of(key)
            later_same = z3.Or([code_of(k2) == code for k2, _ in items[idx + 1:]]) if items[idx + 1:] else z3.BoolVal(False)
            found = []
            for gk, gv in got.items():
                same = (gv[0] is val[0] and gv[1][0] is val[1][0] and gv[1][1] is val[1][1]) if which == 2 else (gv is val)
                found.append(z3.And(symx.zi(gk) == code, z3.BoolVal(bool(same))))
            conds.append(z3.Or(later_same, z3.Or(found) if found else z3.BoolVal(False)))
        for gk in got:
            conds.append(z3.Or([symx.zi(gk) == code_of(k) for k, _ in items]))
        ex.require(SB(z3.And(conds)), "get_widths%s(%r) does not hold exactly the codes and widths of the array" % ("2" if which == 2 else "", seq), **info)

    def conc(m, info):
        g = lambda x: [g(y) for y in x] if isinstance(x, list) else symx.mval(m, x)
        return {"which": info["which"], "seq": g(info["seq"])}
    return core.run_symx("H4_widths", fn, [pf.get_widths, pf.get_widths2], {"array": "W" if which == 1 else "W2", "forms": "c [w..] / c_first c_last w / both", "codes": "symbolic 0..8", "widths": "symbolic reals"},
                         timeout, concretize=conc, shims={"namespace_shims": shims}, part=part, int_lo=-1, int_hi=12)


def _font_and_expect(vertical, c1, c2, span, w, has_d):
    """builds the CIDFont spec (W/DW or W2/DW2) and the widths / displacements the arrays assign to CIDs 0..7 (later entries override earlier ones)"""
    from pdfminer.psparser import LIT
    spec = {"Encoding": LIT("Identity-V" if vertical else "Identity-H"), "FontDescriptor": {}}
    ew, ed = {}, {}
    if not vertical:
        spec["W"] = [c1, [w[0], w[1]], c2, c2 + span, w[2]]
        dw = 1000
        if has_d:
            spec["DW"] = dw = w[3]
        ew[int(c1)] = w[0]
        ew[int(c1) + 1] = w[1]
        for i in range(span + 1):
            ew[int(c2) + i] = w[2]
        dd = 0
    else:
        spec["W2"] = [c1, [w[0], w[1], w[2]], c2, c2 + span, w[3], w[4], w[5]]
        dvy, dw = 880, -1000
        if has_d:
            spec["DW2"] = [w[6], w[7]]
            dvy, dw = w[6], w[7]
        ew[int(c1)] = w[0]
        ed[int(c1)] = (w[1], w[2])
        for i in range(span + 1):
            ew[int(c2) + i] = w[3]
            ed[int(c2) + i] = (w[4], w[5])
        dd = (None, dvy)
    return spec, ew, ed, dw, dd


def h6_advance(vertical=0, timeout=200, part=None, **kw):
    """the real PDFCIDFont.__init__ on a spec with symbolic W/DW (W2/DW2): char_width / char_disp of every CID 0..7 are what the arrays assign (a width of 0 is a width)"""
    import pdfminer.pdffont as pf
    shims = numshim.install("pdffont", "pdftypes", "casting", "utils")

    def fn(ex):
        w = [ex.real("w%d" % i, -2000, 2000) for i in range(8)]
        c1, c2 = ex.int("c1", 0, 4), ex.int("c2", 0, 4)
        span = ex.choice(2, "span")
        has_d = ex.choice(2, "has_default")
        spec, ew, ed, dw, dd = _font_and_expect(vertical, c1, c2, span, w, has_d)
        font = pf.PDFCIDFont(None, spec, strict=False)
        info = {"vertical": vertical, "spec": {k: v for k, v in spec.items() if k in ("W", "DW", "W2", "DW2")}}
        conds = []
        for cid in range(8):
            gw = font.char_width(cid)
            conds.append(symx.zr(gw) == symx.zr(ew.get(cid, dw) * 0.001))
            gd = font.char_disp(cid)
            xd = ed.get(cid, dd)
            if isinstance(xd, tuple):
                ok = isinstance(gd, tuple) and len(gd) == 2 and (gd[0] is None) == (xd[0] is None)
                if not ok:
                    conds.append(z3.BoolVal(False))
                else:
                    if xd[0] is not None:
                        conds.append(symx.zr(gd[0]) == symx.zr(xd[0]))
                    conds.append(symx.zr(gd[1]) == symx.zr(xd[1]))
            else:
                conds.append(z3.BoolVal(not isinstance(gd, tuple) and gd == xd))
        ex.require(SB(z3.And(conds)), "char_width / char_disp differ from the W/DW (W2/DW2) arrays", **info)

    def conc(m, info):
        g = lambda x: [g(y) for y in x] if isinstance(x, list) else symx.mval(m, x)
        return {"vertical": info["vertical"], "spec": {k: g(v) for k, v in info["spec"].items()}}
    return core.run_symx("H6_advance", fn, [pf.PDFCIDFont.__init__, pf.PDFFont.char_width, pf.PDFCIDFont.char_disp, pf.get_widths, pf.get_widths2],
                         {"font": "Identity-V" if vertical else "Identity-H", "arrays": "c [w w] c_first c_last w (W) / c [w vx vy] c_first c_last w vx vy (W2), DW / DW2 present or absent",
                          "codes": "symbolic 0..4", "widths": "symbolic reals in [-2000, 2000], 0 included", "cids asked": "0..7"},
                         timeout, concretize=conc, shims={"namespace_shims": shims}, part=part, int_lo=-1, int_hi=12)


# ---------------------------------------------------------------------------------------------------------- H7 embedded TrueType cmap (format 4)
def sym_unpack(fmt, data):
    """struct.unpack for big-endian integer formats (counts, b B h H l L i I, 4s) on bytes whose elements may be symbolic"""
    import re
    import struct
    data = SBy.of(data)
    if data.concrete():
        return struct.unpack(fmt, bytes(data.els))
    m = re.fullmatch(r">((?:\d*[bBhHlLiIs])+)", fmt)
    if not m:
        raise symx.Unsupported("struct.unpack(%r) on symbolic bytes" % fmt)
    sizes = {"b": 1, "B": 1, "h": 2, "H": 2, "l": 4, "L": 4, "i": 4, "I": 4}
    items = [(int(c or 1), ch) for c, ch in re.findall(r"(\d*)([bBhHlLiIs])", m.group(1))]
    need = sum(c if ch == "s" else c * sizes[ch] for c, ch in items)
    if len(data) != need:
        raise struct.error("unpack requires a buffer of %d bytes" % need)
    out, i = [], 0
    for c, ch in items:
        if ch == "s":
            chunk = data.els[i:i + c]
            out.append(bytes(chunk) if all(isinstance(e, int) for e in chunk) else SBy(chunk))
            i += c
            continue
        n = sizes[ch]
        for _ in range(c):
            chunk = data.els[i:i + n]
            i += n
            if all(isinstance(e, int) for e in chunk):
                out.append(int.from_bytes(bytes(chunk), "big", signed=ch.islower()))
                continue
            v = 0
            for e in chunk:
                v = v * 256 + e
            if ch.islower():
                v = z3.If(v >= 1 << (8 * n - 1), v - (1 << (8 * n)), v)
            out.append(SI(z3.simplify(v)))
    return tuple(out)


def _be16(v):
    """two big-endian bytes of an int or a z3 Int term in [0, 65535]"""
    return [v >> 8, v & 255] if isinstance(v, int) else [v / 256, v % 256]


def tt_font(segs, glyph_array):
    """a minimal TrueType file with one cmap subtable (platform 3, encoding 1, format 4).  segs: [(start, end, idDelta as unsigned 16-bit, index into glyph_array or None)];
    the terminating 0xFFFF segment is appended here.  Returns the byte elements (ints / z3 terms)."""
    segs = list(segs) + [(0xFFFF, 0xFFFF, 1, None)]
    n = len(segs)
    sub = [0, 4, 0, 0, 0, 0, (2 * n) >> 8, (2 * n) & 255, 0, 0, 0, 0, 0, 0]          # format, length (unused by readers here), language, segCountX2, searchRange.., rangeShift
    for _, e, _, _ in segs:
        sub += _be16(e)
    sub += [0, 0]
    for st, _, _, _ in segs:
        sub += _be16(st)
    for _, _, d, _ in segs:
        sub += _be16(d)
    for i, (_, _, _, gi) in enumerate(segs):
        # idRangeOffset[i]: byte distance from this very field to the glyphIdArray element of the segment's first code (OpenType cmap format 4)
        sub += _be16(0 if gi is None else 2 * (n - i) + 2 * gi)
    for g in glyph_array:
        sub += _be16(g)
    cmap = [0, 0, 0, 1, 0, 3, 0, 1, 0, 0, 0, 12] + sub
    head = list(b"\x00\x01\x00\x00") + [0, 1, 0, 0, 0, 0, 0, 0] + list(b"cmap") + [0, 0, 0, 0] + [0, 0, 0, 28] + list(len(cmap).to_bytes(4, "big"))
    return head + cmap


def tt_expected(segs, glyph_array, mod=lambda v: v % 65536, is_zero=lambda v: v == 0):
    """(char, glyph) pairs by the OpenType specification: idRangeOffset 0 -> (c + idDelta) mod 65536; else the glyphIdArray value v -> 0 if v == 0 else (v + idDelta) mod 65536"""
    out = []
    for st, e, d, gi in segs:
        for k, c in enumerate(range(st, e + 1)):
            if gi is None:
                out.append((c, mod(c + d), None))
            else:
                v = glyph_array[gi + k]
                out.append((c, mod(v + d), v))
    return out


TT_SHAPES = [  # (segments as (start, end, uses_array), glyph array length): the array index of a segment is the running count of array entries
    [(0x41, 0x42, False)],
    [(0x41, 0x42, True)],
    [(0x41, 0x41, False), (0x50, 0x51, True)],
    [(0x41, 0x42, True), (0x50, 0x50, True)],
    [(0x30, 0x30, True), (0x41, 0x41, False), (0x50, 0x51, True)],
]


def h7_ttcmap(timeout=200, part=None, **kw):
    """TrueTypeFont.create_unicode_map on a generated font file whose format-4 cmap has 1-3 segments, symbolic idDelta values and symbolic glyphIdArray entries:
    every character code maps to the glyph the OpenType specification assigns (so the Unicode of a shown glyph id is that character)"""
    import io
    import types
    import struct
    import pdfminer.pdffont as pf
    shims = numshim.install("pdffont", "cmapdb")
    pf.struct = types.SimpleNamespace(unpack=sym_unpack, error=struct.error, pack=struct.pack)

    class Rec:
        def __init__(self):
            self.calls = []

        def add_cid2unichr(self, cid, code):
            self.calls.append((cid, code))
    pf.FileUnicodeMap = Rec

    def fn(ex):
        shape = TT_SHAPES[ex.choice(len(TT_SHAPES), "shape")]
        segs, garr, gi = [], [], 0
        for i, (st, e, arr) in enumerate(shape):
            d = ex.int("d%d" % i, 0, 65535)                      # idDelta as stored (two's complement 16 bit)
            if arr:
                segs.append((st, e, d.e, gi))
                for k in range(e - st + 1):
                    garr.append(ex.int("g%d" % (gi + k), 0, 65535).e)
                gi += e - st + 1
            else:
                segs.append((st, e, d.e, None))
        data = SBy(tt_font(segs, garr))
        info = {"shape": shape, "data": data}
        try:
            m = pf.TrueTypeFont("F", sbytes.SymFile(data)).create_unicode_map()
        except symx.Violation:
            raise
        except Exception as e:
            ex.require(False, "create_unicode_map raised %s: %s" % (type(e).__name__, e), **info)
        got = {}
        for cid, code in m.calls:
            got[int(code)] = cid
        exp = tt_expected(segs, garr, mod=lambda v: v % 65536)
        got.pop(0xFFFF, None)                       # the mandatory final segment 0xFFFF..0xFFFF (glyph 0) may or may not be entered
        ex.require(set(got) <= set(c for c, _, _ in exp), "characters mapped: %r, the cmap covers %r" % (sorted(got), [c for c, _, _ in exp]), **info)
        conds = []
        for c, g, v in exp:
            if c not in got:                        # only a character whose glyphIdArray entry is 0 (missing glyph) may be left out
                conds.append(z3.BoolVal(False) if v is None else v == 0)
                continue
            gz = symx.zi(got[c]) if not isinstance(got[c], z3.ExprRef) else got[c]
            conds.append(gz == g if v is None else z3.If(v == 0, gz == 0, gz == g))
        ex.require(SB(z3.And(conds)), "a character code is mapped to a glyph other than the one the format-4 subtable assigns", **info)

    def conc(m, info):
        return {"shape": [list(x) for x in info["shape"]], "data": sbytes.model_bytes(m, info["data"])}
    return core.run_symx("H7_ttcmap", fn, [pf.TrueTypeFont.__init__, pf.TrueTypeFont.create_unicode_map],
                         {"font": "generated TrueType file, one cmap subtable (3,1) format 4", "segments": [[(hex(a), hex(b), "glyphIdArray" if c else "delta only") for a, b, c in sh] for sh in TT_SHAPES],
                          "idDelta": "symbolic 16 bit per segment", "glyphIdArray": "symbolic 16-bit entries (0 = missing glyph)"},
                         timeout, concretize=conc, shims={"namespace_shims": shims + ["pdffont.struct.unpack -> big-endian arithmetic", "FileUnicodeMap -> recording stub"]}, part=part, int_lo=-1, int_hi=70000)


def h8_getfont(timeout=150, **kw):
    """composite fonts that share one descendant CIDFont (only one of them has a ToUnicode map): every 3-call get_font history gives each font the text it has in isolation (C12.H4, run here as well)"""
    from harness import C12
    r = C12.h4_getfont(timeout=timeout)
    r["harness"] = "H8_getfont"
    return r


def replay(harness, inp):
    import pdfminer.cmapdb as cm
    if harness == "H1_identity":
        data = inp["data"]
        cls = getattr(cm, inp["cls"])
        try:
            got = tuple(cls(WMode=0).decode(data))
        except Exception as e:
            return "%s().decode(%r) raised %r" % (inp["cls"], data, e)
        exp = tuple(data[i] * 256 + data[i + 1] for i in range(0, len(data) - 1, 2)) if inp["cls"] == "IdentityCMap" else tuple(data)
        return None if got == exp else "%s().decode(%r) = %r, expected %r" % (inp["cls"], data, got, exp)
    if harness == "H2_trie":
        m = cm.FileCMap()
        table = {}
        for t in inp["table"]:
            t = tuple(t)
            cid = (100 + CODES1.index(t[0])) if len(t) == 1 else (200 + CODES2.index(t))
            m.add_code2cid("".join(chr(x) for x in t), cid)
            table[t] = cid
        s = inp["s"]
        got = list(m.decode(s))
        two_first = {c[0] for c in table if len(c) == 2}
        exp, i = [], 0
        while i < len(s):
            if s[i] in two_first:
                if i + 1 < len(s) and (s[i], s[i + 1]) in table:
                    exp.append(table[(s[i], s[i + 1])])
                i += 2
            else:
                if (s[i],) in table:
                    exp.append(table[(s[i],)])
                i += 1
        return None if got == exp else "CMap with codes %r: decode(%r) = %r, segmentation by first byte gives %r" % (sorted(table), s, got, exp)
    if harness == "H3_tounicode":
        rec = RecMap()
        p = cm.CMapParser.__new__(cm.CMapParser)
        p.cmap, p._in_cmap, p._warnings, p.curstack, p.context, p.curtype, p.results = rec, True, set(), [], [], None, []
        start, target, steps, kind = inp["start"], inp["target"], inp["steps"], inp["kind"]
        sval = int.from_bytes(start, "big")
        if kind == "bfchar":
            p.curstack = [(0, start), (0, target)]
            p.do_keyword(0, cm.CMapParser.KEYWORD_ENDBFCHAR)
            return None if rec.calls == [(sval, target)] else "endbfchar <%s> <%s> registers %r" % (start.hex(), target.hex(), rec.calls)
        end = start[:-1] + bytes([start[-1] + steps])
        if kind == "bfrange":
            p.curstack = [(0, start), (0, end), (0, target)]
            p.do_keyword(0, cm.CMapParser.KEYWORD_ENDBFRANGE)
            exp = [(sval + i, target[:-1] + bytes([target[-1] + i])) for i in range(steps + 1)]
            return None if rec.calls == exp else "endbfrange <%s> <%s> <%s> registers %r, expected %r" % (start.hex(), end.hex(), target.hex(), rec.calls, exp)
        arr = [bytes([0, 65 + i]) for i in range(steps + 1)]
        p.curstack = [(0, start), (0, end), (0, list(arr))]
        p.do_keyword(0, cm.CMapParser.KEYWORD_ENDBFRANGE)
        exp = [(sval + i, arr[i]) for i in range(steps + 1)]
        return None if rec.calls == exp else "endbfrange <%s> <%s> [array] registers %r, expected %r" % (start.hex(), end.hex(), rec.calls, exp)
    if harness == "H5_mapcache":
        import types

        def fake_load(name):
            return types.SimpleNamespace(CID2UNICHR_H={1: name + ":H"}, CID2UNICHR_V={1: name + ":V"}, CODE2CID={65: len(name)}, IS_VERTICAL=name.endswith("-V"))
        real = cm.CMapDB._load_data
        c1, c2 = dict(cm.CMapDB._cmap_cache), dict(cm.CMapDB._umap_cache)
        cm.CMapDB._load_data = staticmethod(fake_load)
        cm.CMapDB._cmap_cache.clear()
        cm.CMapDB._umap_cache.clear()
        try:
            done = []
            for h in inp["hist"]:
                if h[0] == "umap":
                    m = cm.CMapDB.get_unicode_map(h[1], h[2])
                    want = "to-unicode-%s:%s" % (h[1], "V" if h[2] else "H")
                    if m.get_unichr(1) != want or m.is_vertical() != h[2]:
                        return "after %r, get_unicode_map(%r, vertical=%s) returns the map for %r (vertical=%s)" % (done, h[1], h[2], m.get_unichr(1), m.is_vertical())
                else:
                    m = cm.CMapDB.get_cmap(h[1])
                    if list(m.decode(b"A")) != [len(h[1])] or m.is_vertical() != h[1].endswith("-V"):
                        return "after %r, get_cmap(%r) returns a wrong map" % (done, h[1])
                done.append(h)
            return None
        finally:
            cm.CMapDB._load_data = real
            cm.CMapDB._cmap_cache.clear()
            cm.CMapDB._cmap_cache.update(c1)
            cm.CMapDB._umap_cache.clear()
            cm.CMapDB._umap_cache.update(c2)
    if harness == "H8_getfont":
        from harness import C12
        return C12.replay("H4_getfont", inp)
    if harness == "H3_unichr":
        return core.replay_by_choices(h3_unichr, {}, inp["_choices"])
    if harness == "H7_ttcmap":
        import io
        import pdfminer.pdffont as pf
        data = inp["data"]
        shape = [tuple(x) for x in inp["shape"]]
        try:
            um = pf.TrueTypeFont("F", io.BytesIO(data)).create_unicode_map()
        except Exception as e:
            return "TrueType file %s: create_unicode_map raised %r" % (data.hex(), e)
        # read the concrete segment values back from the file (layout of tt_font) and apply the OpenType rule
        n = len(shape) + 1
        base = 28 + 12 + 14
        u16 = lambda off: int.from_bytes(data[off:off + 2], "big")
        ends = [u16(base + 2 * i) for i in range(n)]
        starts = [u16(base + 2 * n + 2 + 2 * i) for i in range(n)]
        deltas = [u16(base + 4 * n + 2 + 2 * i) for i in range(n)]
        ro = base + 6 * n + 2
        offs = [u16(ro + 2 * i) for i in range(n)]
        for i in range(n - 1):
            for c in range(starts[i], ends[i] + 1):
                if offs[i] == 0:
                    g = (c + deltas[i]) % 65536
                else:
                    v = u16(ro + 2 * i + offs[i] + 2 * (c - starts[i]))
                    if v == 0:
                        continue                    # missing glyph: nothing to look up
                    g = (v + deltas[i]) % 65536
                try:
                    ch = um.get_unichr(g)
                except KeyError:
                    ch = None
                others = [c2 for j in range(n - 1) for c2 in range(starts[j], ends[j] + 1) if c2 != c]
                if ch != chr(c) and not (ch is not None and len(ch) == 1 and ord(ch) in others):       # another character may legitimately share the glyph (last one wins)
                    return "TrueType cmap (format 4, segments %r, deltas %r, idRangeOffsets %r, file %s): character %#x has glyph %d by the OpenType rule, the unicode map gives %r for that glyph" % (
                        list(zip(starts, ends))[:-1], deltas[:-1], offs[:-1], data.hex(), c, g, ch)
        return None
    if harness == "H6_advance":
        import pdfminer.pdffont as pf
        from pdfminer.psparser import LIT
        from lib.core import fl
        g = lambda x: [g(y) for y in x] if isinstance(x, list) else fl(x)
        sp = {k: g(v) for k, v in inp["spec"].items()}
        spec = dict(sp, Encoding=LIT("Identity-V" if inp["vertical"] else "Identity-H"), FontDescriptor={})
        font = pf.PDFCIDFont(None, spec, strict=False)
        near = lambda a, b: abs(a - b) <= 1e-9 * max(1.0, abs(a), abs(b))
        ew, ed = {}, {}
        if not inp["vertical"]:
            W = sp["W"]
            dw, dd = sp.get("DW", 1000), 0
            ew[W[0]], ew[W[0] + 1] = W[1][0], W[1][1]
            for c in range(W[2], W[3] + 1):
                ew[c] = W[4]
        else:
            W = sp["W2"]
            dvy, dw = sp.get("DW2", [880, -1000])
            dd = (None, dvy)
            ew[W[0]], ed[W[0]] = W[1][0], (W[1][1], W[1][2])
            for c in range(W[2], W[3] + 1):
                ew[c], ed[c] = W[4], (W[5], W[6])
        for cid in range(8):
            gw, xw = font.char_width(cid), ew.get(cid, dw) * 0.001
            if not near(gw, xw):
                return "font %r: char_width(%d) = %r, the arrays assign %r" % (sp, cid, gw, xw)
            gd, xd = font.char_disp(cid), ed.get(cid, dd)
            if isinstance(xd, tuple):
                if not (isinstance(gd, tuple) and (gd[0] is None) == (xd[0] is None) and (gd[0] is None or near(gd[0], xd[0])) and near(gd[1], xd[1])):
                    return "font %r: char_disp(%d) = %r, the arrays assign %r" % (sp, cid, gd, xd)
            elif gd != xd:
                return "font %r: char_disp(%d) = %r, expected %r" % (sp, cid, gd, xd)
        return None
    if harness == "H4_widths":
        import pdfminer.pdffont as pf
        from lib.core import fl
        seq = [[fl(y) for y in x] if isinstance(x, list) else fl(x) for x in inp["seq"]]
        got = pf.get_widths(seq) if inp["which"] == 1 else pf.get_widths2(seq)
        exp = {}
        i = 0
        if inp["which"] == 1:
            while i < len(seq):
                if isinstance(seq[i + 1], list):
                    for k, w in enumerate(seq[i + 1]):
                        exp[seq[i] + k] = w
                    i += 2
                else:
                    for c in range(seq[i], seq[i + 1] + 1):
                        exp[c] = seq[i + 2]
                    i += 3
        else:
            while i < len(seq):
                if isinstance(seq[i + 1], list):
                    v = seq[i + 1]
                    exp[seq[i]] = (v[0], (v[1], v[2]))
                    i += 2
                else:
                    for c in range(seq[i], seq[i + 1] + 1):
                        exp[c] = (seq[i + 2], (seq[i + 3], seq[i + 4]))
                    i += 5
        return None if got == exp else "get_widths%s(%r) = %r, expected %r" % ("2" if inp["which"] == 2 else "", seq, got, exp)
    raise KeyError(harness)


def jobs(tier):
    J = [Job("H1_identity", "h1_identity", {}, 100), Job("H3_unichr", "h3_unichr", {}, 60), Job("H5_mapcache", "h5_mapcache", {}, 100)]
    for k in range(8):
        J.append(Job("H2_trie:%d" % k, "h2_trie", {"maxlen": 4 if tier == "quick" else 5, "part": [k, 8, 11]}, 300 if tier == "quick" else 1800, "H2_trie"))
    for kind in ("bfchar", "bfrange", "array"):
        J.append(Job("H3_tounicode:%s" % kind, "h3_tounicode", {"kind": kind}, 300, "H3_tounicode"))
    for which in (1, 2):
        J.append(Job("H4_widths:%d" % which, "h4_widths", {"which": which}, 300, "H4_widths"))
    for v in (0, 1):
        J.append(Job("H6_advance:%s" % "HV"[v], "h6_advance", {"vertical": v}, 300, "H6_advance"))
    J.append(Job("H7_ttcmap", "h7_ttcmap", {}, 300))
    J.append(Job("H8_getfont", "h8_getfont", {}, 200))
    return J
