"""C15 - filesystem confinement: documents cannot steer file access outside the allowed directories.

Engine E1 (CrossHair, symbolic `str`): see harness/ch_C15.py for the contracts.
H1 CMapDB._load_data(name): every path probed or opened lies directly inside one of the two character-map directories.
H2 ImageWriter._create_unique_image_name: the created path lies directly inside the output directory, was reported non-existing, and is the
   only candidate not reported as existing (so two exports never get the same path).
"""
import importlib

from engine import chrun
from lib import core
from lib.core import Job

ASSUMPTIONS = [
    "names of at most 5 characters (any Unicode code points, incl. '/', '.', NUL, backslash)",
    "the filesystem is a stub namespace (posixpath semantics); exists() answers are symbolic booleans / a symbolic count of taken names",
    "the three document-controlled routes to a CMap file (Encoding name, usecmap operand, Registry-Ordering) all end in CMapDB._load_data",
]
OUTSIDE = ["names longer than 5 characters other than the long image names of H2_imagename:long", "other effects of image export (PIL)", "open_filename (caller-supplied paths)", "non-POSIX path semantics"]


def h_contract(func="cmap_confined", timeout=60, **kw):
    mod = importlib.import_module("harness.ch_C15")
    import pdfminer.cmapdb as cm
    import pdfminer.image as im
    fns = {"cmap_confined": [cm.CMapDB._load_data], "image_name_confined": [im.ImageWriter._create_unique_image_name]}[func]
    return chrun.run({"cmap_confined": "H1_cmap", "image_name_confined": "H2_imagename"}[func], mod, func, timeout, fns,
                     {"name": "symbolic str, len <= 5", "per_condition_timeout": timeout}, ASSUMPTIONS)


def h_alpha(func="cmap_confined", maxlen=4, timeout=200, part=None, alpha=None, **kw):
    """the same contracts, decided exhaustively over an 8-letter alphabet by symbolic choice (symx): every name up to maxlen"""
    mod = importlib.import_module("harness.ch_C15")
    import pdfminer.cmapdb as cm
    import pdfminer.image as im
    f = getattr(mod, func)

    def fn(ex):
        n = ex.choice(maxlen + 1, "len")
        A = alpha or mod.ALPHA
        name = "".join(A[ex.choice(len(A), "c%d" % i)] for i in range(n))
        if func in ("cmap_confined", "cmap_confined_sibling"):
            args = (name, ex.choice(2, "e1") == 1, ex.choice(2, "e2") == 1)
        else:
            args = (name, ex.choice(3, "taken"), ex.choice(2, "ext"))
        try:
            ok = f(*args)
        except Exception as e:
            ex.require(False, "%s%r raised %s: %s" % (func, args, type(e).__name__, e), function=func, args=list(args))
        ex.require(ok, "%s%r: a path outside the allowed directory is probed/opened/created, or an existing file is reused" % (func, args), function=func, args=list(args))

    def conc(m, info):
        return {"function": info["function"], "args": info["args"], "kwargs": {}}
    fns = {"cmap_confined": [cm.CMapDB._load_data], "cmap_confined_sibling": [cm.CMapDB._load_data], "image_name_confined": [im.ImageWriter._create_unique_image_name]}[func]
    return core.run_symx({"cmap_confined": "H1_cmap", "cmap_confined_sibling": "H1_cmap", "image_name_confined": "H2_imagename"}[func], fn, fns,
                         {"name": "every string of length <= %d over the alphabet %r" % (maxlen, alpha or mod.ALPHA), "exists": "symbolic answers",
                          "CMAP_PATH": "/e/a/ (sibling directories spelled by the alphabet)" if func == "cmap_confined_sibling" else "default"}, timeout, concretize=conc, part=part)


LONG_LENS = [200, 240, 246, 247, 250, 251, 252, 254, 255, 256, 260, 300, 1000, 5000]
LONG_SHAPES = ["a*", "/a*", "a*/a*", "../a*", "a*/..", "a*.bmp", "\\a*"]


def _long_name(shape, n):
    if shape == "a*/a*":
        return "a" * (n // 2) + "/" + "a" * (n - n // 2 - 1)
    fixed = shape.replace("a*", "")
    return shape.replace("a*", "a" * max(0, n - len(fixed)))


def h_long(timeout=200, part=None, **kw):
    """image names far beyond the symbolic bound (up to 5000 characters, around the 255-character limit of file systems): the same contract as H2, on real calls selected by symbolic choices"""
    mod = importlib.import_module("harness.ch_C15")
    import pdfminer.image as im

    def fn(ex):
        name = _long_name(LONG_SHAPES[ex.choice(len(LONG_SHAPES), "shape")], LONG_LENS[ex.choice(len(LONG_LENS), "len")])
        args = (name, ex.choice(3, "taken"), ex.choice(2, "ext"))
        try:
            ok = mod.image_name_confined(*args)
        except Exception as e:
            ex.require(False, "image_name_confined(<%d characters>, %r, %r) raised %s: %s" % (len(name), args[1], args[2], type(e).__name__, e), function="image_name_confined", args=list(args))
        ex.require(ok, "image name of %d characters (%s...), first %d candidates taken: a path outside the output directory is created, or a path that was not reported free" % (len(name), name[:12], args[1]),
                   function="image_name_confined", args=list(args))

    def conc(m, info):
        return {"function": info["function"], "args": info["args"], "kwargs": {}}
    return core.run_symx("H2_imagename", fn, [im.ImageWriter._create_unique_image_name], {"name": "shapes %r with lengths %r" % (LONG_SHAPES, LONG_LENS), "exists": "the first 0..2 candidates exist"},
                         timeout, concretize=conc, part=part)


def replay(harness, inp):
    mod = importlib.import_module("harness.ch_C15")
    f = getattr(mod, inp["function"])
    ok = f(*inp["args"], **inp["kwargs"])
    if ok:
        return None
    if harness == "H1_cmap":
        return "CMapDB._load_data(%r) probes or opens a path outside the character-map directories" % (inp["args"][0],)
    return "ImageWriter._create_unique_image_name for image name %r (first %r candidates taken): path outside the output directory or an existing file reused" % (
        inp["args"][0], inp["args"][1] if len(inp["args"]) > 1 else inp["kwargs"].get("taken"))


def jobs(tier):
    t = 45 if tier == "quick" else 900
    J = [Job("H1_cmap:crosshair", "h_contract", {"func": "cmap_confined"}, t, "H1_cmap"), Job("H2_imagename:crosshair", "h_contract", {"func": "image_name_confined"}, t, "H2_imagename")]
    ml = 4 if tier == "quick" else 5
    for k in range(4):
        J.append(Job("H1_cmap:alphabet:%d" % k, "h_alpha", {"func": "cmap_confined", "maxlen": ml, "part": [k, 4, 7]}, 300 if tier == "quick" else 1800, "H1_cmap"))
        J.append(Job("H2_imagename:alphabet:%d" % k, "h_alpha", {"func": "image_name_confined", "maxlen": ml, "part": [k, 4, 7]}, 300 if tier == "quick" else 1800, "H2_imagename"))
    J.append(Job("H2_imagename:long", "h_long", {}, 300, "H2_imagename"))
    J.append(Job("H1_cmap:sibling", "h_alpha", {"func": "cmap_confined_sibling", "maxlen": 7 if tier == "quick" else 9, "alpha": "./a"}, 300 if tier == "quick" else 1800, "H1_cmap"))
    return J
