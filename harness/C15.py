"""C15 - filesystem confinement: documents cannot steer file access outside the allowed directories.

Engine E1 (CrossHair, symbolic `str`): see harness/ch_C15.py for the contracts.
H1 CMapDB._load_data(name): every path probed or opened lies directly inside one of the two character-map directories.
H2 ImageWriter._create_unique_image_name: the created path lies directly inside the output directory, was reported non-existing, and is the
   only candidate not reported as existing (so two exports never get the same path).
"""
import importlib

from engine import chrun
from lib import core
from lib.core import Job

ASSUMPTIONS = [
    "names of at most 5 characters (any Unicode code points, incl. '/', '.', NUL, backslash)",
    "the filesystem is a stub namespace (posixpath semantics); exists() answers are symbolic booleans / a symbolic count of taken names",
    "the three document-controlled routes to a CMap file (Encoding name, usecmap operand, Registry-Ordering) all end in CMapDB._load_data",
]
OUTSIDE = ["names longer than 5 characters other than the long image names of H2_imagename:long", "other effects of image export (PIL)", "open_filename (caller-supplied paths)", "non-POSIX path semantics"]


def h_contract(func="cmap_confined", timeout=60, **kw):
    mod = importlib.import_module("harness.ch_C15")
    import pdfminer.cmapdb as cm
    import pdfminer.image as im
    fns = {"cmap_confined": [cm.CMapDB._load_data], "image_name_confined": [im.ImageWriter._create_unique_image_name]}[func]
    return chrun.run({"cmap_confined": "H1_cmap", "image_name_confined": "H2_imagename"}[func], mod, func, timeout, fns,
                     {"name": "symbolic str, len <= 5", "per_condition_timeout": timeout}, ASSUMPTIONS)


def h_alpha(func="cmap_confined", maxlen=4, timeout=200, part=None, alpha=None, **kw):
    """the same contracts, decided exhaustively over an 8-letter alphabet by symbolic choice (symx): every name up to maxlen"""
    mod = importlib.import_module("harness.ch_C15")
    import pdfminer.cmapdb as cm
    import pdfminer.image as im
    f = getattr(mod, func)

    def fn(ex):
        n = ex.choice(maxlen + 1, "len")
        A = alpha or mod.ALPHA
        name = "".join(A[ex.choice(len(A), "c%d" % i)] for i in range(n))
        if func in ("cmap_confined", "cmap_confined_sibling", "cmap_confined_unset"):
            args = (name, ex.choice(2, "e1") == 1, ex.choice(2, "e2") == 1)
        else:
            args = (name, ex.choice(3, "taken"), ex.choice(2, "ext"))
        try:
            ok = f(*args)
        except Exception as e:
            ex.require(False, "%s%r raised %s: %s" % (func, args, type(e).__name__, e), function=func, args=list(args))
        ex.require(ok, "%s%r: a path outside the allowed directory is probed/opened/created, or an existing file is reused" % (func, args), function=func, args=list(args))

    def conc(m, info):
        return {"function": info["function"], "args": info["args"], "kwargs": {}}
    fns = {"cmap_confined": [cm.CMapDB._load_data], "cmap_confined_sibling": [cm.CMapDB._load_data], "cmap_confined_unset": [cm.CMapDB._load_data], "image_name_confined": [im.ImageWriter._create_unique_image_name]}[func]
    return core.run_symx({"cmap_confined": "H1_cmap", "cmap_confined_sibling": "H1_cmap", "cmap_confined_unset": "H1_cmap", "image_name_confined": "H2_imagename"}[func], fn, fns,
                         {"name": "every string of length <= %d over the alphabet %r" % (maxlen, alpha or mod.ALPHA), "exists": "symbolic answers",
                          "CMAP_PATH": "/e/a/ (sibling directories spelled by the alphabet)" if func == "cmap_confined_sibling" else ("not set" if func == "cmap_confined_unset" else "default")}, timeout, concretize=conc, part=part)


LONG_LENS = [200, 240, 246, 247, 250, 251, 252, 254, 255, 256, 260, 300, 1000, 5000]
LONG_SHAPES = ["a*", "/a*", "a*/a*", "../a*", "a*/..", "a*.bmp", "\\a*"]


def _long_name(shape, n):
    if shape == "a*/a*":
        return "a" * (n // 2) + "/" + "a" * (n - n // 2 - 1)
    fixed = shape.replace("a*", "")
    return shape.replace("a*", "a" * max(0, n - len(fixed)))


def h_long(timeout=200, part=None, **kw):
    """image names far beyond the symbolic bound (up to 5000 characters, around the 255-character limit of file systems): the same contract as H2, on real calls selected by symbolic choices"""
    mod = importlib.import_module("harness.ch_C15")
    import pdfminer.image as im

    def fn(ex):
        name = _long_name(LONG_SHAPES[ex.choice(len(LONG_SHAPES), "shape")], LONG_LENS[ex.choice(len(LONG_LENS), "len")])
        args = (name, ex.choice(3, "taken"), ex.choice(2, "ext"))
        try:
            ok = mod.image_name_confined(*args)
        except Exception as e:
            ex.require(False, "image_name_confined(<%d characters>, %r, %r) raised %s: %s" % (len(name), args[1], args[2], type(e).__name__, e), function="image_name_confined", args=list(args))
        ex.require(ok, "image name of %d characters (%s...), first %d candidates taken: a path outside the output directory is created, or a path that was not reported free" % (len(name), name[:12], args[1]),
                   function="image_name_confined", args=list(args))

    def conc(m, info):
        return {"function": info["function"], "args": info["args"], "kwargs": {}}
    return core.run_symx("H2_imagename", fn, [im.ImageWriter._create_unique_image_name], {"name": "shapes %r with lengths %r" % (LONG_SHAPES, LONG_LENS), "exists": "the first 0..2 candidates exist"},
                         timeout, concretize=conc, part=part)


# ------------------------------------------------------------------------------------------ H3 end to end: file system effects and audit events of an export
E2E_NAMES = ["Im0", "../up", "/abs", "a/b", "..", "x\0y", "\\\\srv\\share", "C:\\x", "seed.txt", "L" * 300, "..\uff0fup", "\uff0e\uff0e\uff0fup", "a\uff3cb", "\u2024\u2024/up", "x\u2215y", "\ufe52\ufe52\uff0fseed.txt"]     # compatibility forms of / . \\ (what a Unicode normalisation would turn into separators)
E2E_KINDS = ["gray8", "rgb8", "bit1", "gray4", "cmyk8", "dct", "flate-gray8", "ahx-cmyk", "indexed", "inline"]
E2E_ENCODINGS = [None, "../../../secret", "/etc/passwd", "H\0x", "Identity-H/../x", "Report-H"]
_AUDIT = {"on": False, "events": []}


def _audit_hook(event, args):
    if _AUDIT["on"] and event in ("open", "os.mkdir", "os.remove", "os.rename", "os.rmdir", "os.symlink", "os.link", "os.truncate", "os.chmod", "shutil.copyfile", "shutil.move"):
        _AUDIT["events"].append((event, args))


def _pdf_name(s):
    raw = s.encode("latin-1") if all(ord(ch) < 256 for ch in s) else s.encode("utf-8")          # names are byte strings; text beyond Latin-1 is written as UTF-8 (how the library reads names)
    return b"/" + b"".join(bytes([c]) if 33 <= c <= 126 and c not in b"#/()<>[]{}%" else b"#%02x" % c for c in raw)


def _e2e_image(kind):
    from lib.pdfgen import Stream
    import zlib
    d = {"Type": "XObject", "Subtype": "Image", "Width": 2, "Height": 2, "BitsPerComponent": 8, "ColorSpace": "DeviceGray"}
    data = bytes([10, 20, 30, 40])
    if kind == "rgb8":
        d["ColorSpace"], data = "DeviceRGB", bytes(range(12))
    elif kind == "bit1":
        d["BitsPerComponent"], data = 1, b"\x80\x40"
    elif kind == "gray4":
        d["BitsPerComponent"], data = 4, b"\x12\x34"
    elif kind == "cmyk8":
        d["ColorSpace"], data = "DeviceCMYK", bytes(range(16))
    elif kind == "dct":
        d["Filter"], data = "DCTDecode", b"\xff\xd8not-a-real-jpeg\xff\xd9"
    elif kind == "flate-gray8":
        d["Filter"], data = "FlateDecode", zlib.compress(data)
    elif kind == "ahx-cmyk":
        d["ColorSpace"], d["Filter"], data = "DeviceCMYK", "ASCIIHexDecode", bytes(range(16)).hex().encode() + b">"
    elif kind == "indexed":
        from lib.pdfgen import Raw
        d["ColorSpace"], data = Raw(b"[/Indexed /DeviceRGB 1 <000000ffffff>]"), bytes([0, 1, 1, 0])
    return Stream(d, data)


def _e2e_doc(images, encoding):
    """one page showing a word in a Type0 font whose /Encoding is the given name (None: Identity-H) and painting the given images [(name, kind)]"""
    from lib.pdfgen import Ref, Raw, Stream, build
    objs = {1: {"Type": "Catalog", "Pages": Ref(2)}, 2: {"Type": "Pages", "Kids": [Ref(4)], "Count": 1}}
    enc = _pdf_name(encoding) if encoding is not None else b"/Identity-H"
    objs[3] = Raw(b"<< /Type /Font /Subtype /Type0 /BaseFont /F /Encoding " + enc + b" /DescendantFonts [6 0 R] >>")
    objs[6] = {"Type": "Font", "Subtype": "CIDFontType2", "BaseFont": "F", "CIDSystemInfo": {"Registry": b"Adobe", "Ordering": b"../../x", "Supplement": 0}, "DW": 500,
               "FontDescriptor": {"Type": "FontDescriptor", "FontName": "F", "Flags": 4, "FontBBox": [0, 0, 1000, 1000], "ItalicAngle": 0, "Ascent": 800, "Descent": -200, "CapHeight": 700, "StemV": 80}}
    content = b"BT /F1 10 Tf 10 100 Td <00410042> Tj ET "
    xo = b"<< "
    n = 10
    for i, (name, kind) in enumerate(images):
        if kind == "inline":
            content += b"q 10 0 0 10 %d 10 cm BI /W 2 /H 2 /BPC 8 /CS /G ID \x01\x02\x03\x04 EI Q " % (20 * i)
            continue
        objs[n] = _e2e_image(kind)
        xo += _pdf_name(name) + b" %d 0 R " % n
        content += b"q 10 0 0 10 %d 10 cm " % (20 * i) + _pdf_name(name) + b" Do Q "
        n += 1
    objs[4] = {"Type": "Page", "Parent": Ref(2), "MediaBox": [0, 0, 200, 200], "Contents": Ref(5), "Resources": {"Font": {"F1": Ref(3)}, "XObject": Raw(xo + b">>")}}
    objs[5] = Stream({}, content)
    return build(objs)


def _tree(root):
    import os, hashlib
    out = {}
    for r, ds, fs in os.walk(root):
        for f in fs:
            q = os.path.join(r, f)
            out[os.path.relpath(q, root)] = hashlib.sha1(open(q, "rb").read()).hexdigest()
        for d in ds:
            out[os.path.relpath(os.path.join(r, d), root) + "/"] = "dir"
    return out


def _e2e_check(sel):
    """real extract_text_to_fp with output_dir set, run with the working directory, the output directory and its parent all pre-seeded with files: afterwards nothing outside the output directory was
    created, changed or removed, nothing inside it was changed, and every open() seen by the interpreter's audit hook is a read of the library's own resources or a write inside the output directory"""
    import io, os, shutil, sys, tempfile
    import pdfminer
    from pdfminer.high_level import extract_text_to_fp
    images = [(E2E_NAMES[n], E2E_KINDS[k]) for n, k in sel["images"]]
    data = _e2e_doc(images, E2E_ENCODINGS[sel["encoding"]])
    base = tempfile.mkdtemp(prefix="verif-c15-")
    cwd0 = os.getcwd()
    if not _AUDIT.get("installed"):
        sys.addaudithook(_audit_hook)
        _AUDIT["installed"] = True
    try:
        parent = os.path.join(base, "parent")
        outdir = os.path.join(parent, "out")
        cwd = os.path.join(base, "cwd")
        os.makedirs(outdir)
        os.makedirs(cwd)
        seeds = ["Im0.bmp", "Im0.jpg", "Im0.8.2x2.img", "Im0.4.2x2.img", "up.bmp", "up.jpg", "abs.bmp", "b.bmp", "x.bmp", "seed.txt", "seed.txt.bmp", "image.bmp", "y.bmp", "xy.bmp", "share.bmp", "secret", "x", "Report-H.pickle.gz", "secret.pickle.gz", "to-unicode-Adobe-..", "to-unicode-Adobe-x.pickle.gz"]
        for d in (parent, outdir, cwd, base):
            for f in seeds:
                open(os.path.join(d, f), "wb").write(b"precious " + f.encode())
        before = _tree(base)
        os.chdir(cwd)
        _AUDIT["events"] = []
        _AUDIT["on"] = True
        err = None
        try:
            extract_text_to_fp(io.BytesIO(data), io.StringIO(), output_dir=outdir)
        except Exception as e:
            err = e
        finally:
            _AUDIT["on"] = False
            os.chdir(cwd0)
        after = _tree(base)
        desc = "document with images %r and font /Encoding %r, exported with output_dir=<parent>/out from another working directory" % (images, E2E_ENCODINGS[sel["encoding"]])
        rel_out = os.path.relpath(outdir, base)
        for k in sorted(set(before) | set(after)):
            inside = k.startswith(rel_out + os.sep)
            if k in before and before[k] != after.get(k):
                return "%s: the existing file %s was %s" % (desc, k, "removed" if k not in after else "overwritten")
            if k not in before and not inside:
                return "%s: %s was created outside the output directory" % (desc, k)
        allowed_read = [os.path.dirname(os.path.abspath(pdfminer.__file__)), sys.prefix, sys.base_prefix, "/usr/lib", "/usr/share/zoneinfo", "/venv", "/verif/.venv"]
        for ev, args in _AUDIT["events"]:
            if ev != "open":
                q = os.path.abspath(os.path.join(cwd, os.fsdecode(args[0]))) if args and isinstance(args[0], (str, bytes)) else None
                if ev == "os.mkdir" and q and (q == outdir or q.startswith(outdir + os.sep)):
                    continue
                return "%s: audit event %s%r" % (desc, ev, args[:2])
            path, mode = args[0], args[1]
            if not isinstance(path, (str, bytes)):
                continue                        # a file descriptor, not a name
            q = os.path.abspath(os.path.join(cwd, os.fsdecode(path)))
            writing = isinstance(mode, str) and any(c in mode for c in "wax+")
            if writing:
                if os.path.dirname(q) != outdir:
                    return "%s: %r opened for writing (mode %r): not a file directly inside the output directory" % (desc, path, mode)
            elif not any(q == a or q.startswith(a.rstrip(os.sep) + os.sep) for a in allowed_read) and not q.startswith(outdir + os.sep):
                return "%s: %r opened for reading: neither the library's resources nor the output directory" % (desc, path)
        if err is not None and not isinstance(err, (OSError, ImportError)):
            from pdfminer.pdfexceptions import PDFException
            from pdfminer.psexceptions import PSException
            if not isinstance(err, (PDFException, PSException)):
                return "%s: raised %r" % (desc, err)
        return None
    finally:
        os.chdir(cwd0)
        shutil.rmtree(base, ignore_errors=True)


def h3_export(nimg=2, timeout=300, part=None, names=None, **kw):
    import pdfminer.image as im
    import pdfminer.cmapdb as cm

    def fn(ex):
        nm = names or list(range(len(E2E_NAMES)))
        sel = {"encoding": ex.choice(len(E2E_ENCODINGS), "enc"),
               "images": [(nm[ex.choice(len(nm), "name%d" % i)], ex.choice(len(E2E_KINDS), "kind%d" % i)) for i in range(nimg)]}
        r = _e2e_check(sel)
        ex.require(r is None, r or "", function="e2e", args=[sel])

    def conc(m, info):
        return {"function": "e2e", "args": info["args"], "kwargs": {}}
    return core.run_symx("H3_export", fn, [im.ImageWriter.export_image, im.ImageWriter._create_unique_image_name, im.ImageWriter._save_raw, im.ImageWriter._save_bmp, im.ImageWriter._save_jpeg, cm.CMapDB._load_data],
                         {"document": "one page, %d images, names from %r, kinds %r, Type0 font /Encoding from %r" % (nimg, [E2E_NAMES[i][:12] for i in (names or range(len(E2E_NAMES)))], E2E_KINDS, E2E_ENCODINGS),
                          "file system": "real: working directory, output directory and its parent pre-seeded with files of the candidate names", "observed": "directory trees before/after, sys.addaudithook open/os.* events"},
                         timeout, concretize=conc, part=part)


def replay(harness, inp):
    if inp.get("function") == "e2e":
        return _e2e_check(inp["args"][0])
    mod = importlib.import_module("harness.ch_C15")
    f = getattr(mod, inp["function"])
    ok = f(*inp["args"], **inp["kwargs"])
    if ok:
        return None
    if harness == "H1_cmap":
        return "CMapDB._load_data(%r) probes or opens a path outside the character-map directories" % (inp["args"][0],)
    return "ImageWriter._create_unique_image_name for image name %r (first %r candidates taken): path outside the output directory or an existing file reused" % (
        inp["args"][0], inp["args"][1] if len(inp["args"]) > 1 else inp["kwargs"].get("taken"))


def jobs(tier):
    t = 45 if tier == "quick" else 900
    J = [Job("H1_cmap:crosshair", "h_contract", {"func": "cmap_confined"}, t, "H1_cmap"), Job("H2_imagename:crosshair", "h_contract", {"func": "image_name_confined"}, t, "H2_imagename")]
    ml = 4 if tier == "quick" else 5
    for k in range(4):
        J.append(Job("H1_cmap:alphabet:%d" % k, "h_alpha", {"func": "cmap_confined", "maxlen": ml, "part": [k, 4, 7]}, 300 if tier == "quick" else 1800, "H1_cmap"))
        J.append(Job("H2_imagename:alphabet:%d" % k, "h_alpha", {"func": "image_name_confined", "maxlen": ml, "part": [k, 4, 7]}, 300 if tier == "quick" else 1800, "H2_imagename"))
    J.append(Job("H2_imagename:long", "h_long", {}, 300, "H2_imagename"))
    for k in range(4):
        J.append(Job("H2_imagename:compat:%d" % k, "h_alpha", {"func": "image_name_confined", "maxlen": 4, "alpha": "/.a\uff0f\uff0e\u2024\uff3c", "part": [k, 4, 5]}, 300, "H2_imagename"))
    for k in range(4):
        J.append(Job("H3_export:%d" % k, "h3_export", {"nimg": 1 if tier == "quick" else 2, "part": [k, 4, 4]}, 300 if tier == "quick" else 1800, "H3_export"))
    J.append(Job("H1_cmap:unset", "h_alpha", {"func": "cmap_confined_unset", "maxlen": 3}, 300, "H1_cmap"))
    J.append(Job("H1_cmap:sibling", "h_alpha", {"func": "cmap_confined_sibling", "maxlen": 7 if tier == "quick" else 9, "alpha": "./a"}, 300 if tier == "quick" else 1800, "H1_cmap"))
    return J
