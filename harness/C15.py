"""C15 - filesystem confinement: documents cannot steer file access outside the allowed directories.

Engine E1 (CrossHair, symbolic `str`): see harness/ch_C15.py for the contracts.
H1 CMapDB._load_data(name): every path probed or opened lies directly inside one of the two character-map directories.
H2 ImageWriter._create_unique_image_name: the created path lies directly inside the output directory, was reported non-existing, and is the
   only candidate not reported as existing (so two exports never get the same path).
"""
import importlib

from engine import chrun
from lib import core
from lib.core import Job

ASSUMPTIONS = [
    "names of at most 5 characters (any Unicode code points, incl. '/', '.', NUL, backslash)",
    "the filesystem is a stub namespace (posixpath semantics); exists() answers are symbolic booleans / a symbolic count of taken names",
    "the three document-controlled routes to a CMap file (Encoding name, usecmap operand, Registry-Ordering) all end in CMapDB._load_data",
]
OUTSIDE = ["names longer than 5 characters", "other effects of image export (PIL)", "open_filename (caller-supplied paths)", "non-POSIX path semantics"]


def h_contract(func="cmap_confined", timeout=60, **kw):
    mod = importlib.import_module("harness.ch_C15")
    import pdfminer.cmapdb as cm
    import pdfminer.image as im
    fns = {"cmap_confined": [cm.CMapDB._load_data], "image_name_confined": [im.ImageWriter._create_unique_image_name]}[func]
    return chrun.run({"cmap_confined": "H1_cmap", "image_name_confined": "H2_imagename"}[func], mod, func, timeout, fns,
                     {"name": "symbolic str, len <= 5", "per_condition_timeout": timeout}, ASSUMPTIONS)


def h_alpha(func="cmap_confined", maxlen=4, timeout=200, part=None, alpha=None, **kw):
    """the same contracts, decided exhaustively over an 8-letter alphabet by symbolic choice (symx): every name up to maxlen"""
    mod = importlib.import_module("harness.ch_C15")
    import pdfminer.cmapdb as cm
    import pdfminer.image as im
    f = getattr(mod, func)

    def fn(ex):
        n = ex.choice(maxlen + 1, "len")
        A = alpha or mod.ALPHA
        name = "".join(A[ex.choice(len(A), "c%d" % i)] for i in range(n))
        if func in ("cmap_confined", "cmap_confined_sibling"):
            args = (name, ex.choice(2, "e1") == 1, ex.choice(2, "e2") == 1)
        else:
            args = (name, ex.choice(3, "taken"), ex.choice(2, "ext"))
        try:
            ok = f(*args)
        except Exception as e:
            ex.require(False, "%s%r raised %s: %s" % (func, args, type(e).__name__, e), function=func, args=list(args))
        ex.require(ok, "%s%r: a path outside the allowed directory is probed/opened/created, or an existing file is reused" % (func, args), function=func, args=list(args))

    def conc(m, info):
        return {"function": info["function"], "args": info["args"], "kwargs": {}}
    fns = {"cmap_confined": [cm.CMapDB._load_data], "cmap_confined_sibling": [cm.CMapDB._load_data], "image_name_confined": [im.ImageWriter._create_unique_image_name]}[func]
    return core.run_symx({"cmap_confined": "H1_cmap", "cmap_confined_sibling": "H1_cmap", "image_name_confined": "H2_imagename"}[func], fn, fns,
                         {"name": "every string of length <= %d over the alphabet %r" % (maxlen, alpha or mod.ALPHA), "exists": "symbolic answers",
                          "CMAP_PATH": "/e/a/ (sibling directories spelled by the alphabet)" if func == "cmap_confined_sibling" else "default"}, timeout, concretize=conc, part=part)


def replay(harness, inp):
    mod = importlib.import_module("harness.ch_C15")
    f = getattr(mod, inp["function"])
    ok = f(*inp["args"], **inp["kwargs"])
    if ok:
        return None
    if harness == "H1_cmap":
        return "CMapDB._load_data(%r) probes or opens a path outside the character-map directories" % (inp["args"][0],)
    return "ImageWriter._create_unique_image_name for image name %r (first %r candidates taken): path outside the output directory or an existing file reused" % (
        inp["args"][0], inp["args"][1] if len(inp["args"]) > 1 else inp["kwargs"].get("taken"))


def jobs(tier):
    t = 45 if tier == "quick" else 900
    J = [Job("H1_cmap:crosshair", "h_contract", {"func": "cmap_confined"}, t, "H1_cmap"), Job("H2_imagename:crosshair", "h_contract", {"func": "image_name_confined"}, t, "H2_imagename")]
    ml = 4 if tier == "quick" else 5
    for k in range(4):
        J.append(Job("H1_cmap:alphabet:%d" % k, "h_alpha", {"func": "cmap_confined", "maxlen": ml, "part": [k, 4, 7]}, 300 if tier == "quick" else 1800, "H1_cmap"))
        J.append(Job("H2_imagename:alphabet:%d" % k, "h_alpha", {"func": "image_name_confined", "maxlen": ml, "part": [k, 4, 7]}, 300 if tier == "quick" else 1800, "H2_imagename"))
    J.append(Job("H1_cmap:sibling", "h_alpha", {"func": "cmap_confined_sibling", "maxlen": 7 if tier == "quick" else 9, "alpha": "./a"}, 300 if tier == "quick" else 1800, "H1_cmap"))
    return J
