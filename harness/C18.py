"""C18 - images: exported files and inline image data reproduce the samples exactly.

H1 BMP export: real ImageWriter.export_image/_save_bmp/BMPWriter with ALL sample bytes symbolic (geometry concrete per job); a reference BMP
   *reader* decodes the recorded file and must give back the stored samples.
H2 format choice of export_image for symbolically chosen filter lists / colour spaces / bit depths: no exception, JPEG data written unchanged.
H4 inline images: real PDFContentParser on  BI ... ID <N symbolic bytes> EOL EI <operators>  -> data captured completely, following operators intact.
(H3 distinct file names: see C15.H2)
"""
import struct

import z3

from engine import symx, sbytes
from engine.symx import SB, SI
from engine.sbytes import SBy
from lib import core
from lib.core import Job

ASSUMPTIONS = [
    "BMP: 1-bit, 8-bit gray and 24-bit RGB images stored without filter; the geometry is concrete per job, the samples are symbolic",
    "inline image data does not contain the end marker ('EI' followed by PDF white space or VT) and does not end in CR (the format is ambiguous there); a line feed precedes EI",
    "PIL is not installed: JPEG CMYK conversion, JPEG 2000 and flate-only images (which need PIL) are outside the claim",
]
OUTSIDE = ["pixel fidelity of DCT / JPX data", "JBIG2", "images wider than 9 or higher than 3 with symbolic samples"]


class RecFile:
    """recording file: sparse map position -> byte (int or z3 term)"""

    def __init__(self):
        self.cells = {}
        self.pos = 0
        self.closed = False

    def write(self, data):
        els = data.els if isinstance(data, SBy) else list(data)
        for i, e in enumerate(els):
            self.cells[self.pos + i] = e
        self.pos += len(els)
        return len(els)

    def seek(self, pos, whence=0):
        self.pos = pos if whence == 0 else self.pos + pos
        return self.pos

    def tell(self):
        return self.pos

    def close(self):
        self.closed = True

    def __enter__(self):
        return self

    def __exit__(self, *a):
        self.close()

    def content(self):
        n = max(self.cells) + 1 if self.cells else 0
        return [self.cells.get(i, 0) for i in range(n)]      # holes read as zero bytes, as in a real file


def read_bmp(cells):
    """reference BMP reader (BITMAPINFOHEADER, uncompressed): returns (width, height, bits, rows top-down of per-pixel tuples / values)"""
    head = bytes(cells[:54]) if all(isinstance(c, int) for c in cells[:54]) else None
    if head is None or head[:2] != b"BM":
        raise ValueError("not a BMP header")
    fsize, _, _, offbits = struct.unpack("<IHHI", head[2:14])
    (hsize, w, h, planes, bits, comp, imgsize, _, _, ncols, _) = struct.unpack("<IiiHHIIIIII", head[14:54])
    if hsize != 40 or planes != 1 or comp != 0:
        raise ValueError("unsupported BMP")
    if fsize != len(cells):
        raise ValueError("file length %d differs from the length %d in the header" % (len(cells), fsize))
    pal = []
    ncol = {1: 2, 8: 256, 24: 0}[bits]
    for i in range(ncol):
        b, g, r, _ = cells[54 + 4 * i:58 + 4 * i]
        pal.append((r, g, b))
    if offbits != 54 + 4 * ncol:
        raise ValueError("bfOffBits")
    stride = ((w * bits + 31) // 32) * 4
    if len(cells) < offbits + stride * h:
        raise ValueError("pixel data truncated")
    rows = []
    for y in range(h):                       # stored bottom-up
        base = offbits + (h - 1 - y) * stride
        row = []
        for x in range(w):
            if bits == 24:
                b, g, r = cells[base + 3 * x: base + 3 * x + 3]
                row.append((r, g, b))
            elif bits == 8:
                row.append(("pal", cells[base + x]))
            else:
                row.append(("bit", cells[base + x // 8], 7 - x % 8))
        rows.append(row)
    return w, h, bits, rows, pal


def _mkimage(name, attrs, data, filters=()):
    from pdfminer.layout import LTImage
    from pdfminer.pdftypes import PDFStream

    class S(PDFStream):
        def get_data(self):
            return data

        def get_filters(self):
            return list(filters)
    st = S(attrs, b"")
    return LTImage(name, st, (0, 0, 1, 1))


def h1_bmp(w=2, h=2, bits=24, timeout=100, **kw):
    import pdfminer.image as im
    from pdfminer.psparser import LIT
    patched = sbytes.patch_module_in(im)
    files = {}

    def fake_open(path, mode="r", *a, **k):
        f = RecFile()
        files[path] = f
        return f
    im.open = fake_open

    def fn(ex):
        files.clear()
        bpl = {24: 3 * w, 8: w, 1: (w + 7) // 8}[bits]
        data = sbytes.sym_bytes(ex, "s", bpl * h)
        cs = LIT("DeviceRGB") if bits == 24 else LIT("DeviceGray")
        img = _mkimage("Im0", {"Width": w, "Height": h, "BitsPerComponent": 8 if bits == 24 else bits, "ColorSpace": cs}, data)
        wr = im.ImageWriter.__new__(im.ImageWriter)
        wr.outdir = "/nonexistent-verif-outdir"
        info = {"w": w, "h": h, "bits": bits, "data": data}
        try:
            name = wr.export_image(img)
        except symx.Violation:
            raise
        except Exception as e:
            ex.require(False, "export_image raised %s: %s" % (type(e).__name__, e), **info)
        ex.require(len(files) == 1 and name.endswith(".bmp"), "expected one .bmp file, got %r" % list(files), **info)
        cells = list(files.values())[0].content()
        try:
            W, H, B, rows, pal = read_bmp(cells)
        except ValueError as e:
            ex.require(False, "the exported file is not a valid BMP: %s" % e, **info)
        ex.require((W, H, B) == (w, h, bits), "BMP header says %dx%d %d bits" % (W, H, B), **info)
        conds = []
        for y in range(h):
            for x in range(w):
                px = rows[y][x]
                if bits == 24:
                    for k in range(3):
                        conds.append(_eq(px[k], data.els[y * bpl + 3 * x + k]))
                elif bits == 8:
                    # palette must map index v to gray v
                    v = data.els[y * bpl + x]
                    conds.append(_eq(px[1], v))
                else:
                    byte = data.els[y * bpl + x // 8]
                    conds.append(_eq(px[1], byte))
        if bits == 8:
            ex.require(all(pal[i] == (i, i, i) for i in range(256)), "8-bit palette is not the gray ramp", **info)
        if bits == 1:
            ex.require(pal == [(0, 0, 0), (255, 255, 255)], "1-bit palette is not black, white", **info)
        ex.require(SB(z3.And(conds)), "pixels decoded from the BMP differ from the stored samples", **info)

    def conc(m, info):
        return {"w": info["w"], "h": info["h"], "bits": info["bits"], "data": sbytes.model_bytes(m, info["data"])}
    return core.run_symx("H1_bmp", fn, [im.ImageWriter.export_image, im.ImageWriter._save_bmp, im.BMPWriter.__init__, im.BMPWriter.write_line],
                         {"width": w, "height": h, "bits": bits, "samples": "all symbolic"}, timeout, concretize=conc,
                         shims={"image_rewritten": patched, "stubs": ["image.open -> recording file"]})


def _eq(a, b):
    a = a if isinstance(a, z3.ExprRef) else z3.IntVal(a)
    b = b if isinstance(b, z3.ExprRef) else z3.IntVal(b)
    return a == b


FILTERSETS = [[], ["DCTDecode"], ["FlateDecode", "DCTDecode"], ["JPXDecode"], ["FlateDecode"], ["LZWDecode"], ["RunLengthDecode", "FlateDecode"], ["CCITTFaxDecode"], ["JBIG2Decode"]]
SPACES = ["DeviceGray", "DeviceRGB", "DeviceCMYK", "G", "RGB", "Indexed", None]


def h2_format(timeout=100, **kw):
    import pdfminer.image as im
    from pdfminer.psparser import LIT
    files = {}

    def fake_open(path, mode="r", *a, **k):
        f = RecFile()
        files[path] = f
        return f
    im.open = fake_open

    def fn(ex):
        files.clear()
        fs = FILTERSETS[ex.choice(len(FILTERSETS), "filters")]
        cs = SPACES[ex.choice(len(SPACES), "cs")]
        bits = [1, 8, 4, 16][ex.choice(4, "bits")]
        data = bytes(range(1, 25))
        attrs = {"Width": 2, "Height": 2, "BitsPerComponent": bits}
        if cs is not None:
            attrs["ColorSpace"] = LIT(cs) if cs != "Indexed" else [LIT("Indexed"), LIT("DeviceRGB"), 1, b"\0\0\0\xff\xff\xff"]
        img = _mkimage("Im0", attrs, data, [(LIT(f), None) for f in fs])
        wr = im.ImageWriter.__new__(im.ImageWriter)
        wr.outdir = "/nonexistent-verif-outdir"
        info = {"filters": fs, "cs": cs, "bits": bits}
        needs_pil = (fs and fs[-1] == "JPXDecode") or (fs and fs[-1] == "DCTDecode" and cs == "DeviceCMYK") or (fs == ["FlateDecode"] and not (bits == 1 or (bits == 8 and cs in ("DeviceGray", "DeviceRGB", "G", "RGB"))))
        try:
            name = wr.export_image(img)
        except symx.Violation:
            raise
        except ImportError:
            ex.require(needs_pil, "export_image wants PIL for filters %r" % fs, **info)
            return
        except Exception as e:
            if "JBIG2Decode" in fs:
                return                              # JBIG2 segment parsing of arbitrary data: outside the claim
            ex.require(False, "export_image raised %s: %s" % (type(e).__name__, e), **info)
        ex.require(len(files) == 1, "expected one file", **info)
        if fs and fs[-1] == "DCTDecode":
            ex.require(bytes(list(files.values())[0].content()) == data and name.endswith(".jpg"), "JPEG data was not written unchanged", **info)

    def conc(m, info):
        return info
    return core.run_symx("H2_format", fn, [im.ImageWriter.export_image, im.ImageWriter._save_jpeg, im.ImageWriter._save_raw, im.ImageWriter._is_jbig2_iamge],
                         {"filters": FILTERSETS, "colour_spaces": SPACES, "bits": [1, 8, 4, 16], "note": "structure by symbolic choice"}, timeout, concretize=conc)


# ------------------------------------------------------------------------------------------------ H4 inline images
def _setup_inline():
    from harness import pscommon as pc
    shims = pc.setup()
    import re
    import pdfminer.pdfinterp as pi

    class ReShim:
        def sub(self, pat, repl, s, *a, **k):
            if isinstance(s, SBy):
                return sbytes.SymRegex(re.compile(pat)).sub(repl, s)
            return re.sub(pat, repl, s, *a, **k)

        def __getattr__(self, n):
            return getattr(re, n)
    if not isinstance(pi.re, ReShim):
        pi.re = ReShim()
    pi.bytes = sbytes.BytesT
    _BytesIO = getattr(pi, "_real_BytesIO", pi.BytesIO)
    pi._real_BytesIO = _BytesIO
    pi.BytesIO = lambda d=b"": sbytes.SymFile(d) if isinstance(d, SBy) else _BytesIO(d)
    pi.stream_value = lambda x: x
    return dict(shims, pdfinterp=["re.sub -> symbolic matcher", "bytes", "BytesIO", "stream_value (stub streams)"])


class Stm:
    def __init__(self, data):
        self.data = data

    def get_data(self):
        return self.data


# content streams placed before the one that holds the inline image (a page's /Contents may be an array): (streams, number of tokens they hold)
# filter entries of the inline image for which the data still ends at EI (ASCII85 is not the first filter)
INLINE_FILTERS = [b"", b"/F /AHx ", b"/F [/AHx /A85] ", b"/F [/Fl /AHx] ", b"/F [/LZW /A85 /AHx] "]
INLINE_PRE = [([], 0), ([b"q "], 1), ([b"0 " * 40], 40), ([b"q", b" Q "], 2), ([b"", b"1 2 3 "], 3)]


def h4_inline(n=2, timeout=150, part=None, **kw):
    shims = _setup_inline()
    import pdfminer.pdfinterp as pi
    import pdfminer.psparser as ps
    import pdfminer.pdftypes as pt

    def fn(ex):
        data = sbytes.sym_bytes(ex, "d", n)
        bs = data.els
        WSP = (0, 9, 10, 11, 12, 13, 32)      # PDF white space plus VT (many readers, pdfminer included, accept any ASCII white space after EI)
        # the data must not contain an end marker: 'EI' followed by white space (preceded by anything), and must not end in 'E'/CR
        for i in range(n - 1):
            nxt_ws = z3.Or([bs[i + 2] == w for w in WSP]) if i + 2 < n else z3.BoolVal(True)
            ex.s.add(z3.Not(z3.And(bs[i] == 69, bs[i + 1] == 73, nxt_ws)))
        if n:
            ex.s.add(bs[-1] != 69, bs[-1] != 13)
            if n >= 1:
                ex.s.add(z3.Not(z3.And(bs[-1] == 73, (bs[-2] == 69) if n >= 2 else z3.BoolVal(False))))
        eol = [b"\n", b"\r\n"][ex.choice(2, "eol")]
        if eol == b"\r\n" and n:
            pass
        filt = INLINE_FILTERS[ex.choice(len(INLINE_FILTERS), "filter")]
        content = SBy(list(b"BI /W 1 /H 1 /BPC 8 /CS /G " + filt + b"ID ")) + data + eol + b"EI\n 7 Tc (x) Tj"
        pre_i = ex.choice(len(INLINE_PRE), "pre")
        pre, npre = INLINE_PRE[pre_i]
        info = {"content": content, "data": data, "pre": pre_i}
        p = pi.PDFContentParser([Stm(x) for x in pre] + [Stm(content)])
        objs = []
        try:
            while True:
                objs.append(p.nextobject()[1])
        except ps.PSEOF:
            pass
        except symx.Violation:
            raise
        except Exception as e:
            ex.require(False, "PDFContentParser raised %s: %s" % (type(e).__name__, e), **info)
        ex.require(len(objs) == npre + 6, "expected %d tokens of the earlier streams, then image, EI, 7, Tc, (x), Tj - got %d objects" % (npre, len(objs)), **info)
        strm, ei, num, tc, s, tj = objs[npre:]
        ex.require(isinstance(strm, pt.PDFStream), "no inline image stream", **info)
        raw = SBy.of(strm.rawdata)
        ex.require(len(raw) == n, "captured %d bytes of inline data, %d were written" % (len(raw), n), **info)
        ex.require((raw == data) if n else True, "captured inline data differs from the bytes written", **info)
        ex.require(ei is pi.PDFContentParser.KEYWORD_EI and num == 7 and tc is ps.KWD(b"Tc") and bytes(SBy.of(s).els) == b"x" and tj is ps.KWD(b"Tj"),
                   "the operators after the inline image are not read as if the image were not there", **info)

    def conc(m, info):
        return {"content": sbytes.model_bytes(m, info["content"]), "data": sbytes.model_bytes(m, info["data"]), "pre": info["pre"]}
    return core.run_symx("H4_inline", fn, [pi.PDFContentParser.get_inline_data, pi.PDFContentParser.do_keyword],
                         {"data_bytes": n, "byte_values": "0..255 minus the end marker", "eol_before_EI": "LF / CRLF", "earlier content streams": [x for x, _ in INLINE_PRE], "filter entry": INLINE_FILTERS}, timeout, concretize=conc, shims=shims, part=part,
                         int_lo=-16, int_hi=1023)


# ------------------------------------------------------------------------------------------------ H5 long inline image data (end marker at and around the read-buffer boundaries)
INLINE_LONG_PATTERNS = [("zeros", b"\x00"), ("text", b"abcdefgh"), ("E", b"E"), ("EX", b"EX"), ("EIx", b"EIx"), ("E-newline", b"E\n"), ("I", b"I"), ("spaces", b" "), ("newline-E-I-x", b"\nEIx")]
INLINE_LONG_SIZES = list(range(4088, 4104)) + list(range(8184, 8200)) + [12288, 70000]


def inline_long_case(pi, size, eol):
    unit = INLINE_LONG_PATTERNS[pi][1]
    data = (unit * (size // len(unit) + 1))[:size]
    while data and (data[-1:] in (b"E", b"\r") or data[-2:] == b"EI"):          # the data must not end in the beginning of an end marker (same exclusion as H4)
        data = data[:-1] + b"x"
    content = b"BI /W 1 /H 1 /BPC 8 /CS /G ID " + data + eol + b"EI\n 7 Tc (x) Tj"
    return content, data


def inline_long_check(pi, size, eol):
    import pdfminer.pdfinterp as pi_
    import pdfminer.pdftypes as pt
    import pdfminer.psparser as ps
    content, data = inline_long_case(pi, size, eol)
    desc = "inline image with %d bytes of %r (%s before EI)" % (len(data), INLINE_LONG_PATTERNS[pi][0], "LF" if eol == b"\n" else "CR LF")
    p = pi_.PDFContentParser([pt.PDFStream({}, content)])
    objs = []
    try:
        while True:
            objs.append(p.nextobject()[1])
    except ps.PSEOF:
        pass
    except Exception as e:
        return "%s: the content parser raised %s: %s" % (desc, type(e).__name__, str(e)[:150])
    if not objs or not isinstance(objs[0], pt.PDFStream):
        return "%s: no inline image, %d objects" % (desc, len(objs))
    if objs[0].rawdata != data:
        got = objs[0].rawdata
        k = next((i for i in range(min(len(got), len(data))) if got[i] != data[i]), min(len(got), len(data)))
        return "%s: captured %d bytes, first difference at byte %d" % (desc, len(got), k)
    rest = objs[1:]
    ok = len(rest) == 5 and rest[0] is pi_.PDFContentParser.KEYWORD_EI and rest[1] == 7 and rest[2] is ps.KWD(b"Tc") and rest[3] == b"x" and rest[4] is ps.KWD(b"Tj")
    return None if ok else "%s: the operators after the image read as %r" % (desc, rest[:6])


def h5_inline_long(timeout=300, part=None, **kw):
    """inline image data of 4088 .. 70000 bytes in nine patterns (runs of E, I, EIx, E-newline ..): the end marker lands at and around every read-buffer boundary - concrete runs by symbolic choice"""
    import pdfminer.pdfinterp as pi_

    def fn(ex):
        pi = ex.choice(len(INLINE_LONG_PATTERNS), "pattern")
        si = ex.choice(len(INLINE_LONG_SIZES), "size")
        eol = [b"\n", b"\r\n"][ex.choice(2, "eol")]
        r = inline_long_check(pi, INLINE_LONG_SIZES[si], eol)
        ex.require(r is None, r or "", pi=pi, size=INLINE_LONG_SIZES[si], crlf=(eol != b"\n"))

    def conc(m, info):
        return {"long": True, "pi": info["pi"], "size": info["size"], "crlf": info["crlf"]}
    return core.run_symx("H4_inline", fn, [pi_.PDFContentParser.get_inline_data, pi_.PDFContentParser.fillbuf], {"patterns": [p[0] for p in INLINE_LONG_PATTERNS], "sizes": "4088..4103, 8184..8199, 12288, 70000", "eol": "LF / CR LF"},
                         timeout, concretize=conc, part=part)


# ------------------------------------------------------------------------------------------------ replay
# ------------------------------------------------------------------------------------------------ H6 several images exported into one directory
NAME_SET = ["Im0", "Im0.0", "x/Im0", "Im1"]
NAME_KINDS = ["bmp", "jpg"]


def _check_names(seq):
    """seq: [(name index, kind index)]; the images are exported one after the other by one ImageWriter into an empty directory (the real file system): as many files as images,
    every returned name distinct, and each file holds its own image's samples"""
    import os, shutil, tempfile
    import pdfminer.image as im
    from pdfminer.psparser import LIT
    d = tempfile.mkdtemp(prefix="verif-c18n-")
    try:
        wr = im.ImageWriter(os.path.join(d, "out"))
        names = []
        for i, (ni, ki) in enumerate(seq):
            v = 10 + 40 * i
            if NAME_KINDS[ki] == "bmp":
                img = _mkimage(NAME_SET[ni], {"Width": 1, "Height": 1, "BitsPerComponent": 8, "ColorSpace": LIT("DeviceGray")}, bytes([v]))
            else:
                # a real stream object; every other one stores its JPEG data behind a second filter (the file must hold the DECODED DCT data)
                from pdfminer.layout import LTImage
                from pdfminer.pdftypes import PDFStream
                jpeg = b"\xff\xd8jpeg-%d\xff\xd9" % v
                attrs = {"Width": 1, "Height": 1, "BitsPerComponent": 8, "ColorSpace": LIT("DeviceGray")}
                if i % 2:
                    st = PDFStream(dict(attrs, Filter=[LIT("ASCIIHexDecode"), LIT("DCTDecode")]), jpeg.hex().encode() + b">")
                else:
                    st = PDFStream(dict(attrs, Filter=LIT("DCTDecode")), jpeg)
                img = LTImage(NAME_SET[ni], st, (0, 0, 1, 1))
            names.append(wr.export_image(img))
        desc = "images named %r exported as %r into one directory" % ([NAME_SET[n] for n, _ in seq], [NAME_KINDS[k] for _, k in seq])
        if len(set(names)) != len(names):
            return "%s: the file names %r are not distinct" % (desc, names)
        found = sorted(os.path.relpath(os.path.join(r, f), os.path.join(d, "out")) for r, _, fs in os.walk(d) for f in fs)
        if len(found) != len(seq):
            return "%s: %d files exist for %d images: %r" % (desc, len(found), len(seq), found)
        for i, ((ni, ki), name) in enumerate(zip(seq, names)):
            v = 10 + 40 * i
            path = os.path.join(d, "out", name)
            if not os.path.isfile(path):
                return "%s: image %d was reported as %r, which does not exist" % (desc, i, name)
            data = open(path, "rb").read()
            if NAME_KINDS[ki] == "jpg":
                if data != b"\xff\xd8jpeg-%d\xff\xd9" % v:
                    return "%s: file %r of image %d does not hold its JPEG data byte for byte" % (desc, name, i)
            else:
                try:
                    W, H, B, rows, pal = read_bmp(list(data))
                except ValueError as e:
                    return "%s: file %r of image %d is not a valid BMP: %s" % (desc, name, i, e)
                if (W, H) != (1, 1) or pal[rows[0][0][1]] != (v, v, v):
                    return "%s: file %r of image %d reads as %r, the stored sample is %d" % (desc, name, i, pal[rows[0][0][1]], v)
        return None
    finally:
        shutil.rmtree(d, ignore_errors=True)


def h6_names(nmax=3, timeout=200, part=None, **kw):
    import pdfminer.image as im

    def fn(ex):
        n = 1 + ex.choice(nmax, "n")
        seq = [(ex.choice(len(NAME_SET), "name%d" % i), ex.choice(len(NAME_KINDS), "kind%d" % i)) for i in range(n)]
        try:
            r = _check_names(seq)
        except Exception as e:
            ex.require(False, "export_image raised %s: %s" % (type(e).__name__, e), seq=seq)
        ex.require(r is None, r or "", seq=seq)

    def conc(m, info):
        return info
    return core.run_symx("H6_names", fn, [im.ImageWriter.export_image, im.ImageWriter._create_unique_image_name, im.ImageWriter._save_bmp, im.ImageWriter._save_jpeg],
                         {"sequence": "every sequence of 1..%d images with names from %r, each a 1x1 gray BMP or a DCT image" % (nmax, NAME_SET), "file system": "real, a fresh temporary directory per sequence"},
                         timeout, concretize=conc, part=part)


# ------------------------------------------------------------------------------------------------ H7 image samples behind real lossless filter chains
CHAINS = ["none", "flate", "flate+png10", "flate+png12", "flate+png15", "flate+tiff", "lzw", "lzw+png10", "rl", "ahx", "a85", "a85+flate", "ahx+rl", "a85+flate+png15"]
CHAIN_GEOM = [(3, 2, "rgb"), (5, 3, "gray"), (9, 2, "bit"), (1, 1, "gray"), (52, 50, "gray"), (40, 30, "rgb")]      # the last two: noisy samples, so that an LZW table passes 2047 entries (12-bit codes) without a clear code


def _chain_stream(chain, w, h, kind):
    """a real PDFStream holding a w x h image (RGB / gray 8-bit / 1-bit) behind the named filter chain, encoded by the reference encoders of C03; returns (stream, stored samples)"""
    import zlib
    from pdfminer.pdftypes import PDFStream
    from pdfminer.psparser import LIT
    from harness import C03
    colors, bits = (3, 8) if kind == "rgb" else (1, 8 if kind == "gray" else 1)
    rowbytes = (w * colors * bits + 7) // 8
    samples = bytes((37 * i + 11) % 256 for i in range(rowbytes * h))
    if rowbytes * h > 1000:                 # poorly compressible: a linear congruential sequence
        x, out = 12345, bytearray()
        for _ in range(rowbytes * h):
            x = (x * 1103515245 + 12345) & 0x7FFFFFFF
            out.append((x >> 16) & 0xFF)
        samples = bytes(out)
    if kind == "bit":                       # unused low bits of the last byte of a row are zero
        pad = rowbytes * 8 - w
        samples = bytes((b & (0xFF << pad) & 0xFF) if (i % rowbytes) == rowbytes - 1 else b for i, b in enumerate(samples))
    NAMES = {"flate": "FlateDecode", "lzw": "LZWDecode", "rl": "RunLengthDecode", "ahx": "ASCIIHexDecode", "a85": "ASCII85Decode"}
    ENC = {"flate": lambda d: zlib.compress(d), "lzw": C03.ref_lzw, "rl": C03.ref_rl, "ahx": lambda d: d.hex().upper().encode() + b">", "a85": C03.ref_a85}
    steps = []                              # [(filter, predictor or None)] in decoding order
    for part in ([] if chain == "none" else chain.split("+")):
        if part.startswith("png") or part == "tiff":
            steps[-1] = (steps[-1][0], 2 if part == "tiff" else int(part[3:]))
        else:
            steps.append((part, None))
    data = samples
    for f, pred in reversed(steps):
        if pred == 2:
            if bits != 8:
                return None, None
            data = b"".join(bytes((row[j] - (row[j - colors] if j >= colors else 0)) % 256 for j in range(rowbytes)) for row in [data[i:i + rowbytes] for i in range(0, len(data), rowbytes)])
        elif pred:
            fts = {10: (0,), 12: (2,), 15: (0, 1, 2, 3, 4)}[pred]
            data = (C03.ref_png(data, colors, w, fts) if bits == 8 else C03.ref_png(data, 1, rowbytes, fts))[0]
        data = ENC[f](data)
    attrs = {"Type": LIT("XObject"), "Subtype": LIT("Image"), "Width": w, "Height": h, "BitsPerComponent": bits, "ColorSpace": LIT("DeviceRGB" if kind == "rgb" else "DeviceGray")}
    if steps:
        parms = [None if pred is None else {"Predictor": pred, "Colors": colors, "Columns": w, "BitsPerComponent": bits} for _, pred in steps]
        attrs["Filter"] = [LIT(NAMES[f]) for f, _ in steps] if len(steps) > 1 else LIT(NAMES[steps[0][0]])
        if any(q is not None for q in parms):
            attrs["DecodeParms"] = parms if len(steps) > 1 else parms[0]
    return PDFStream(attrs, data), samples


def _chain_check(sel):
    import os, shutil, tempfile
    import pdfminer.image as im
    from pdfminer.layout import LTImage
    chain, (w, h, kind) = CHAINS[sel["chain"]], CHAIN_GEOM[sel["geom"]]
    st, samples = _chain_stream(chain, w, h, kind)
    if st is None:
        return None
    desc = "%dx%d %s image stored through the filter chain %s" % (w, h, kind, chain)
    d = tempfile.mkdtemp(prefix="verif-c18c-")
    try:
        img = LTImage("Im0", st, (0, 0, w, h))
        got = img.stream.get_data()
        if got != samples:
            return "%s: LTImage.stream.get_data() gives %d bytes %r..., stored were %d bytes %r..." % (desc, len(got), got[:12], len(samples), samples[:12])
        name = im.ImageWriter(os.path.join(d, "out")).export_image(img)
        cells = list(open(os.path.join(d, "out", name), "rb").read())
        if not name.endswith(".bmp"):
            return "%s: exported as %r" % (desc, name)
        W, H, B, rows, pal = read_bmp(cells)
        rowbytes = len(samples) // h
        for y in range(h):
            for x in range(w):
                px = rows[y][x]
                if kind == "rgb":
                    ok = tuple(px) == tuple(samples[y * rowbytes + 3 * x: y * rowbytes + 3 * x + 3])
                elif kind == "gray":
                    ok = pal[px[1]] == (samples[y * rowbytes + x],) * 3
                else:
                    bit = (px[1] >> px[2]) & 1
                    ok = bit == (samples[y * rowbytes + x // 8] >> (7 - x % 8)) & 1
                if not ok:
                    return "%s: pixel (%d,%d) of the exported BMP reads %r, the stored sample differs" % (desc, x, y, px)
        return None
    except Exception as e:
        return "%s: raised %s: %s" % (desc, type(e).__name__, str(e)[:200])
    finally:
        shutil.rmtree(d, ignore_errors=True)


def h7_chains(timeout=200, part=None, **kw):
    import pdfminer.image as im
    import pdfminer.pdftypes as pt

    def fn(ex):
        sel = {"chain": ex.choice(len(CHAINS), "chain"), "geom": ex.choice(len(CHAIN_GEOM), "geom")}
        r = _chain_check(sel)
        ex.require(r is None, r or "", chainsel=sel)

    def conc(m, info):
        return {"chainsel": info["chainsel"]}
    return core.run_symx("H7_chains", fn, [pt.PDFStream.decode, im.ImageWriter.export_image, im.ImageWriter._save_bmp], {"chains": CHAINS, "geometries": CHAIN_GEOM, "encoders": "reference encoders of C03, zlib"},
                         timeout, concretize=conc, part=part)


def replay(harness, inp):
    if "chainsel" in inp:
        return _chain_check(inp["chainsel"])
    if harness == "H6_names":
        return _check_names([tuple(x) for x in inp["seq"]])
    import pdfminer.image as im
    from pdfminer.psparser import LIT
    if harness == "H1_bmp":
        import tempfile, os, shutil
        d = tempfile.mkdtemp(prefix="verif-c18-")
        try:
            w, h, bits, data = inp["w"], inp["h"], inp["bits"], inp["data"]
            cs = LIT("DeviceRGB") if bits == 24 else LIT("DeviceGray")
            img = _mkimage("Im0", {"Width": w, "Height": h, "BitsPerComponent": 8 if bits == 24 else bits, "ColorSpace": cs}, data)
            wr = im.ImageWriter(os.path.join(d, "out"))
            try:
                name = wr.export_image(img)
            except Exception as e:
                return "export_image of a %dx%d %d-bit image raised %r" % (w, h, bits, e)
            cells = list(open(os.path.join(d, "out", name), "rb").read())
            try:
                W, H, B, rows, pal = read_bmp(cells)
            except ValueError as e:
                return "exported %dx%d %d-bit image (samples %r): not a valid BMP: %s" % (w, h, bits, data, e)
            bpl = {24: 3 * w, 8: w, 1: (w + 7) // 8}[bits]
            for y in range(h):
                for x in range(w):
                    px = rows[y][x]
                    if bits == 24:
                        exp = tuple(data[y * bpl + 3 * x: y * bpl + 3 * x + 3])
                        if tuple(px) != exp:
                            return "exported %dx%d RGB image, samples %r: a BMP reader sees pixel (%d,%d) = %r, stored %r" % (w, h, data, x, y, px, exp)
                    elif bits == 8:
                        if pal[px[1]] != (data[y * bpl + x],) * 3:
                            return "exported gray image: pixel (%d,%d) reads %r, stored %r" % (x, y, pal[px[1]], data[y * bpl + x])
                    else:
                        got = (px[1] >> px[2]) & 1
                        exp = (data[y * bpl + x // 8] >> (7 - x % 8)) & 1
                        if pal[got] != ((0, 0, 0), (255, 255, 255))[exp]:
                            return "exported 1-bit image: pixel (%d,%d) reads %r" % (x, y, pal[got])
            return None
        finally:
            shutil.rmtree(d, ignore_errors=True)
    if harness == "H2_format":
        import tempfile, os, shutil
        d = tempfile.mkdtemp(prefix="verif-c18-")
        try:
            fs, cs, bits = inp["filters"], inp["cs"], inp["bits"]
            data = bytes(range(1, 25))
            attrs = {"Width": 2, "Height": 2, "BitsPerComponent": bits}
            if cs is not None:
                attrs["ColorSpace"] = LIT(cs) if cs != "Indexed" else [LIT("Indexed"), LIT("DeviceRGB"), 1, b"\0\0\0\xff\xff\xff"]
            img = _mkimage("Im0", attrs, data, [(LIT(f), None) for f in fs])
            try:
                name = im.ImageWriter(os.path.join(d, "o")).export_image(img)
            except ImportError:
                return None
            except Exception as e:
                return None if "JBIG2Decode" in fs else "export_image(filters=%r, ColorSpace=%r, bits=%d) raised %r" % (fs, cs, bits, e)
            if fs and fs[-1] == "DCTDecode" and open(os.path.join(d, "o", name), "rb").read() != data:
                return "JPEG data not written unchanged"
            return None
        finally:
            shutil.rmtree(d, ignore_errors=True)
    if harness == "H4_inline" and inp.get("long"):
        return inline_long_check(inp["pi"], inp["size"], b"\r\n" if inp["crlf"] else b"\n")
    if harness == "H4_inline":
        import pdfminer.pdfinterp as pi
        import pdfminer.pdftypes as pt
        import pdfminer.psparser as ps
        pre, npre = INLINE_PRE[inp.get("pre", 0)]
        p = pi.PDFContentParser([pt.PDFStream({}, x) for x in pre] + [pt.PDFStream({}, inp["content"])])
        objs = []
        try:
            while True:
                objs.append(p.nextobject()[1])
        except ps.PSEOF:
            pass
        except Exception as e:
            return "content stream %r raised %r" % (inp["content"], e)
        desc = inp["content"]
        if pre:
            desc = "%r preceded by streams %r" % (inp["content"], pre)
        objs = objs[npre:]
        inp = dict(inp, content=desc)
        if not objs or not isinstance(objs[0], pt.PDFStream):
            return "content stream %r: no inline image, objects %r" % (inp["content"], objs)
        if objs[0].rawdata != inp["data"]:
            return "content stream %r: inline image data captured as %r, written %r" % (inp["content"], objs[0].rawdata, inp["data"])
        rest = objs[1:]
        ok = len(rest) == 5 and rest[0] is pi.PDFContentParser.KEYWORD_EI and rest[1] == 7 and rest[2] is ps.KWD(b"Tc") and rest[3] == b"x" and rest[4] is ps.KWD(b"Tj")
        return None if ok else "content stream %r: operators after the inline image read as %r" % (inp["content"], rest)
    raise KeyError(harness)


GEOMS_Q = [(1, 1, 24), (2, 2, 24), (3, 1, 24), (1, 1, 8), (3, 2, 8), (5, 1, 8), (1, 1, 1), (8, 2, 1), (9, 2, 1)]


def jobs(tier):
    J = [Job("H2_format", "h2_format", {}, 100), Job("H7_chains", "h7_chains", {}, 200)] + [Job("H6_names:%d" % k, "h6_names", {"nmax": 3 if tier == "quick" else 4, "part": [k, 4, 4]}, 300, "H6_names") for k in range(4)] + [Job("H5_inline_long:%d" % k, "h5_inline_long", {"part": [k, 4, 5]}, 300, "H4_inline") for k in range(4)]
    geoms = [(w, h, b) for b in (24, 8, 1) for w in (1, 2, 3, 4, 5, 7, 8, 9) for h in (1, 2, 3)]
    if tier == "thorough":
        geoms += [(w, h, b) for b in (24, 8, 1) for w in (15, 16, 17, 33) for h in (1, 4)]
    for (w, h, b) in geoms:
        J.append(Job("H1_bmp:%dx%d:%d" % (w, h, b), "h1_bmp", {"w": w, "h": h, "bits": b}, 100, "H1_bmp"))
    if tier == "quick":
        for n in (0, 1, 2, 3):
            J.append(Job("H4_inline:n%d" % n, "h4_inline", {"n": n}, 200, "H4_inline"))
        for k in range(8):
            J.append(Job("H4_inline:n4:%d" % k, "h4_inline", {"n": 4, "part": [k, 8, 9]}, 300, "H4_inline"))
    else:
        for n in (0, 1, 2, 3, 4):
            J.append(Job("H4_inline:n%d" % n, "h4_inline", {"n": n}, 900, "H4_inline"))
        for k in range(16):
            J.append(Job("H4_inline:n5:%d" % k, "h4_inline", {"n": 5, "part": [k, 16, 11]}, 1800, "H4_inline"))
    return J
