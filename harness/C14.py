"""C14 - the tokenizer is total, makes progress and is buffer-size independent on all bytes.

H1: from every scanner state (the real PSBaseParser with _parse1/_curtoken/paren/oct/hex seeded), N fully symbolic bytes
    (all 256 values each) followed by end of input are tokenized by the real nexttoken() loop once with BUFSIZ 4096 and
    once with every BUFSIZ in 1..N; assert: nothing but PSEOF escapes, positions non-decreasing and inside the input,
    identical token sequences, bounded number of scanner calls.
H2: the same from the initial state with a longer input.
Engine: symx over symbolic bytes (engine/sbytes.py); psparser is adapted in place from its current source.
"""
import z3

from engine import symx, sbytes
from engine.symx import SB
from engine.sbytes import SBy
from harness import pscommon as pc
from lib import core
from lib.core import Job

ASSUMPTIONS = [
    "input = seeded scanner state + N symbolic bytes, then end of input; longer inputs are outside the claim",
    "token values built by C-level conversions of symbolic text (int(), float(), str(..,'utf-8')) are compared as uninterpreted functions of their text",
]
OUTSIDE = ["inputs longer than N symbolic bytes after the seeded state", "BUFSIZ between N+1 and 4095 (behaves as 4096 for these inputs)"]

# scanner state -> list of (curtoken, extra attributes) seeds
SEEDS = {
    "_parse_main": [(b"", {})],
    "_parse_comment": [(b"%", {})],
    "_parse_literal": [(b"", {}), (b"a", {})],
    "_parse_literal_hex": [(b"a", {"hex": b""}), (b"", {"hex": b"4"}), (b"", {"hex": b"4f"})],
    "_parse_number": [(b"1", {}), (b"-", {})],
    "_parse_float": [(b"1.", {}), (b".", {})],
    "_parse_keyword": [(b"a", {})],
    "_parse_string": [(b"", {"paren": 1}), (b"a", {"paren": 2})],
    "_parse_string_1": [(b"a", {"paren": 1, "oct": b""}), (b"", {"paren": 1, "oct": b"7"}), (b"", {"paren": 2, "oct": b"37"})],
    "_parse_string_2": [(b"a", {"paren": 1})],
    "_parse_wopen": [(b"", {})],
    "_parse_wclose": [(b"", {})],
    "_parse_hexstring": [(b"", {}), (b"4", {})],
}


def _seed(state, cur, attrs):
    def f(p):
        if not hasattr(p, state):
            raise symx.Abort()
        p._parse1 = getattr(p, state)
        p._curtoken = cur
        p._curtokenpos = 0
        p.paren = attrs.get("paren", 0)
        if "oct" in attrs:
            p.oct = attrs["oct"]
        if "hex" in attrs:
            p.hex = attrs["hex"]
    return f


def states():
    import pdfminer.psparser as ps
    return sorted(n for n in dir(ps.PSBaseParser) if n.startswith("_parse_") and callable(getattr(ps.PSBaseParser, n)))


def h_tok(state="_parse_main", seed_i=0, n=3, timeout=200, part=None, **kw):
    import pdfminer.psparser as ps
    shims = pc.setup()
    seeds = SEEDS.get(state, [(b"", {})])     # a scanner state added later is explored with an empty seed
    if seed_i >= len(seeds):
        return core.result("H1_states", "E2 symx bytes", "confirmed_all_paths", {"paths": 0}, {"state": state, "note": "no such seed"})
    cur, attrs = seeds[seed_i]
    N = n

    def fn(ex):
        data = sbytes.sym_bytes(ex, "b", N)
        info = {"state": state, "seed": seed_i, "data": data}
        ref, err, _ = pc.tokens_of(ps.PSBaseParser, data, 4096, _seed(state, cur, attrs))
        ex.require(err is None, "tokenizer raised %s (BUFSIZ 4096)" % err, bufsiz=4096, **info)
        _check_positions(ex, ref, N, 4096, info)
        cref = [(pos, pc.canon(t)) for pos, t in ref]
        for b in range(1, N):           # BUFSIZ >= N reads the whole input at once, like 4096
            got, err, _ = pc.tokens_of(ps.PSBaseParser, data, b, _seed(state, cur, attrs))
            ex.require(err is None, "tokenizer raised %s (BUFSIZ %d)" % (err, b), bufsiz=b, **info)
            _check_positions(ex, got, N, b, info)
            ex.require(len(got) == len(ref), "number of tokens differs between BUFSIZ 4096 and %d" % b, bufsiz=b, **info)
            cgot = [(pos, pc.canon(t)) for pos, t in got]
            ex.require(SB(pc.eq_term(tuple(cref), tuple(cgot))), "token sequence differs between BUFSIZ 4096 and %d" % b, bufsiz=b, **info)

    def conc(m, info):
        return {"state": info["state"], "seed": info["seed"], "data": sbytes.model_bytes(m, info["data"]), "bufsiz": info.get("bufsiz")}

    fns = [getattr(ps.PSBaseParser, s) for s in states()] + [ps.PSBaseParser.nexttoken, ps.PSBaseParser.fillbuf, ps.PSBaseParser._add_token]
    return core.run_symx("H1_states", fn, fns,
                         {"state": state, "seed": "curtoken=%r %r" % (cur, attrs), "symbolic_bytes": N, "byte_values": "0..255", "bufsiz": "4096 and 1..%d" % (N - 1)},
                         timeout, concretize=conc, shims=shims, part=part, engine="E2 symx bytes", int_lo=-16, int_hi=1023)


def _check_positions(ex, toks, n, b, info):
    last = 0
    for pos, _t in toks:
        ex.require(isinstance(pos, int) and last <= pos <= n, "token position %r not monotone / outside the input (BUFSIZ %d)" % (pos, b), bufsiz=b, **info)
        last = pos


# ------------------------------------------------------------------------------------------ H2 long tokens (beyond any small symbolic bound)
LONG_FORMS = [("digits", b"", b"7", b" "), ("signed digits", b"-", b"7", b" "), ("real", b"0.", b"7", b" "), ("digits then dot", b"", b"7", b". "), ("name", b"/", b"a", b" "),
              ("name escapes", b"/", b"#41", b" "), ("keyword", b"", b"k", b" "), ("literal string", b"(", b"a", b") "), ("nested parentheses", b"", b"(", b") "),
              ("escapes in a string", b"(", b"\\(", b") "), ("hex string", b"<", b"4", b"> "), ("comment", b"%", b"c", b"\n"), ("white space", b"", b" ", b"x "),
              ("array brackets", b"", b"[", b"] "), ("dictionary brackets", b"", b"<<", b">> "),
              # whole tokens repeated: long runs of short comments, numbers, names, strings, empty containers and a mixture
              ("comment lines", b"", b"%c\n", b""), ("empty comment lines", b"", b"%\r", b""), ("numbers", b"", b"1 ", b""), ("names", b"", b"/a", b" "), ("strings", b"", b"(a)", b""),
              ("hex strings", b"", b"<41>", b""), ("empty arrays", b"", b"[]", b""), ("mixture", b"", b"%\n/a 1(s\\\n)<4>[-.5]<<>>", b" ")]
LONG_LENGTHS = [4095, 4096, 4097, 4300, 4301, 8192, 70000]
LONG_BUFS = [4096, 509, 4097]


def long_input(form, length):
    name, head, unit, tail = LONG_FORMS[form]
    body = unit * length
    if name == "nested parentheses":
        body = b"(" * length + b")" * (length - 1)
    return head + body + tail + b"1 "


def long_check(form, length):
    """the real tokenizer on one long token: only end of input is signalled, and the tokens do not depend on the buffer size"""
    data = long_input(form, length)
    ref = None
    for b in LONG_BUFS:
        got, err = pc.real_tokens(data, b)
        if err:
            return "%s of %d units (%r...), BUFSIZ %d: %s" % (LONG_FORMS[form][0], length, data[:12], b, err[:200])
        sig = [(pos, repr(tok)[:40], len(repr(tok))) for pos, tok in got]
        if ref is None:
            ref = sig
        elif sig != ref:
            return "%s of %d units: the tokens differ between BUFSIZ %d and BUFSIZ %d (%d vs %d tokens)" % (LONG_FORMS[form][0], length, LONG_BUFS[0], b, len(ref), len(sig))
    return None


def h2_long(timeout=300, part=None, **kw):
    """tokens far longer than the symbolic bound: each lexical form repeated 4095 .. 70000 times (around the read-buffer size and around CPython's 4300-digit integer limit), at three buffer
    sizes - concrete runs selected by symbolic choices"""
    import pdfminer.psparser as ps

    def fn(ex):
        form = ex.choice(len(LONG_FORMS), "form")
        li = ex.choice(len(LONG_LENGTHS), "length")
        r = long_check(form, LONG_LENGTHS[li])
        ex.require(r is None, r or "", form=form, length=LONG_LENGTHS[li])

    def conc(m, info):
        return {"long": True, "form": info["form"], "length": info["length"]}
    return core.run_symx("H2_long", fn, [ps.PSBaseParser.nexttoken, ps.PSBaseParser.fillbuf], {"forms": [f[0] for f in LONG_FORMS], "lengths": LONG_LENGTHS, "BUFSIZ": LONG_BUFS}, timeout, concretize=conc, part=part)


def replay(harness, inp):
    import pdfminer.psparser as ps
    if inp.get("long"):
        return long_check(inp["form"], inp["length"])
    state, si, data = inp["state"], inp["seed"], inp["data"]
    cur, attrs = SEEDS.get(state, [(b"", {})])[si]
    if not hasattr(ps.PSBaseParser, state):
        return None
    ref, err = pc.real_tokens(data, 4096, seed=_seed(state, cur, attrs))
    if err:
        return "state %s curtoken %r + %r: BUFSIZ 4096: %s" % (state, cur, data, err)
    for b in range(1, len(data) + 1):
        got, err = pc.real_tokens(data, b, seed=_seed(state, cur, attrs))
        if err:
            return "state %s curtoken %r + %r: BUFSIZ %d: %s" % (state, cur, data, b, err)
        if got != ref:
            return "state %s curtoken %r %r + input %r: BUFSIZ 4096 -> %r but BUFSIZ %d -> %r" % (state, cur, attrs, data, ref, b, got)
        last = 0
        for pos, _ in got:
            if not (last <= pos <= len(data)):
                return "state %s + %r BUFSIZ %d: token position %d not monotone/inside" % (state, data, b, pos)
            last = pos
    return None


def jobs(tier):
    J = [Job("H2_long:%d" % k, "h2_long", {"part": [k, 4, 5]}, 300, "H2_long") for k in range(4)]
    st = states()
    if tier == "quick":
        for s in st:
            for i in range(len(SEEDS.get(s, [0]))):
                if i == 0:
                    for k in range(2):
                        J.append(Job("H1_states:%s:%d:n3:%d" % (s, i, k), "h_tok", {"state": s, "seed_i": i, "n": 3, "part": [k, 2, 7]}, 240, "H1_states"))
                else:
                    J.append(Job("H1_states:%s:%d:n2" % (s, i), "h_tok", {"state": s, "seed_i": i, "n": 2}, 100, "H1_states"))
    else:
        for s in st:
            for i in range(len(SEEDS.get(s, [0]))):
                if i == 0:
                    for k in range(8):
                        J.append(Job("H1_states:%s:%d:n4:%d" % (s, i, k), "h_tok", {"state": s, "seed_i": i, "n": 4, "part": [k, 8, 9]}, 1800, "H1_states"))
                else:
                    for k in range(2):
                        J.append(Job("H1_states:%s:%d:n3:%d" % (s, i, k), "h_tok", {"state": s, "seed_i": i, "n": 3, "part": [k, 2, 7]}, 600, "H1_states"))
    return J
