"""C01 - every conformant spelling of a value reads back as that value (real PDFStreamParser.nextobject()).

A reference *writer* for ISO 32000-1 7.3 turns a value plus a vector of symbolic spelling choices into bytes; the real
parser (psparser adapted in place for symbolic bytes) reads them back; the solver is asked for a value/spelling/buffer
size for which the result differs.
H1 literal strings  H2 hexadecimal strings  H3 names  H4 numbers  H5 structures with symbolic delimiters
"""
import z3

from engine import symx, sbytes
from engine.symx import SB, SI
from engine.sbytes import SBy, Opaque
from harness import pscommon as pc
from lib import core
from lib.core import Job

ASSUMPTIONS = [
    "the writer emits only spellings whose reading is unambiguous in ISO 32000-1: no backslash-CR continuation directly before a raw LF, "
    "short octal escapes only before a non-octal-digit byte",
    "names are compared as byte strings (whether pdfminer represents them as str or bytes is an uninterpreted function of the bytes)",
    "numbers are compared by the value of their digits (the int()/float() conversions of the text are modelled arithmetically)",
]
OUTSIDE = ["string/name contents longer than the stated number of symbolic bytes", "names containing bytes >= 0x80", "reals in exponent notation (not PDF)",
           "a token that ends exactly at end of input without a delimiter"]

WS = (0, 9, 10, 12, 13, 32)
BUFS = (1, 2, 4096)
EXCL = set()          # exclusion keys of known findings (set by each job from its `exclude` argument)


def _ws(ex, name, allow=WS):
    if "nul_ws" in EXCL:
        allow = tuple(a for a in allow if a != 0)
    v = z3.Int(name)
    ex.s.add(z3.Or([v == w for w in allow]))
    return v


def _parse(data, bufsiz):
    """objects read by the real PDFStreamParser from `data`; (objs, error)"""
    import pdfminer.psparser as ps
    import pdfminer.pdfparser as pp

    class P(pp.PDFStreamParser):
        BUFSIZ = bufsiz
    p = P.__new__(P)
    pp.PDFParser.__init__(p, sbytes.SymFile(data))
    out = []
    try:
        while True:
            out.append(p.nextobject())
    except ps.PSEOF:
        return out, None
    except symx.Violation:
        raise
    except Exception as e:
        return out, "%s: %s" % (type(e).__name__, e)


def _real_parse(data, bufsiz):
    import pdfminer.psparser as ps
    import pdfminer.pdfparser as pp

    class P(pp.PDFStreamParser):
        BUFSIZ = bufsiz
    p = P(data)
    out = []
    try:
        while True:
            out.append(p.nextobject())
    except ps.PSEOF:
        return out, None
    except Exception as e:
        return out, "%s: %s" % (type(e).__name__, e)


def _is(b, vals):
    return SB(z3.Or([b == v for v in vals])) if not isinstance(b, int) else (b in vals)


NAMED = {10: b"n", 13: b"r", 9: b"t", 8: b"b", 12: b"f", 40: b"(", 41: b")", 92: b"\\"}


def exclude_of(loc):
    return loc.get("exclude") or ()


# ------------------------------------------------------------------------------------------- H1 literal strings
def write_string(ex, content, exclude=()):
    """reference writer: ISO 32000-1 7.3.4.2.  returns (source bytes, expected value)"""
    n = len(content)
    out = SBy([40])
    cont_at = ex.choice(n + 2, "cont")            # position of one line continuation; n+1 = none
    cont_kind = ex.choice(3, "ck")
    wrap = ex.choice(2, "wrap") == 1              # balanced raw parentheses around the content
    if wrap:
        out = out + b"("
    for i, b in enumerate(content.els):
        if cont_at == i:
            out = out + b"\\" + [b"\r", b"\n", b"\r\n"][cont_kind]
        how = ex.choice(6, "how%d" % i)
        nxt_is_octal_digit = None
        if how == 0:      # raw
            if bool(_is(b, (40, 41, 92, 13))):
                raise symx.Abort()
            if cont_at == i and cont_kind == 0 and bool(_is(b, (10,))):
                raise symx.Abort()                # "\CR" + raw LF would read as a CR-LF continuation
            out = out + SBy([b])
        elif how == 1:    # three-digit octal
            out = out + b"\\" + SBy([48 + b / 64, 48 + (b / 8) % 8, 48 + b % 8])
        elif how == 2:    # shortest octal, only when the next source byte cannot continue it
            if i + 1 < n or cont_at == n:
                raise symx.Abort()                # keep it simple: only for the last content byte, followed by ')' directly
            if bool(SB(b < 8)):
                out = out + b"\\" + SBy([48 + b])
            elif bool(SB(b < 64)):
                out = out + b"\\" + SBy([48 + b / 8, 48 + b % 8])
            else:
                raise symx.Abort()
        elif how == 3:    # named escape
            done = False
            for code, letter in NAMED.items():
                if bool(_is(b, (code,))):
                    out = out + b"\\" + letter
                    done = True
                    break
            if not done:
                raise symx.Abort()
        elif how == 4:    # backslash before an ordinary character is ignored
            if bool(_is(b, tuple(NAMED[k][0] for k in NAMED) + tuple(range(48, 56)) + (10, 13))):
                raise symx.Abort()
            out = out + b"\\" + SBy([b])
        else:             # an end-of-line marker written raw as CR or CR LF stands for the byte LF (7.3.4.2)
            if "raw_eol_cr" in exclude:
                raise symx.Abort()
            if not bool(_is(b, (10,))):
                raise symx.Abort()
            k = ex.choice(2, "eol%d" % i)
            if k == 1 and i + 1 < n:
                raise symx.Abort()                # CR LF form only at the end (next raw LF would be ambiguous)
            if k == 0 and i + 1 < n:
                raise symx.Abort()                # a following raw LF content byte would merge with the CR
            out = out + (b"\r" if k == 0 else b"\r\n")
    if cont_at == n:
        out = out + b"\\" + [b"\r", b"\n", b"\r\n"][cont_kind]
    value = content
    if wrap:
        out = out + b")"
        value = SBy([40]) + content + SBy([41])
    return out + b")", value


def h1_strings(n=2, timeout=200, part=None, exclude=(), **kw):
    shims = pc.setup()
    EXCL.update(kw.get('exclude') or exclude_of(locals()))
    import pdfminer.psparser as ps
    import pdfminer.pdfparser as pp

    def fn(ex):
        content = sbytes.sym_bytes(ex, "v", n)
        src, value = write_string(ex, content, exclude)
        lead = ex.choice(2, "lead")
        data = SBy([_ws(ex, "w%d" % k) for k in range(lead)]) + src + b" 7 "
        bufsiz = BUFS[ex.choice(len(BUFS), "buf")]
        objs, err = _parse(data, bufsiz)
        info = {"data": data, "bufsiz": bufsiz, "value": value}
        ex.require(err is None, "parser raised %s" % err, **info)
        ex.require(len(objs) == 2, "expected a string and the number 7, got %d objects" % len(objs), **info)
        (p0, s), (p1, seven) = objs
        ex.require(isinstance(s, (SBy, bytes)) and len(s) == len(value), "string has the wrong type/length", **info)
        ex.require(SBy.of(s) == value, "string value differs from what was written", **info)
        ex.require(p0 == lead and seven == 7, "offset of the string or the following token is wrong", **info)

    def conc(m, info):
        return {"data": sbytes.model_bytes(m, info["data"]), "bufsiz": info["bufsiz"], "expect": sbytes.model_bytes(m, info["value"]), "kind": "string"}
    return core.run_symx("H1_strings", fn, [ps.PSBaseParser._parse_string, ps.PSBaseParser._parse_string_1, ps.PSBaseParser._parse_main,
                                            ps.PSBaseParser.nexttoken, ps.PSStackParser.nextobject, pp.PDFStreamParser.do_keyword],
                         {"content_bytes": n, "byte_values": "0..255", "spellings": "raw, \\ddd, short octal, named escape, \\+ordinary, raw CR/CRLF for LF, "
                          "balanced parentheses, one line continuation (CR, LF, CRLF) at any position", "bufsiz": list(BUFS), "leading_whitespace": "0..1 symbolic bytes"},
                         timeout, concretize=conc, shims=shims, part=part, engine="E2 symx bytes", int_lo=-16, int_hi=1023)


# ------------------------------------------------------------------------------------------- H2 hex strings
def _hexdigit(ex, nib, name):
    """source byte for a nibble term with symbolic case choice"""
    up = ex.choice(2, name)
    base = 55 if up else 87
    return z3.If(nib < 10, nib + 48, nib + base)


def h2_hex(n=2, timeout=200, part=None, exclude=(), **kw):
    shims = pc.setup()
    EXCL.update(kw.get('exclude') or exclude_of(locals()))
    import pdfminer.psparser as ps

    def fn(ex):
        content = sbytes.sym_bytes(ex, "v", n)
        digits = []
        for i, b in enumerate(content.els):
            digits.append(_hexdigit(ex, b / 16, "c%dh" % i))
            digits.append(_hexdigit(ex, b % 16, "c%dl" % i))
        odd = ex.choice(2, "odd") == 1        # final digit omitted when it is 0 (7.3.4.3)
        if odd:
            if "odd_hex" in exclude or n == 0:
                raise symx.Abort()
            ex.assume(SB(content.els[-1] % 16 == 0))
            digits = digits[:-1]
        gap = ex.choice(len(digits) + 2, "gap")   # one white-space byte inserted before digit `gap` (len+1: none)
        out = [60]
        for k, d in enumerate(digits):
            if gap == k:
                out.append(_ws(ex, "g"))
            out.append(d)
        if gap == len(digits):
            out.append(_ws(ex, "g"))
        data = SBy(out + [62]) + b" 7 "
        bufsiz = BUFS[ex.choice(len(BUFS), "buf")]
        objs, err = _parse(data, bufsiz)
        info = {"data": data, "bufsiz": bufsiz, "value": content}
        ex.require(err is None, "parser raised %s" % err, **info)
        ex.require(len(objs) == 2, "expected a string and the number 7, got %d objects" % len(objs), **info)
        s = objs[0][1]
        ex.require(isinstance(s, (SBy, bytes)) and len(s) == n, "hex string has the wrong type/length", **info)
        ex.require(SBy.of(s) == content, "hex string value differs from what was written", **info)
        ex.require(objs[1][1] == 7, "token after the hex string is wrong", **info)

    def conc(m, info):
        return {"data": sbytes.model_bytes(m, info["data"]), "bufsiz": info["bufsiz"], "expect": sbytes.model_bytes(m, info["value"]), "kind": "string"}
    return core.run_symx("H2_hex", fn, [ps.PSBaseParser._parse_hexstring, ps.PSBaseParser._parse_wopen, ps.PSBaseParser._parse_main],
                         {"content_bytes": n, "digit_case": "symbolic per digit", "white_space": "one symbolic white-space byte at any digit boundary",
                          "odd_length": "when the last nibble is 0", "bufsiz": list(BUFS)},
                         timeout, concretize=conc, shims=shims, part=part, engine="E2 symx bytes", int_lo=-16, int_hi=1023)


# ------------------------------------------------------------------------------------------- H3 names
REGULAR = [c for c in range(33, 127) if c not in b"()<>[]{}/%#"]


def h3_names(n=2, timeout=200, part=None, **kw):
    shims = pc.setup()
    EXCL.update(kw.get('exclude') or exclude_of(locals()))
    import pdfminer.psparser as ps

    def fn(ex):
        content = sbytes.sym_bytes(ex, "v", n, 1, 126)
        out = [47]
        for i, b in enumerate(content.els):
            esc = ex.choice(2, "esc%d" % i)
            if esc:
                out += [35, _hexdigit(ex, b / 16, "e%dh" % i), _hexdigit(ex, b % 16, "e%dl" % i)]
            else:
                if not bool(_is(b, REGULAR)):
                    raise symx.Abort()
                out.append(b)
        term = ex.choice(3, "term")      # what ends the name: white space, a delimiter that starts the next token, or '/'
        tail = [SBy([_ws(ex, "t")]) + b"7 ", SBy(list(b"[7] ")), SBy(list(b"/X 7 "))][term]
        data = SBy(out) + tail
        bufsiz = BUFS[ex.choice(len(BUFS), "buf")]
        objs, err = _parse(data, bufsiz)
        info = {"data": data, "bufsiz": bufsiz, "value": content}
        ex.require(err is None, "parser raised %s" % err, **info)
        ex.require(len(objs) >= 2 and isinstance(objs[0][1], ps.PSLiteral), "first object is not a name", **info)
        nm = objs[0][1].name
        if isinstance(nm, Opaque):
            nm = nm.text
        if isinstance(nm, str):
            nm = nm.encode("utf-8")
        ex.require(len(nm) == n and SBy.of(nm) == content, "name differs from what was written", **info)
        nxt = objs[1][1]
        if term == 0:
            ex.require(nxt == 7, "token after the name is wrong", **info)
        elif term == 1:
            ex.require(nxt == [7], "array after the name is wrong", **info)
        else:
            ex.require(isinstance(nxt, ps.PSLiteral) and nxt.name == "X", "name after the name is wrong", **info)

    def conc(m, info):
        return {"data": sbytes.model_bytes(m, info["data"]), "bufsiz": info["bufsiz"], "expect": sbytes.model_bytes(m, info["value"]), "kind": "name"}
    return core.run_symx("H3_names", fn, [ps.PSBaseParser._parse_literal, ps.PSBaseParser._parse_literal_hex, ps.PSBaseParser._parse_main],
                         {"name_bytes": n, "byte_values": "1..126", "spelling": "raw when regular, or #xx with symbolic digit case (also for regular bytes)",
                          "terminator": "white space / '[' / '/'", "bufsiz": list(BUFS)},
                         timeout, concretize=conc, shims=shims, part=part, engine="E2 symx bytes", int_lo=-16, int_hi=1023)


# ------------------------------------------------------------------------------------------- H4 numbers
def _numval(tok):
    """value (z3 Real) of a number token produced from symbolic text by the int/float shims"""
    if isinstance(tok, bool):
        return None
    if isinstance(tok, int):
        return z3.RealVal(tok)
    if isinstance(tok, float) and not isinstance(tok, symx.SV):
        return symx.zr(tok)
    if isinstance(tok, Opaque) and tok.kind in ("int", "float"):
        els = tok.text.els
        sign = 1
        k = 0
        neg = None
        if els and (isinstance(els[0], int) and els[0] in (43, 45)):
            neg = els[0] == 45
            k = 1
        ip = z3.RealVal(0)
        scale = None
        for e in els[k:]:
            if isinstance(e, int) and e == 46:
                scale = z3.RealVal(1)
                continue
            d = (e if isinstance(e, int) else e) - 48
            d = z3.ToReal(d) if not isinstance(d, int) else z3.RealVal(d)
            if scale is None:
                ip = ip * 10 + d
            else:
                scale = scale / 10
                ip = ip + d * scale
        return -ip if neg else ip
    return None


def h4_numbers(timeout=200, part=None, **kw):
    shims = pc.setup()
    EXCL.update(kw.get('exclude') or exclude_of(locals()))
    import pdfminer.psparser as ps

    def fn(ex):
        sign = ex.choice(3, "sign")                  # none, +, -
        ni = ex.choice(4, "ni")                      # 0..3 integer digits
        nf = ex.choice(4, "nf")                      # 0: integer; 1: '.' only; 2,3: '.' + 1..2 digits
        if ni == 0 and nf < 2:
            raise symx.Abort()                       # at least one digit
        ds = [z3.Int("d%d" % k) for k in range(ni)]
        fs = [z3.Int("f%d" % k) for k in range(max(0, nf - 1))]
        for d in ds + fs:
            ex.s.add(d >= 0, d <= 9)
        out = ([43] if sign == 1 else [45] if sign == 2 else []) + [d + 48 for d in ds]
        if nf:
            out += [46] + [f + 48 for f in fs]
        val = z3.RealVal(0)
        for d in ds:
            val = val * 10 + z3.ToReal(d)
        sc = z3.RealVal(1)
        for f in fs:
            sc = sc / 10
            val = val + z3.ToReal(f) * sc
        if sign == 2:
            val = -val
        term = ex.choice(3, "term")
        tail = [SBy([_ws(ex, "t")]) + b"/X ", SBy(list(b"/X ")), SBy(list(b"]/X "))][term]
        data = (SBy(list(b"[")) if term == 2 else SBy([])) + SBy(out) + tail
        bufsiz = BUFS[ex.choice(len(BUFS), "buf")]
        objs, err = _parse(data, bufsiz)
        info = {"data": data, "bufsiz": bufsiz, "value": val, "isreal": bool(nf)}
        ex.require(err is None, "parser raised %s" % err, **info)
        ex.require(len(objs) == 2, "expected a number and /X, got %d objects" % len(objs), **info)
        tok = objs[0][1]
        if term == 2:
            ex.require(isinstance(tok, list) and len(tok) == 1, "array of one number expected", **info)
            tok = tok[0]
        v = _numval(tok)
        ex.require(v is not None, "not a number token: %r" % (tok,), **info)
        isfloat = isinstance(tok, float) or (isinstance(tok, Opaque) and tok.kind == "float")
        ex.require(isfloat == bool(nf), "integer/real kind differs", **info)
        ex.require(SB(v == val), "number value differs from what was written", **info)
        ex.require(isinstance(objs[1][1], ps.PSLiteral) and objs[1][1].name == "X", "token after the number is wrong", **info)

    def conc(m, info):
        return {"data": sbytes.model_bytes(m, info["data"]), "bufsiz": info["bufsiz"], "expect": symx.mval(m, info["value"]), "kind": "number", "isreal": info["isreal"]}
    return core.run_symx("H4_numbers", fn, [ps.PSBaseParser._parse_number, ps.PSBaseParser._parse_float, ps.PSBaseParser._parse_main],
                         {"sign": "none/+/-", "integer_digits": "0..3 symbolic", "fraction": "none, '.', '.'+1..2 symbolic digits", "terminator": "white space / '/' / ']'",
                          "bufsiz": list(BUFS)},
                         timeout, concretize=conc, shims=shims, part=part, engine="E2 symx bytes", int_lo=-16, int_hi=1023)


# ------------------------------------------------------------------------------------------- H5 structures
class R:      # indirect reference in the value pool
    def __init__(self, n, g=0):
        self.n, self.g = n, g


TREES = [
    [1, -2, 3.5, True, False, None],
    {"A": 1, "B": [2, 3], "C": {"D": b"x"}},
    [R(12), R(3, 1), 5, 6],
    [[], {}, [[]], b"", "N"],
    {"K": R(7), "L": "Nm", "M": [b"s", b"\xfe"]},
    ["A", "B", [1, "C"], {"E": "F"}],
]


def _emit(ex, v, out, ctr, first=True):
    """append the tokens of v to out (list of byte values / z3 terms) with symbolic separators.
    returns nothing; `ctr` numbers the separator symbols"""
    def sep(required):
        # between two tokens: required white space when both are regular; optional otherwise
        k = ex.choice(3 if not required else 2, "s%d" % ctr[0])
        ctr[0] += 1
        if required:
            k += 1
        if k == 0:
            return
        if k == 1:
            out.append(_ws(ex, "sw%d" % ctr[0]))
        else:
            c = z3.Int("sc%d" % ctr[0])
            ex.s.add(c >= 0, c <= 255, c != 10, c != 13)
            out.extend([37, c, _ws(ex, "se%d" % ctr[0], (10, 13))])
        ctr[0] += 1
    return sep


def _tokens(v):
    """value -> list of (text, kind) tokens; kind: 'reg' regular-character token, 'delim' self-delimiting on both sides,
    'name' (starts with '/', ends regular)"""
    if v is None:
        return [(b"null", "reg")]
    if v is True:
        return [(b"true", "reg")]
    if v is False:
        return [(b"false", "reg")]
    if isinstance(v, int):
        return [(str(v).encode(), "reg")]
    if isinstance(v, float):
        return [(("%g" % v).encode(), "reg")]
    if isinstance(v, str):
        return [(b"/" + v.encode(), "name")]
    if isinstance(v, bytes):
        return [(b"(" + v.replace(b"\\", b"\\\\").replace(b"(", b"\\(").replace(b")", b"\\)") + b")", "delim")] if v != b"\xfe" else [(b"<FE>", "delim")]
    if isinstance(v, R):
        return [(str(v.n).encode(), "reg"), (str(v.g).encode(), "reg"), (b"R", "reg")]
    if isinstance(v, list):
        t = [(b"[", "delim")]
        for x in v:
            t += _tokens(x)
        return t + [(b"]", "delim")]
    if isinstance(v, dict):
        t = [(b"<<", "delim")]
        for k, x in v.items():
            t += [(b"/" + k.encode(), "name")] + _tokens(x)
        return t + [(b">>", "delim")]
    raise TypeError(v)


def _expected(v):
    """what pdfminer's object model holds for v"""
    if isinstance(v, dict):
        return {k: _expected(x) for k, x in v.items() if x is not None}
    if isinstance(v, list):
        return [_expected(x) for x in v]
    return v


def _same(got, exp):
    import pdfminer.psparser as ps
    import pdfminer.pdftypes as pt
    if isinstance(exp, R):
        return isinstance(got, pt.PDFObjRef) and got.objid == exp.n
    if isinstance(exp, str):
        return isinstance(got, ps.PSLiteral) and got.name == exp
    if isinstance(exp, list):
        return isinstance(got, list) and len(got) == len(exp) and all(_same(g, e) for g, e in zip(got, exp))
    if isinstance(exp, dict):
        return isinstance(got, dict) and sorted(got) == sorted(exp) and all(_same(got[k], exp[k]) for k in exp)
    if isinstance(exp, bytes):
        return isinstance(got, (bytes, SBy)) and bytes(got.els if isinstance(got, SBy) else got) == exp
    if exp is None:
        return got is None
    if isinstance(exp, bool) or isinstance(got, bool):
        return isinstance(got, bool) and isinstance(exp, bool) and got == exp
    return type(got) == type(exp) and got == exp


def h5_struct(tree=0, timeout=200, part=None, exclude=(), **kw):
    shims = pc.setup()
    EXCL.update(kw.get('exclude') or exclude_of(locals()))
    import pdfminer.psparser as ps
    import pdfminer.pdfparser as pp
    value = TREES[tree]
    toks = _tokens(value) + [(b"/End", "name")]

    def fn(ex):
        out = []
        lead = ex.choice(2, "lead")
        if lead:
            out.append(_ws(ex, "lw"))
        nb = len(toks) - 1
        special = ex.choice(nb + 1, "special")       # the one token boundary written in a non-minimal way (nb: none)
        skind = ex.choice(3, "skind")                # 0 one symbolic white-space byte, 1 two of them, 2 a comment
        prev = None
        for ti, (text, kind) in enumerate(toks):
            if prev is not None:
                # white space is required between two tokens when the first ends and the second starts with a regular character
                need = prev in ("reg", "name") and kind == "reg"
                if ti - 1 == special:
                    if skind == 0:
                        out.append(_ws(ex, "sw"))
                    elif skind == 1:
                        out.extend([_ws(ex, "sw"), _ws(ex, "sx")])
                    else:
                        c = z3.Int("sc")
                        ex.s.add(c >= 0, c <= 255, c != 10, c != 13)
                        out.extend([37, c, _ws(ex, "se", (10, 13))])
                elif need:
                    out.append(32)
            out.extend(text)
            prev = kind
        out.append(32)
        data = SBy(out)
        bufsiz = BUFS[ex.choice(len(BUFS), "buf")]
        objs, err = _parse(data, bufsiz)
        info = {"data": data, "bufsiz": bufsiz, "tree": tree}
        ex.require(err is None, "parser raised %s" % err, **info)
        ex.require(len(objs) == 2, "expected the value and /End, got %d objects" % len(objs), **info)
        ex.require(objs[0][0] == lead, "offset of the value is wrong", **info)
        ex.require(_same(objs[0][1], _expected(value)), "structure differs from what was written", **info)
        ex.require(isinstance(objs[1][1], ps.PSLiteral) and objs[1][1].name == "End", "token after the value is wrong", **info)

    def conc(m, info):
        return {"data": sbytes.model_bytes(m, info["data"]), "bufsiz": info["bufsiz"], "tree": info["tree"], "kind": "tree"}
    return core.run_symx("H5_struct", fn, [ps.PSStackParser.nextobject, ps.PSStackParser.end_type, pp.PDFStreamParser.do_keyword, ps.PSBaseParser._parse_main,
                                           ps.PSBaseParser._parse_comment, ps.PSBaseParser._parse_keyword, ps.PSBaseParser._parse_wopen, ps.PSBaseParser._parse_wclose],
                         {"tree": repr(value)[:120], "separators": "minimal delimiters everywhere except at one symbolically chosen token boundary, which gets one or two "
                          "symbolic white-space bytes or a %comment with a symbolic content byte ended by CR or LF", "bufsiz": list(BUFS)},
                         timeout, concretize=conc, shims=shims, part=part, engine="E2 symx bytes", int_lo=-16, int_hi=1023)


# ------------------------------------------------------------------------------------------- replay on the real code
# ------------------------------------------------------------------------------------------ H6 long objects (beyond the symbolic bounds)
def _spell(v, k=0):
    """a reference writer that varies the spelling with position k: octal / named / literal escapes and line continuations in strings, white space inside hex strings,
    #xx escapes in names, comments and every end-of-line convention between tokens.  Returns bytes."""
    SEPS = [b" ", b"\n", b"\r\n", b"\t", b" % c\n", b"\x0c", b"  ", b"%comment (x\r", b" %\r\n", b" \x00", b"\n\x00 "]     # NUL is white space (ISO 32000-1 table 1); it follows another white-space byte here because
    # a NUL directly after a name or keyword is the open finding KF-C01-nul-ws
    if v is None:
        return b"null"
    if v is True or v is False:
        return b"true" if v else b"false"
    if isinstance(v, int):
        return (b"+%d" % v) if (k % 5 == 0 and v >= 0) else b"%d" % v
    if isinstance(v, float):
        return repr(v).encode()
    if isinstance(v, str):                                    # name
        out = bytearray(b"/")
        for i, ch in enumerate(v.encode("latin1")):
            out += (b"#%02x" % ch) if (ch < 33 or ch > 126 or ch in b"#/()<>[]{}%" or (i + k) % 4 == 0) else bytes([ch])
        return bytes(out)
    if isinstance(v, bytes):
        if k % 2:                                             # hexadecimal string with white space in it
            h = v.hex().encode()
            return b"<" + b"".join(h[i:i + 3] + [b"", b" ", b"\n"][(i + k) % 3] for i in range(0, len(h), 3)) + b">"
        out = bytearray(b"(")
        for i, ch in enumerate(v):
            m = (i + k) % 6
            if ch in b"()\\":
                out += b"\\" + bytes([ch])
            elif ch == 13:
                out += b"\\r"                                 # a raw CR would be normalised away (open finding KF-C01-raw-eol)
            elif ch < 32 or ch > 126 or m == 0:
                out += b"\\%03o" % ch
            elif m == 3:
                out += bytes([ch]) + b"\\\n"                  # line continuation after the character
            else:
                out += bytes([ch])
        return bytes(out) + b")"
    if isinstance(v, list):
        return b"[" + b"".join(SEPS[(i + k) % len(SEPS)] + _spell(x, k + i) for i, x in enumerate(v)) + SEPS[k % len(SEPS)] + b"]"
    if isinstance(v, dict):
        return b"<<" + b"".join(SEPS[(i + k) % len(SEPS)] + _spell(key, k + i) + SEPS[(i + k + 1) % len(SEPS)] + _spell(x, k + i + 1) for i, (key, x) in enumerate(v.items())) + b">>"
    raise TypeError(v)


def _same_value(got, exp):
    import pdfminer.psparser as ps
    if isinstance(exp, str):
        return isinstance(got, ps.PSLiteral) and got.name == exp
    if isinstance(exp, bool) or exp is None:
        return got is exp
    if isinstance(exp, (int, float, bytes)):
        return type(got) is type(exp) and got == exp
    if isinstance(exp, list):
        return isinstance(got, list) and len(got) == len(exp) and all(_same_value(a, b) for a, b in zip(got, exp))
    if isinstance(exp, dict):
        return isinstance(got, dict) and list(got.keys()) == list(exp.keys()) and all(_same_value(got[k], exp[k]) for k in exp)
    return False


LONG_OBJECTS = ["array of integers", "array of names", "nested arrays", "nested dictionaries", "dictionary with many keys", "long literal string", "long hex string", "long name", "mixed tree"]
LONG_N = [100, 1365, 4095, 4096, 4097, 20000]


def long_object(kind, n):
    if kind == 0:
        return [(-1) ** i * (i * 7919 % 100003) for i in range(n)]
    if kind == 1:
        return ["N%d#x" % i for i in range(n)]
    if kind == 2:
        v = [1, b"x"]
        for i in range(min(n, 400)):
            v = [i, v, "k"]
        return v
    if kind == 3:
        v = {"Leaf": b"(end)"}
        for i in range(min(n, 400)):
            v = {"D%d" % i: v, "I": i}
        return v
    if kind == 4:
        return {"K%d" % i: [i, b"v%d" % i] for i in range(n)}
    if kind == 5:
        return bytes((i * 37 + 11) % 256 for i in range(n))
    if kind == 6:
        return [bytes((i * 101 + 3) % 256 for i in range(n)), 7]         # wrapped in an array: _spell writes element 1 (odd k) as a hex string
    if kind == 7:
        return "".join(chr(33 + (i * 7) % 94) for i in range(min(n, 4097)))
    return {"A": [long_object(0, n // 10), {"B": long_object(5, n // 10), "C": [None, True, False, 1.5, -0.25]}], "D": long_object(1, n // 20)}


def long_obj_check(kind, n):
    import sys
    v = long_object(kind, n)
    old = sys.getrecursionlimit()
    sys.setrecursionlimit(40000)              # for this writer and comparison (recursive); the parser itself keeps an explicit stack
    try:
        data = _spell(v, 1 if kind == 6 else 0) + b" "
        ref = None
        for bufsiz in (4096, 509, 4097):
            objs, err = _real_parse(data, bufsiz)
            if err:
                return "%s (n=%d, %d bytes), BUFSIZ %d: %s" % (LONG_OBJECTS[kind], n, len(data), bufsiz, err[:200])
            if len(objs) != 1 or not _same_value(objs[0][1], v):
                return "%s (n=%d, %d bytes), BUFSIZ %d: the object read back differs from the one written (%d objects)" % (LONG_OBJECTS[kind], n, len(data), bufsiz, len(objs))
        return None
    finally:
        sys.setrecursionlimit(old)


def h6_long(timeout=300, part=None, **kw):
    """objects of 100 .. 20000 elements / bytes / nesting levels written by a reference writer that varies every spelling, read back by the real PDFStreamParser at three buffer sizes"""
    import pdfminer.pdfparser as pp

    def fn(ex):
        kind = ex.choice(len(LONG_OBJECTS), "kind")
        n = LONG_N[ex.choice(len(LONG_N), "n")]
        r = long_obj_check(kind, n)
        ex.require(r is None, r or "", kind=kind, n=n)

    def conc(m, info):
        return {"long": True, "kind": info["kind"], "n": info["n"]}
    return core.run_symx("H6_long", fn, [pp.PDFStreamParser.nextobject], {"objects": LONG_OBJECTS, "sizes": LONG_N, "BUFSIZ": [4096, 509, 4097]}, timeout, concretize=conc, part=part)


# ------------------------------------------------------------------------------------------ H7 several names read in one process (the interning table is process-wide)
NAME_POOL = [b"e", b"\xe9", b"\xc3\xa9", b"\xc3", b"\xa9", b"\xf8", b"\xc3\xb8", b"A\xe9", b"A\xc3\xa9", b"\xff", b"\xc3\xbf", b"#", b" ", b"\xe9 "]


def _name_bytes(x):
    n = x.name
    return n if isinstance(n, bytes) else n.encode("utf-8")


def _names_check(sel):
    """sel: three indices into NAME_POOL.  The names are written with #xx escapes for every byte outside the regular printable range, once as an array and once as dictionary keys, and read
    by the real parser in this order: every element is the name that was written, equal names are one object and different names different objects, the dictionary keeps every distinct key"""
    from pdfminer.pdfparser import PDFStreamParser
    from pdfminer.psparser import PSLiteral
    names = [NAME_POOL[i] for i in sel]
    spell = lambda b: b"/" + b"".join(bytes([c]) if 33 <= c <= 126 and c not in b"#/()<>[]{}%" else b"#%02X" % c for c in b)
    data = b"[" + b" ".join(spell(n) for n in names) + b"] << " + b" ".join(spell(n) + b" %d" % i for i, n in enumerate(names)) + b" >> "
    p = PDFStreamParser(data)
    try:
        arr = p.nextobject()[1]
        dic = p.nextobject()[1]
    except Exception as e:
        return "reading %r raised %s: %s" % (data, type(e).__name__, e)
    if len(arr) != len(names) or not all(isinstance(x, PSLiteral) for x in arr):
        return "%r reads back as %r" % (data, arr)
    for i, (x, n) in enumerate(zip(arr, names)):
        if _name_bytes(x) != n:
            return "%r: element %d was written as the name with the bytes %r and reads back as %r" % (data, i, n, x.name)
    for i in range(len(names)):
        for j in range(i):
            if (arr[i] is arr[j]) != (names[i] == names[j]):
                return "%r: names %r and %r are %s object" % (data, names[j], names[i], "the same" if arr[i] is arr[j] else "not the same")
    last = {}
    for i, n in enumerate(names):
        last[n] = i
    # dictionary keys are text in this library (literal_name: the UTF-8 reading of the name, or the repr of its bytes): the convention is taken as given, the mapping is checked
    from pdfminer.psparser import literal_name
    if len(dic) != len(last):
        return "%r: the dictionary reads back with %d keys %r, %d different names were written" % (data, len(dic), sorted(dic), len(last))
    for x, n in zip(arr, names):
        if dic.get(literal_name(x)) != last[n]:
            return "%r: the entry of the name %r reads back as %r, written was %r" % (data, n, dic.get(literal_name(x)), last[n])
    return None


def h7_names(timeout=200, part=None, **kw):
    import pdfminer.psparser as ps

    def fn(ex):
        sel = [ex.choice(len(NAME_POOL), "n%d" % i) for i in range(3)]
        r = _names_check(sel)
        if r is not None:                   # the table outlives a path: report a selection that fails from a cold start
            sc = core.self_contained("C01", "_names_check", sel, [[q, a, b] for q in range(len(NAME_POOL)) for (a, b) in ((sel[0], sel[2]), (sel[1], sel[2]), (sel[0], sel[1]))])
            if sc is None:
                r += "  [only after the names read by earlier paths of this run]"
            else:
                sel, r = sc
        ex.require(r is None, r or "", kind="names", sel=sel)

    def conc(m, info):
        return {"kind": "names", "sel": info["sel"]}
    return core.run_symx("H7_names", fn, [ps.PSSymbolTable.intern, ps.PSBaseParser._parse_literal, ps.PSBaseParser._parse_literal_hex],
                         {"names": "every sequence of three names from a pool of %d byte strings (ASCII, single high bytes and the UTF-8 sequences that render like them), in an array and as dictionary keys" % len(NAME_POOL),
                          "parser": "the real PDFStreamParser, no shims"}, timeout, concretize=conc, part=part)


def replay(harness, inp):
    if inp.get("kind") == "names" and "sel" in inp:
        return _names_check(inp["sel"])
    import pdfminer.psparser as ps
    import pdfminer.pdftypes as pt
    if inp.get("long"):
        return long_obj_check(inp["kind"], inp["n"])
    data, bufsiz = inp["data"], inp["bufsiz"]
    objs, err = _real_parse(data, bufsiz)
    if err:
        return "PDFStreamParser(%r) BUFSIZ=%d: %s" % (data, bufsiz, err)
    kind = inp["kind"]
    if not objs:
        return "PDFStreamParser(%r) BUFSIZ=%d: no object" % (data, bufsiz)
    got = objs[0][1]
    if kind == "string":
        ok = isinstance(got, bytes) and got == inp["expect"]
        exp = inp["expect"]
    elif kind == "name":
        exp = inp["expect"]
        nm = got.name if isinstance(got, ps.PSLiteral) else None
        if isinstance(nm, str):
            nm = nm.encode("utf-8")
        ok = nm == exp
    elif kind == "number":
        exp = inp["expect"]
        ok = isinstance(got, (int, float)) and not isinstance(got, bool) and isinstance(got, float) == inp["isreal"] and abs(float(exp) - got) < 1e-9
        if data[:1] == b"[":
            ok = isinstance(got, list) and len(got) == 1 and not isinstance(got[0], bool) and abs(float(exp) - got[0]) < 1e-9
    else:
        exp = _expected(TREES[inp["tree"]])

        def same(g, e):
            if isinstance(e, R):
                return isinstance(g, pt.PDFObjRef) and g.objid == e.n
            if isinstance(e, str):
                return isinstance(g, ps.PSLiteral) and g.name == e
            if isinstance(e, list):
                return isinstance(g, list) and len(g) == len(e) and all(same(a, b) for a, b in zip(g, e))
            if isinstance(e, dict):
                return isinstance(g, dict) and sorted(g) == sorted(e) and all(same(g[k], e[k]) for k in e)
            if e is None:
                return g is None
            return type(g) == type(e) and g == e
        ok = same(got, exp) and len(objs) == 2
    if ok and kind != "tree":
        ok = len(objs) == 2
    if not ok:
        return "PDFStreamParser(%r).nextobject() with BUFSIZ=%d gives %r (all objects: %r); the value written is %r" % (data, bufsiz, got, objs, exp)
    return None


def jobs(tier):
    J = [Job("H6_long:%d" % k, "h6_long", {"part": [k, 4, 5]}, 300, "H6_long") for k in range(4)] + [Job("H7_names", "h7_names", {}, 200)]
    if tier == "quick":
        for k in range(8):
            J.append(Job("H1_strings:n2:%d" % k, "h1_strings", {"n": 2, "part": [k, 8, 10]}, 200, "H1_strings"))
        J.append(Job("H1_strings:n1", "h1_strings", {"n": 1}, 100, "H1_strings"))
        for k in range(2):
            J.append(Job("H2_hex:n2:%d" % k, "h2_hex", {"n": 2, "part": [k, 2, 8]}, 200, "H2_hex"))
        for k in range(2):
            J.append(Job("H3_names:n2:%d" % k, "h3_names", {"n": 2, "part": [k, 2, 8]}, 200, "H3_names"))
        for k in range(2):
            J.append(Job("H4_numbers:%d" % k, "h4_numbers", {"part": [k, 2, 8]}, 200, "H4_numbers"))
        for t in range(len(TREES)):
            J.append(Job("H5_struct:%d" % t, "h5_struct", {"tree": t}, 200, "H5_struct"))
    else:
        for k in range(16):
            J.append(Job("H1_strings:n3:%d" % k, "h1_strings", {"n": 3, "part": [k, 16, 11]}, 1500, "H1_strings"))
        for k in range(4):
            J.append(Job("H2_hex:n3:%d" % k, "h2_hex", {"n": 3, "part": [k, 4, 9]}, 900, "H2_hex"))
            J.append(Job("H3_names:n3:%d" % k, "h3_names", {"n": 3, "part": [k, 4, 9]}, 900, "H3_names"))
        for k in range(2):
            J.append(Job("H4_numbers:%d" % k, "h4_numbers", {"part": [k, 2, 8]}, 600, "H4_numbers"))
        for t in range(len(TREES)):
            for k in range(2):
                J.append(Job("H5_struct:%d:%d" % (t, k), "h5_struct", {"tree": t, "part": [k, 2, 8]}, 900, "H5_struct"))
    return J
