"""tiny PDF writer for probes"""
def ser(o):
    if o is None: return b"null"
    if o is True: return b"true"
    if o is False: return b"false"
    if isinstance(o, int): return str(o).encode()
    if isinstance(o, float): return ("%f" % o).encode()
    if isinstance(o, bytes): return b"(" + o.replace(b"\\", b"\\\\").replace(b"(", b"\\(").replace(b")", b"\\)") + b")"
    if isinstance(o, str): return b"/" + o.encode()
    if isinstance(o, Ref): return b"%d 0 R" % o.n
    if isinstance(o, Raw): return o.b
    if isinstance(o, list): return b"[" + b" ".join(ser(x) for x in o) + b"]"
    if isinstance(o, dict): return b"<<" + b" ".join(b"/" + k.encode() + b" " + ser(v) for k, v in o.items()) + b">>"
    raise TypeError(o)
class Ref:
    def __init__(self, n): self.n = n
class Raw:
    def __init__(self, b): self.b = b
class Stream:
    def __init__(self, d, data): self.d, self.data = d, data
def build(objs, trailer_extra=None, root=1):
    """objs: {n: value|Stream}"""
    out = bytearray(b"%PDF-1.4\n"); offs = {}
    for n, o in sorted(objs.items()):
        offs[n] = len(out)
        out += b"%d 0 obj\n" % n
        if isinstance(o, Stream):
            d = dict(o.d); d["Length"] = len(o.data)
            out += ser(d) + b"\nstream\n" + o.data + b"\nendstream"
        else: out += ser(o)
        out += b"\nendobj\n"
    x = len(out); mx = max(objs) + 1
    out += b"xref\n0 %d\n" % mx + b"0000000000 65535 f \n"
    for n in range(1, mx):
        out += (b"%010d 00000 n \n" % offs[n]) if n in offs else b"0000000000 65535 f \n"
    t = {"Size": mx, "Root": Ref(root)}; t.update(trailer_extra or {})
    out += b"trailer\n" + ser(t) + b"\nstartxref\n%d\n%%%%EOF\n" % x
    return bytes(out)
def simple_doc(content, npages=1, resources=None, extra=None, page_extra=None):
    font = {"Type": "Font", "Subtype": "Type1", "BaseFont": "Helvetica"}
    objs = {1: {"Type": "Catalog", "Pages": Ref(2)}, 3: font}
    kids = []
    n = 4
    for i in range(npages):
        c = content[i] if isinstance(content, list) else content
        objs[n + 1] = Stream({}, c)
        pg = {"Type": "Page", "Parent": Ref(2), "MediaBox": [0, 0, 200, 200], "Contents": Ref(n + 1),
              "Resources": resources or {"Font": {"F1": Ref(3)}}}
        pg.update(page_extra or {})
        objs[n] = pg
        kids.append(Ref(n)); n += 2
    objs[2] = {"Type": "Pages", "Kids": kids, "Count": npages}
    objs.update(extra or {})
    return build(objs)
