"""tiny PDF writer for probes"""
def ser(o):
    if o is None: return b"null"
    if o is True: return b"true"
    if o is False: return b"false"
    if isinstance(o, int): return str(o).encode()
    if isinstance(o, float): return ("%f" % o).encode()
    if isinstance(o, bytes): return b"(" + o.replace(b"\\", b"\\\\").replace(b"(", b"\\(").replace(b")", b"\\)") + b")"
    if isinstance(o, str): return b"/" + o.encode()
    if isinstance(o, Ref): return b"%d 0 R" % o.n
    if isinstance(o, Raw): return o.b
    if isinstance(o, list): return b"[" + b" ".join(ser(x) for x in o) + b"]"
    if isinstance(o, dict): return b"<<" + b" ".join(b"/" + k.encode() + b" " + ser(v) for k, v in o.items()) + b">>"
    raise TypeError(o)
class Ref:
    def __init__(self, n): self.n = n
class Raw:
    def __init__(self, b): self.b = b
class Stream:
    def __init__(self, d, data): self.d, self.data = d, data
def build(objs, trailer_extra=None, root=1):
    """objs: {n: value|Stream}"""
    out = bytearray(b"%PDF-1.4\n"); offs = {}
    for n, o in sorted(objs.items()):
        offs[n] = len(out)
        out += b"%d 0 obj\n" % n
        if isinstance(o, Stream):
            d = dict(o.d); d["Length"] = len(o.data)
            out += ser(d) + b"\nstream\n" + o.data + b"\nendstream"
        else: out += ser(o)
        out += b"\nendobj\n"
    x = len(out); mx = max(objs) + 1
    out += b"xref\n0 %d\n" % mx + b"0000000000 65535 f \n"
    for n in range(1, mx):
        out += (b"%010d 00000 n \n" % offs[n]) if n in offs else b"0000000000 65535 f \n"
    t = {"Size": mx, "Root": Ref(root)}; t.update(trailer_extra or {})
    out += b"trailer\n" + ser(t) + b"\nstartxref\n%d\n%%%%EOF\n" % x
    return bytes(out)
def simple_doc(content, npages=1, resources=None, extra=None, page_extra=None):
    font = {"Type": "Font", "Subtype": "Type1", "BaseFont": "Helvetica"}
    objs = {1: {"Type": "Catalog", "Pages": Ref(2)}, 3: font}
    kids = []
    n = 4
    for i in range(npages):
        c = content[i] if isinstance(content, list) else content
        objs[n + 1] = Stream({}, c)
        pg = {"Type": "Page", "Parent": Ref(2), "MediaBox": [0, 0, 200, 200], "Contents": Ref(n + 1),
              "Resources": resources or {"Font": {"F1": Ref(3)}}}
        pg.update(page_extra or {})
        objs[n] = pg
        kids.append(Ref(n)); n += 2
    objs[2] = {"Type": "Pages", "Kids": kids, "Count": npages}
    objs.update(extra or {})
    return build(objs)


# ---------------------------------------------------------------------------------------------------------------------
# incremental updates in every physical form (classic table, cross-reference stream, hybrid; objects direct or in object streams)
def _obj_bytes(n, o):
    out = b"%d 0 obj\n" % n
    if isinstance(o, Stream):
        d = dict(o.d)
        d["Length"] = len(o.data)
        out += ser(d) + b"\nstream\n" + o.data + b"\nendstream"
    else:
        out += ser(o)
    return out + b"\nendobj\n"


def build_history(revisions, eol=b"\n"):
    """revisions: list (oldest first) of dicts
         {"objs": {n: value|Stream}, "form": "table"|"stream"|"hybrid", "packed": set of object numbers stored in an object stream,
          "free": set of object numbers marked free}
       Object numbers 900+k (xref stream of revision k), 800+k (object stream of revision k) are reserved.  Returns the file bytes."""
    out = bytearray(b"%PDF-1.5\n%\xe2\xe3\xcf\xd3\n")
    prev = None
    size = 1 + max([max(r["objs"]) for r in revisions if r["objs"]] + [0])
    size = max(size, 1000)
    for k, rev in enumerate(revisions):
        form = rev.get("form", "table")
        packed = set(rev.get("packed", ())) if form != "table" else set()
        packed = {n for n in packed if not isinstance(rev["objs"][n], Stream)}
        entries = {}                      # n -> ("n", offset) | ("o", strmid, index) | ("f",)
        for n, o in sorted(rev["objs"].items()):
            if n in packed:
                continue
            entries[n] = ("n", len(out))
            out += _obj_bytes(n, o)
        for n in rev.get("free", ()):
            entries[n] = ("f",)
        if packed:
            sid = 800 + k
            nums = sorted(packed)
            bodies, head = b"", b""
            for i, n in enumerate(nums):
                head += b"%d %d " % (n, len(bodies))
                bodies += ser(rev["objs"][n]) + b" "
                entries[n] = ("o", sid, i)
            data = head + bodies
            entries[sid] = ("n", len(out))
            sd = {"Type": "ObjStm", "N": len(nums), "First": len(head)}
            if rev.get("objstm_fault"):          # damage injected by the robustness harness: callable (dict, payload) -> (dict, payload)
                sd, data = rev["objstm_fault"](sd, data)
            out += _obj_bytes(sid, Stream(sd, data))
        trailer = {"Size": size, "Root": Ref(rev.get("root", 1))}
        if prev is not None:
            trailer["Prev"] = prev

        def table(ents):
            t = b"xref" + eol
            nums = sorted(ents)
            i = 0
            while i < len(nums):
                j = i
                while j + 1 < len(nums) and nums[j + 1] == nums[j] + 1:
                    j += 1
                t += b"%d %d" % (nums[i], j - i + 1) + eol
                for n in nums[i:j + 1]:
                    e = ents[n]
                    t += (b"%010d 00000 n \n" % e[1]) if e[0] == "n" else b"0000000000 65535 f \n"
                i = j + 1
            return t

        def xstream(ents, extra):
            xid = 900 + k
            pos = len(out)
            ents = dict(ents)
            ents[xid] = ("n", pos)
            nums = sorted(ents)
            index, data = [], b""
            i = 0
            while i < len(nums):
                j = i
                while j + 1 < len(nums) and nums[j + 1] == nums[j] + 1:
                    j += 1
                index += [nums[i], j - i + 1]
                for n in nums[i:j + 1]:
                    e = ents[n]
                    if e[0] == "n":
                        data += bytes([1]) + e[1].to_bytes(3, "big") + bytes([0])
                    elif e[0] == "o":
                        data += bytes([2]) + e[1].to_bytes(3, "big") + bytes([e[2]])
                    else:
                        data += bytes([0, 0, 0, 0, 0])
                i = j + 1
            d = dict(extra, Type="XRef", Index=index, W=[1, 3, 1])
            if rev.get("xref_fault"):
                d, data = rev["xref_fault"](d, data)
            return pos, _obj_bytes(xid, Stream(d, data))
        if form == "table":
            x = len(out)
            out += table(entries) + b"trailer" + eol + ser(trailer) + eol
        elif form == "stream":
            x, blob = xstream(entries, trailer)
            out += blob
        else:                            # hybrid: classic table for the uncompressed objects + XRefStm for the packed ones
            hidden = {n: e for n, e in entries.items() if e[0] == "o"}
            shown = {n: e for n, e in entries.items() if e[0] != "o"}
            sx, blob = xstream(hidden, {"Size": size})
            out += blob
            x = len(out)
            t2 = dict(trailer, XRefStm=sx)
            out += table(shown) + b"trailer" + eol + ser(t2) + eol
        out += b"startxref" + eol + b"%d" % x + eol + b"%%EOF" + eol
        prev = x
    return bytes(out)
