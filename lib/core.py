"""Common machinery: job model, parallel runner (one OS process per job), replay, known findings,
evidence writer, verdict/exit code policy.  See DESIGN.md sections 1.3-1.4.

Exit codes of ./check:  0 property held on everything explored (known findings are printed)
                        1 a counterexample was found AND reproduced on the unmodified real code
                        2 harness error: non-reproducing model, engine inconsistency, crash
"""
import hashlib
import importlib
import inspect
import json
import os
import subprocess
import sys
import time
import traceback
from fractions import Fraction

ROOT = os.path.dirname(os.path.dirname(os.path.abspath(__file__)))
PY = os.path.join(ROOT, ".venv", "bin", "python")
# VERIF_REPO=<dir>: a scratch checkout analysed instead of /repo (see ./check)
PYPATH = (os.environ["VERIF_REPO"] + os.pathsep if os.environ.get("VERIF_REPO") else "") + ROOT


# ----------------------------------------------------------------------------- helpers
def fn_id(f):
    """qualified name + sha256 of the *current* source of a function of /repo"""
    f = getattr(f, "__func__", f)
    if isinstance(f, property):
        f = f.fget
    try:
        src = inspect.getsource(f)
        sha = hashlib.sha256(src.encode()).hexdigest()[:16]
    except (OSError, TypeError):
        sha = "nosource"
    return "%s.%s@%s" % (getattr(f, "__module__", "?"), getattr(f, "__qualname__", repr(f)), sha)


def jsonable(x):
    if isinstance(x, Fraction):
        return {"frac": [x.numerator, x.denominator]}
    if isinstance(x, bytes):
        return {"hex": x.hex()}
    if isinstance(x, (list, tuple)):
        return [jsonable(v) for v in x]
    if isinstance(x, dict):
        return {str(k): jsonable(v) for k, v in x.items()}
    if isinstance(x, (set, frozenset)):
        return {"set": sorted(jsonable(v) for v in x)}
    if isinstance(x, (int, float, str, bool)) or x is None:
        return x
    return repr(x)


def unjson(x):
    if isinstance(x, dict):
        if set(x) == {"frac"}:
            return Fraction(x["frac"][0], x["frac"][1])
        if set(x) == {"hex"}:
            return bytes.fromhex(x["hex"])
        if set(x) == {"set"}:
            return set(unjson(v) for v in x["set"])
        return {k: unjson(v) for k, v in x.items()}
    if isinstance(x, list):
        return [unjson(v) for v in x]
    return x


def fl(x):
    """Fraction -> float (exact when dyadic)"""
    return float(x) if isinstance(x, Fraction) else x


SELFCHECK_PER_JOB = 2
FORCED = {}          # choice name -> value, set by replay_by_choices


def fresh_eval(module, func, arg, timeout=120):
    """evaluate harness.<module>.<func>(arg) in a NEW interpreter (JSON in, JSON out).  Used by history harnesses whose paths run one after the other in one process: a failure that only
    appears because of state left by earlier paths is re-tried as a self-contained history, so that the counterexample reported reproduces from a cold start"""
    import subprocess
    code = "import json,sys\nfrom harness import %s as M\nprint('RESULT ' + json.dumps(M.%s(json.loads(sys.argv[1]))))" % (module, func)
    env = dict(os.environ, PYTHONPATH=PYPATH, PYTHONHASHSEED="0")
    r = subprocess.run([sys.executable, "-c", code, json.dumps(arg)], capture_output=True, text=True, env=env, timeout=timeout, cwd=ROOT)
    for line in r.stdout.splitlines():
        if line.startswith("RESULT "):
            return json.loads(line[7:])
    raise RuntimeError("fresh_eval %s.%s failed: %s" % (module, func, r.stderr[-400:]))


def self_contained(module, func, arg, variants):
    """first of [arg] + variants that fails when evaluated from a cold start; returns (arg', message) or None"""
    for cand in [arg] + list(variants):
        m = fresh_eval(module, func, cand)
        if m is not None:
            return cand, m
    return None


def replay_by_choices(func, kwargs, choices):
    """replay of a harness whose only symbolic inputs are choices: re-run the harness function in this (fresh, unshimmed) process with every
    choice forced to the recorded value - a single concrete run of the real code.  Returns a description when the property fails again."""
    global FORCED
    FORCED = dict(choices or {})
    try:
        kw = dict(kwargs)
        kw.pop("part", None)
        r = func(**kw)
    finally:
        FORCED = {}
    if r["verdict"] == "counterexample":
        return "%s (choices %r)" % (r["cex"]["message"] if r.get("cex") else r.get("message"), choices)
    if r["verdict"] not in ("confirmed_all_paths",):
        raise RuntimeError("replay by choices inconclusive: %s %s" % (r["verdict"], r.get("message")))
    return None


class Job:
    def __init__(self, name, func, kwargs=None, timeout=300, harness=None):
        self.name = name              # unique within the property
        self.func = func              # name of a top-level function of the harness module
        self.kwargs = kwargs or {}
        self.timeout = timeout        # budget handed to the engine (seconds)
        self.harness = harness or name.split(":")[0]


def result(harness, engine, verdict, stats=None, bounds=None, functions=(), assumptions=(), samples=(), cex=None,
           message="", shims=None, extra=None):
    return {"harness": harness, "engine": engine, "verdict": verdict, "stats": stats or {}, "bounds": bounds or {},
            "functions": list(functions), "assumptions": list(assumptions), "samples": list(samples), "cex": cex,
            "message": message, "shims": shims or {}, "extra": extra or {}}


def _with_choices(concretize):
    import z3 as _z3

    def conc(m, info):
        out = concretize(m, info) if concretize is not None else {}
        if isinstance(out, dict):
            ch = {}
            for d in m.decls():
                v = m[d]
                if _z3.is_int_value(v):
                    ch[str(d)] = v.as_long()
            out = dict(out, _choices=ch)
        return out
    return conc


def run_symx(harness, fn, functions, bounds, timeout, assumptions=(), concretize=None, shims=None, logic=None,
             int_lo=-64, int_hi=64, max_paths=10**9, path_hook=None, engine="E2 symx", forced=None, part=None):
    """run one symx harness function to a result dict.  `concretize(model, info)` turns a model into
    JSON-able concrete inputs for the replay."""
    from engine import symx
    concretize = _with_choices(concretize)
    ex = symx.Explorer(timeout=timeout, logic=logic, int_lo=int_lo, int_hi=int_hi, max_paths=max_paths)
    selfcheck = []

    def hook(e):
        # concolic self-check material: for the first few completed paths, the path's model turned into concrete inputs
        if concretize is not None and e.last_info is not None and len(selfcheck) < SELFCHECK_PER_JOB and e.reached_flag:
            try:
                import z3 as _z3
                if e.s.check() == _z3.sat:
                    selfcheck.append(jsonable(concretize(e.s.model(), dict(e.last_info))))
            except BaseException:
                pass
        if path_hook is not None:
            path_hook(e)
    ex.path_hook = hook
    ex.forced = dict(forced or {}, **FORCED)
    t0 = time.time()
    try:
        verdict, info = ex.run(fn, share=tuple(part[:2]) if part else None, depth=(part[2] if part and len(part) > 2 else 9))
    except symx.Unsupported as u:           # raised outside a path
        verdict, info = "unsupported", {"message": str(u)}
    st = ex.stats()
    st["wall_s"] = round(time.time() - t0, 2)
    cex = None
    msg = info.get("message", "") if info else ""
    if verdict == "counterexample":
        if info.get("model") is None or concretize is None:
            verdict, msg = "inconclusive", "counterexample path without readable model: " + msg
        else:
            try:
                cex = {"message": msg, "inputs": jsonable(concretize(info["model"], info))}
            except symx.Unsupported as u:
                verdict, msg = "inconclusive", "model not concretisable: %s" % u
    v = {"confirmed": "confirmed_all_paths", "counterexample": "counterexample", "budget": "no_counterexample_budget_exhausted",
         "unsupported": "inconclusive", "inconclusive": "inconclusive"}[verdict]
    r = result(harness, engine, v, st, bounds, [fn_id(f) for f in functions], assumptions, ex.samples, cex, msg, shims)
    r["selfcheck_inputs"] = selfcheck
    return r


def merge(harness, parts):
    """combine the results of several explorer runs made inside one job"""
    order = ["harness_error", "counterexample", "inconclusive", "no_counterexample_budget_exhausted", "confirmed_all_paths"]
    worst = min(parts, key=lambda r: order.index(r["verdict"]))
    out = dict(worst)
    out["harness"] = harness
    st = {}
    for r in parts:
        for k, v in r.get("stats", {}).items():
            st[k] = round(st.get(k, 0) + v, 3) if isinstance(v, (int, float)) else v
    out["stats"] = st
    out["functions"] = sorted(set(f for r in parts for f in r.get("functions", [])))
    out["assumptions"] = sorted(set(a for r in parts for a in r.get("assumptions", [])))
    out["samples"] = [s for r in parts for s in r.get("samples", [])[:1]][:4]
    out["selfcheck_inputs"] = [x for r in parts for x in r.get("selfcheck_inputs", [])][:SELFCHECK_PER_JOB]
    out["extra"] = dict(worst.get("extra") or {}, runs=len(parts),
                        runs_confirmed=sum(1 for r in parts if r["verdict"] == "confirmed_all_paths"))
    if worst["verdict"] != "confirmed_all_paths" and not out.get("message"):
        out["message"] = worst.get("message", "")
    return out


# ----------------------------------------------------------------------------- subprocess entry
def _jobrun(argv):
    """python -m lib.core job <module> <func> <kwargs-json-file> <out-file>"""
    mode, modname, func, kwfile, outfile = argv
    sys.path.insert(0, ROOT)
    import logging
    logging.disable(logging.CRITICAL)
    kwargs = json.load(open(kwfile))
    t0 = time.time()
    try:
        mod = importlib.import_module(modname)
        if mode == "job":
            res = getattr(mod, func)(**kwargs)
        else:                                    # replay: func = harness name
            out = mod.replay(func, unjson(kwargs))
            if not out:
                # the symbolic run executes many paths in one process, the replay a single one in a fresh process: a defect that needs an earlier call to the same
                # code (state leaking through a module-level table, a cache, a mutable default) shows only on a second evaluation - so every replay is run twice
                out2 = mod.replay(func, unjson(kwargs))
                if out2:
                    out = "on the second evaluation in the same process: " + out2
            res = {"reproduced": bool(out), "detail": out or ""}
    except BaseException as e:                   # harness crash: reported as harness error
        res = {"harness": func, "verdict": "harness_error", "message": "%s: %s" % (type(e).__name__, e),
               "traceback": traceback.format_exc()[-3000:], "stats": {}, "functions": [], "samples": [], "cex": None,
               "bounds": {}, "assumptions": [], "engine": "?", "shims": {}, "extra": {}}
        if mode != "job":
            res = {"reproduced": False, "detail": "", "error": "%s: %s\n%s" % (type(e).__name__, e, traceback.format_exc()[-2000:])}
    res["proc_wall_s"] = round(time.time() - t0, 2)
    json.dump(res, open(outfile, "w"), default=repr)


def replay_in_subprocess(modname, harness, inputs, tmpdir, tag="r"):
    kw = os.path.join(tmpdir, "%s.in.json" % tag)
    out = os.path.join(tmpdir, "%s.out.json" % tag)
    json.dump(jsonable(inputs), open(kw, "w"))
    env = dict(os.environ, PYTHONPATH=PYPATH, PYTHONHASHSEED="0")
    try:
        subprocess.run([PY, "-m", "lib.core", "replay", modname, harness, kw, out], cwd=ROOT, env=env, timeout=600,
                       stdout=subprocess.DEVNULL, stderr=subprocess.PIPE)
        return json.load(open(out))
    except Exception as e:
        return {"reproduced": False, "error": repr(e)}


def run_jobs(modname, jobs, tmpdir, nproc=16, log=print):
    """run every job in its own process, nproc at a time; returns list of result dicts (job order)"""
    pending = list(enumerate(jobs))
    running = {}
    results = [None] * len(jobs)
    env = dict(os.environ, PYTHONPATH=PYPATH, PYTHONHASHSEED="0")
    while pending or running:
        while pending and len(running) < nproc:
            i, job = pending.pop(0)
            kw = os.path.join(tmpdir, "job%d.in.json" % i)
            out = os.path.join(tmpdir, "job%d.out.json" % i)
            kwargs = dict(job.kwargs)
            kwargs.setdefault("timeout", job.timeout)
            json.dump(kwargs, open(kw, "w"))
            err = open(os.path.join(tmpdir, "job%d.err" % i), "w")
            p = subprocess.Popen([PY, "-m", "lib.core", "job", modname, job.func, kw, out], cwd=ROOT, env=env,
                                 stdout=err, stderr=err)
            running[i] = (p, job, out, time.time(), err)
        time.sleep(0.05)
        for i in list(running):
            p, job, out, t0, err = running[i]
            hard = job.timeout * 1.5 + 60
            rc = p.poll()
            if rc is None and time.time() - t0 > hard:
                p.kill()
                p.wait()
                rc = -9
            if rc is None:
                continue
            err.close()
            del running[i]
            try:
                res = json.load(open(out))
            except Exception:
                tail = open(err.name).read()[-1500:]
                res = {"harness": job.harness, "verdict": "harness_error" if rc != -9 else "inconclusive",
                       "message": ("killed after hard timeout" if rc == -9 else "job process died rc=%s: %s" % (rc, tail)),
                       "stats": {}, "functions": [], "samples": [], "cex": None, "bounds": {}, "assumptions": [],
                       "engine": "?", "shims": {}, "extra": {}}
            res["job"] = job.name
            res["harness"] = job.harness
            results[i] = res
            log("  [%s] %-34s %-36s paths=%-6s queries=%-7s %5.1fs %s" % (
                time.strftime("%H:%M:%S"), job.name[:34], res["verdict"], res.get("stats", {}).get("paths", "-"),
                res.get("stats", {}).get("queries", "-"), time.time() - t0, (res.get("message") or "")[:100]))
    return results


if __name__ == "__main__":
    _jobrun(sys.argv[1:])
