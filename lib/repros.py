"""Concrete reproductions of the defects listed in known_findings.json.

Each function runs the *unmodified* real code from /repo on one concrete input and
returns a string describing the failure when the defect is present, or None when the
code behaves as the property demands.  Used (a) to show a defect before a `fix:`
commit and its absence afterwards, (b) by ./check to print KNOWN-FINDING lines for
entries that are still open, (c) to detect a fixed defect that returns.
"""
import io
import os
import sys


def _tokens(data, bufsiz):
    from pdfminer import psparser
    from pdfminer.psparser import PSBaseParser, PSEOF
    old = PSBaseParser.BUFSIZ
    PSBaseParser.BUFSIZ = bufsiz
    try:
        p = PSBaseParser(io.BytesIO(data))
        out = []
        try:
            while True:
                out.append(p.nexttoken())
        except PSEOF:
            pass
        return out
    finally:
        PSBaseParser.BUFSIZ = old


def F1():
    try:
        t = _tokens(b"(\\777)", 4096)
    except AssertionError as e:
        return "tokenizer raises AssertionError on (\\777): %s" % e
    if t != [(0, b"\xff")]:
        return "(\\777) read as %r, expected high-order overflow ignored -> \\xff" % (t,)


def F2():
    data = b"(a\\\r\nb)"
    a = _tokens(data, 4096)
    b = _tokens(data, 4)
    if a != b:
        return "(a\\CRLFb) tokens differ: BUFSIZ 4096 -> %r, BUFSIZ 4 -> %r" % (a, b)


def F3():
    t = _tokens(b"<901FA>", 4096)
    if t != [(0, b"\x90\x1f\xa0")]:
        return "<901FA> read as %r, ISO 7.3.4.3 says final digit assumed 0 -> 90 1F A0" % (t,)


def F4():
    from pdfminer.pdfdocument import PDFXRefStream
    x = PDFXRefStream()
    x.ranges = [(0, 1), (1, 1)]
    x.fl1, x.fl2, x.fl3 = 1, 1, 1
    x.entlen = 3
    x.data = bytes([0, 0, 0, 2, 9, 0])
    ids = list(x.get_objids())
    if ids != [1]:
        return "xref stream ranges [(0,1),(1,1)] types [0,2]: get_objids()=%r, expected [1]" % (ids,)


def F5():
    from pdfminer.utils import format_int_alpha
    if format_int_alpha(28) != "bb":
        return "format_int_alpha(28)=%r, ISO 12.4.2 says 'bb'" % format_int_alpha(28)


def F6():
    from pdfminer.utils import apply_png_predictor
    raw = bytes([1, 2, 3, 4])
    enc = bytes([2]) + raw  # Up filter on first row == raw
    try:
        out = apply_png_predictor(15, 2, 2, 8, enc)
    except Exception as e:
        return "apply_png_predictor(colors=2, columns=2) Up row: %r" % e
    if out != raw:
        return "apply_png_predictor(colors=2, columns=2) Up on first row -> %r, expected %r" % (out, raw)


def F7():
    from pdfminer.pdfpage import PDFPage
    import pdfminer.pdfpage as pp
    fn = os.path.join(os.path.dirname(os.path.dirname(pp.__file__)), "samples", "simple4.pdf")
    from pdfminer.high_level import extract_text
    # any document with >= 4 pages would do; build one through pdfgen instead
    from lib import pdfgen
    data = pdfgen.simple_pages(5)
    got = [p.pageid for p in PDFPage.get_pages(io.BytesIO(data), pagenos=[3], maxpages=1)]
    if got:
        return "get_pages(pagenos=[3], maxpages=1) yields %d page(s), expected none (index 3 is not below the limit)" % len(got)
