"""./check driver: python -m lib.main <Cnn> [--tier quick|thorough] [--replay file] [--only harness] [--jobs N]"""
import argparse
import hashlib
import importlib
import json
import os
import shutil
import sys
import tempfile
import time

from lib import core

ROOT = core.ROOT
LEVEL = "model_checking"


def load_known(pid):
    kf = json.load(open(os.path.join(ROOT, "known_findings.json")))
    return [f for f in kf.get("findings", []) if f["property"] == pid]


def main():
    ap = argparse.ArgumentParser()
    ap.add_argument("pid")
    ap.add_argument("--tier", default=os.environ.get("VERIF_TIER", "quick"), choices=["quick", "thorough"])
    ap.add_argument("--replay")
    ap.add_argument("--only", help="comma separated harness name prefixes")
    ap.add_argument("--jobs", type=int, default=int(os.environ.get("VERIF_JOBS", "16")))
    ap.add_argument("--no-evidence", action="store_true")
    a = ap.parse_args()
    pid = a.pid
    seed = int(os.environ.get("VERIF_SEED", "0") or 0)
    modname = "harness.%s" % pid
    mod = importlib.import_module(modname)
    t0 = time.time()
    tmpdir = tempfile.mkdtemp(prefix="verif-%s-" % pid)
    try:
        if a.replay:
            rec = json.load(open(a.replay))
            r = core.replay_in_subprocess(modname, rec["harness"], core.unjson(rec["inputs"]), tmpdir)
            print(json.dumps(r, indent=1))
            if r.get("reproduced"):
                print("VIOLATION property=%s replay=%s" % (pid, a.replay))
                return 1
            return 0 if "error" not in r else 2

        known = load_known(pid)
        exit_code = 0
        lines = []
        # 1. known findings: replay each witness on the real code
        known_status = []
        excl = {}
        for k in known:
            r = core.replay_in_subprocess(modname, k["harness"], core.unjson(k["witness"]), tmpdir, tag="kf-" + k["id"])
            if r.get("reproduced"):
                print("KNOWN-FINDING: property=%s %s [%s]" % (pid, k["what"], k["id"]))
                known_status.append({"id": k["id"], "still_present": True})
            else:
                print("note: known finding %s does not reproduce any more (%s)" % (k["id"], r.get("error", "behaves as the property demands")))
                known_status.append({"id": k["id"], "still_present": False})
            # the exclusion predicate stays assumed either way (it only narrows what is searched for this harness)
            for hn in (k["applies_to"] if "applies_to" in k else [k["harness"]]):
                excl.setdefault(hn, []).append(k["exclude"])

        # 2. run the harnesses
        jobs = mod.jobs(a.tier)
        if a.only:
            pre = tuple(a.only.split(","))
            jobs = [j for j in jobs if j.name.startswith(pre)]
        for j in jobs:
            ex_keys = excl.get(j.harness, []) + excl.get("*", [])
            if ex_keys:
                j.kwargs["exclude"] = ex_keys
        print("%s tier=%s: %d jobs on %d processes" % (pid, a.tier, len(jobs), a.jobs))
        results = core.run_jobs(modname, jobs, tmpdir, nproc=a.jobs)

        # 3. counterexamples: replay on the unmodified real code before reporting
        violations = 0
        harness_errors = 0
        os.makedirs(os.path.join(ROOT, "replays", pid), exist_ok=True)
        seen_cex = set()
        for res in results:
            if res["verdict"] == "harness_error":
                harness_errors += 1
                print("HARNESS-ERROR %s: %s" % (res.get("job"), res.get("message")))
                if res.get("traceback"):
                    print(res["traceback"])
            if res["verdict"] != "counterexample":
                continue
            inputs = res["cex"]["inputs"]
            blob = json.dumps({"harness": res["harness"], "inputs": inputs}, sort_keys=True)
            h = hashlib.sha1(blob.encode()).hexdigest()[:10]
            r = core.replay_in_subprocess(modname, res["harness"], core.unjson(inputs), tmpdir, tag="cex-" + h)
            res["replay"] = r
            if r.get("reproduced"):
                res["verdict"] = "counterexample_reproduced"
                path = os.path.join(ROOT, "replays", pid, "%s-%s.json" % (res["harness"].replace(":", "_"), h))
                json.dump({"property": pid, "harness": res["harness"], "job": res.get("job"), "inputs": inputs,
                           "message": res["cex"]["message"], "observed": r.get("detail"),
                           "replay_cmd": "./check %s --replay %s" % (pid, path)}, open(path, "w"), indent=1)
                if h not in seen_cex:
                    seen_cex.add(h)
                    violations += 1
                    print("  counterexample (%s): %s\n    inputs: %s\n    on the real code: %s" % (
                        res["job"], res["cex"]["message"], json.dumps(inputs)[:600], (r.get("detail") or "")[:600]))
                    lines.append("VIOLATION property=%s replay=%s" % (pid, path))
            else:
                res["verdict"] = "harness_error"
                res["message"] = "counterexample did not reproduce on the real code: %s | %s" % (res["cex"]["message"], r.get("error", ""))
                harness_errors += 1
                print("HARNESS-ERROR %s: model does not reproduce: %s inputs=%s %s" % (
                    res.get("job"), res["cex"]["message"], json.dumps(inputs)[:500], r.get("error", "")))

        # 4. concolic self-check: inputs taken from paths on which the property held are replayed on the unmodified real code
        #    (fresh process, no proxies, no shims); the concrete run must hold as well
        validated, mismatches = 0, 0
        todo = []
        for res in results:
            if res["verdict"] in ("confirmed_all_paths", "no_counterexample_budget_exhausted"):
                for inp in res.get("selfcheck_inputs", [])[:core.SELFCHECK_PER_JOB]:
                    todo.append((res, inp))
        todo = todo[: int(os.environ.get("VERIF_SELFCHECK_MAX", "24"))]
        for k, (res, inp) in enumerate(todo):
            r = core.replay_in_subprocess(modname, res["harness"], core.unjson(inp), tmpdir, tag="sc%d" % k)
            if r.get("reproduced") is False and "error" not in r:
                validated += 1
                res.setdefault("stats", {})["traces_validated"] = res.get("stats", {}).get("traces_validated", 0) + 1
            else:
                mismatches += 1
                print("SELF-CHECK note (%s): a path on which the property held symbolically does not replay cleanly: %s %s" % (
                    res.get("job"), (r.get("detail") or "")[:200], (r.get("error") or "")[:200]))
        print("self-check: %d sampled passing paths replayed on the real code, %d agree" % (len(todo), validated))
        wall = time.time() - t0
        if not a.no_evidence and not a.only:
            write_evidence(pid, a.tier, seed, mod, results, known_status, violations, harness_errors, wall)
        for l in lines:
            print(l)
        conf = sum(1 for r in results if r["verdict"] == "confirmed_all_paths")
        bud = sum(1 for r in results if r["verdict"] == "no_counterexample_budget_exhausted")
        inc = sum(1 for r in results if r["verdict"] == "inconclusive")
        print("%s: %d jobs: %d confirmed over all paths, %d budget-exhausted without counterexample, %d inconclusive, "
              "%d reproduced violations, %d harness errors; %.1f s" % (pid, len(results), conf, bud, inc, violations, harness_errors, wall))
        for r in results:
            if r["verdict"] in ("inconclusive", "no_counterexample_budget_exhausted"):
                print("  %s: %s %s" % (r.get("job"), r["verdict"], (r.get("message") or "")[:160]))
        if violations:
            return 1
        if harness_errors:
            return 2
        return 0
    finally:
        shutil.rmtree(tmpdir, ignore_errors=True)


def write_evidence(pid, tier, seed, mod, results, known_status, violations, harness_errors, wall):
    import z3
    tot = lambda k: sum(int(r.get("stats", {}).get(k, 0) or 0) for r in results)
    per = []
    funcs = set()
    assumptions = set(getattr(mod, "ASSUMPTIONS", []))
    samples = []
    for r in results:
        funcs.update(r.get("functions", []))
        assumptions.update(r.get("assumptions", []))
        per.append({"job": r.get("job"), "harness": r.get("harness"), "engine": r.get("engine"), "verdict": r["verdict"],
                    "bounds": r.get("bounds"), "stats": r.get("stats"), "message": (r.get("message") or "")[:300],
                    "shims": r.get("shims"), "extra": r.get("extra")})
        for s in r.get("samples", [])[:1]:
            if len(samples) < 12:
                samples.append({"job": r.get("job"), "path_model": s})
    if not samples:
        samples = [{"job": r.get("job"), "bounds": r.get("bounds")} for r in results[:3]]
    paths = tot("paths")
    conf = [r for r in results if r["verdict"] == "confirmed_all_paths"]
    cov = {
        "states": max(paths, 1),
        "transitions": max(tot("decisions"), 1),
        "traces_validated_against_impl": tot("traces_validated"),
        "samples": samples,
        "explanation": "bounded symbolic execution of the real functions: 'states' = feasible symbolic paths explored to the end "
                       "(each stands for every concrete input satisfying its path condition), 'transitions' = branch decisions taken, "
                       "'traces_validated_against_impl' = paths whose z3 model was re-run concretely on the unshimmed code and compared "
                       "(concolic self-check). Verdict per job in 'jobs'.",
        "paths": paths,
        "paths_reaching_assertion": tot("paths_reaching_assertion"),
        "solver_queries": tot("queries"),
        "solver_s": round(sum(float(r.get("stats", {}).get("solver_s", 0) or 0) for r in results), 2),
        "jobs_total": len(results),
        "jobs_confirmed_all_paths": len(conf),
        "jobs_budget_exhausted": sum(1 for r in results if r["verdict"] == "no_counterexample_budget_exhausted"),
        "jobs_inconclusive": sum(1 for r in results if r["verdict"] == "inconclusive"),
        "jobs_counterexample_reproduced": sum(1 for r in results if r["verdict"] == "counterexample_reproduced"),
        "harness_errors": harness_errors,
        "exhaustive": False,
        "functions_encoded": sorted(funcs),
        "engines": {"z3": z3.get_version_string(), "symx": "engine/symx.py", "crosshair": _ch_version()},
        "known_findings": known_status,
        "outside_claim": getattr(mod, "OUTSIDE", []),
        "jobs": per,
    }
    ev = {"property_id": pid, "tier": tier, "seed": seed, "level": LEVEL, "coverage": cov,
          "assumptions": sorted(assumptions), "wall_s": round(wall, 1), "violations": violations}
    os.makedirs(os.path.join(ROOT, "evidence"), exist_ok=True)
    json.dump(ev, open(os.path.join(ROOT, "evidence", "%s.json" % pid), "w"), indent=1, default=repr)


def _ch_version():
    try:
        from importlib.metadata import version
        return version("crosshair-tool")
    except Exception:
        return "?"


if __name__ == "__main__":
    sys.exit(main())
