"""Regenerate MANIFEST.json from the table below (python3 lib/gen_manifest.py)."""
import json, os
ROOT = os.path.dirname(os.path.dirname(os.path.abspath(__file__)))
BASE = "cd /repo && /venv/bin/python -m pytest -ra -q -p no:cacheprovider --timeout=900 --continue-on-collection-errors"
TRUST = ("Trusted base: z3 5.1.0, the symx executor and its proxies (engine/), the namespace/regex/`in` adaptations derived from the live "
         "source at run time, the reference oracles in the harness, real-number model of floats; CPython containers run natively. "
         "Every counterexample is replayed on the unmodified code before it is reported.")
CLAIMS = {
 "C20": ("bounded symbolic execution (symx over z3) of the real utils.mult_matrix/apply_matrix_*/translate_matrix and utils.Plane",
         "For all real-valued matrices, points and rectangles the affine laws hold (one z3 query each, unsat of the negation); apply_matrix_rect is the tight "
         "hull on all 121 paths, also for translations up to 2^40 (far beyond the library's INF sentinel); for every add/remove/find/iterate sequence within the bound and ALL real box/query coordinates in the stated window "
         "the real Plane (index bounds: squares at / around / off the origin and two rectangles with four different bounds) agrees with a brute-force list model, incl. insertion order under re-insertion (every add/remove sequence of 5 operations) and bulk insertion through extend() with lists, tuples, generators, iterators and maps. Bounded model checking of the real code: holds for every value inside the bounds, nothing is claimed outside.",
         "4.C20"),
}
CLAIMS.update({
 "C01": ("bounded symbolic execution (symx, symbolic bytes) of the real PDFStreamParser.nextobject() on the output of a reference writer",
         "For every string/name content of N symbolic bytes (all 256 values), every spelling the writer can choose (escapes, octal forms, line continuations, balanced "
         "parentheses, hex digit case/spacing, #xx), every number of the digit grammar, every listed structure with symbolic delimiters, and each listed read-buffer size, "
         "the real parser returns the written value; the solver finds no value/spelling/buffer size where it does not, apart from the three known findings; long objects (100..20000 elements) in varied spellings and every sequence of three names from a pool with high bytes and their UTF-8 look-alikes (read in one process: elements, identity, dictionary keys) read back as written. Bounded (N=2 quick, 3 thorough).",
         "4.C01"),
 "C03": ("bounded symbolic execution (symx) of the real predictor / RunLength / LZW bit reader / ASCIIHex / PDFStream.decode / PDFParser stream code against reference encoders",
         "For all sample bytes and all per-row PNG filter types within the listed geometries, all run partitions, all bit patterns, the real decoders invert the reference encoders; "
         "filter chains up to the bound apply decoders in order with their own parameters (decoders stubbed); payload delimitation holds for symbolic payload bytes; one LZWDecoder.feed step from every valid decoder state (table sizes at and around each code-width boundary, with / without a previous string) and a symbolic code follows the LZW specification (output, table growth, width switch, clear, end of data). Bounded; zlib/DCT/JBIG2 outside.",
         "4.C03"),
 "C14": ("bounded symbolic execution (symx, symbolic bytes) of the real PSBaseParser scanners and nexttoken() loop",
         "From every scanner state (with seeded partial tokens), for ALL byte strings of N symbolic bytes (256 values each) followed by end of input, the tokenizer raises nothing "
         "but PSEOF, yields positions that are monotone and inside the input, makes bounded progress, and gives the same token sequence for BUFSIZ 4096 and every smaller size. N=3 quick, 4 thorough. Beyond the symbolic bound: each of 23 lexical forms - a unit repeated inside one token, or a whole token (comment line, number, name, string, hex string, array, a mixture) - repeated 4095..70000 times (read-buffer size, interpreter stack depth, CPython's 4300-digit integer limit) at three buffer sizes, concrete.",
         "4.C14"),
})
CLAIMS["C04"] = ("bounded symbolic execution (symx) of the real PDFPage.get_pages / create_pages / __init__ and PDFPageInterpreter.process_page + begin_page",
         "For every page_numbers container (None, list, set of up to 3 symbolic ints) and every symbolic maxpages the pages returned are exactly the selected ones below the limit; for every "
         "tree of up to 3 (thorough 4) nodes with symbolic Kids (repeats, cycles), Type and placement (absent/direct/indirect, incl. falsy values) of each inheritable attribute the pages equal a "
         "pre-order DFS with nearest-ancestor inheritance; Rotate is normalised for every int; for every real MediaBox (with or without a CropBox inside it) and Rotate=90k+360t the page CTM is the clockwise rotation onto (0,0,W,H) and LTPage.bbox is that box; generated documents whose page tree is a chain of 1..120 nested nodes with 2 or 4 pages each give every page, in document order, with the nearest ancestor's box and rotation, also under page_numbers; in two-page runs (4 x 4 rotations, two boxes, four things page 1 leaves open, 0-2 surplus Q on page 2) every page's glyphs are mapped by its own Rotate and MediaBox, in one run and page by page.",
         "4.C04")
CLAIMS["C05"] = ("bounded symbolic execution (symx, real arithmetic) of the real PDFPageInterpreter.do_* text/graphics-state operators, PDFTextDevice.render_string*, render_char and LTChar against a reference interpreter of ISO 32000-1 9.3-9.4",
         "For every program BT Tf + K operators chosen symbolically from 22 (K=2 quick, 3 thorough) + Tj with ALL operands, font size and glyph widths symbolic reals, each glyph's matrix, advance, "
         "bounding box (axis-aligned case), font and fill colour equal the text model's (polynomial identities discharged by normalisation or by z3); spacing/scaling/rise with TJ adjustments, a form "
         "XObject with symbolic Matrix leaving the caller's state untouched, stream splitting, ill-typed operands, and every program of 3 colour / q / Q operators (g rg k G RG K cs CS sc scn SC SCN; fill and stroke colour of the next glyph) and a second page rendered by the same interpreter after every pair of twelve state-leaving fragments are covered by further harnesses. Bounded; floats as reals.",
         "4.C05")
CLAIMS["C16"] = ("bounded symbolic execution (symx, real arithmetic) of the real path-construction, painting, colour and q/Q/cm operators and PDFLayoutAnalyzer.paint_path against a reference model of ISO 32000-1 8.5",
         "For every program [q] state-op (w d G g RG rg K k cm, or a colour operator followed by sc/scn/SC/SCN) ; m|re + K construction operators chosen symbolically ; any painting operator ; [Q sc|SC] ; m l S, "
         "with ALL operands symbolic reals, each painted subpath yields one shape with the transformed end points in order, the right class (line / closed axis-aligned quadrilateral / curve), flags, line width, dash, "
         "colours at painting time, q/Q restoring them, and n leaving no residue; five-point subpaths with all coordinates symbolic are classified line / rectangle / curve correctly; X ; q ; Y ; paint ; Q ; paint for every pair of state operators restores every component (CTM, width, dash, colours, colour spaces); for every pair of pages, each with none or one named colour space in its resources, a name selects what the page's OWN resources define whatever was interpreted before (predefined table unchanged); m l [l] h followed by 0..2 further segments, with or without a second subpath, under closing and non-closing painting operators keeps every segment; a second page on the same interpreter after every pair of ten state-leaving fragments yields the shapes of a fresh interpreter. K=2 quick, 3 thorough; floats as reals.",
         "4.C16")
CLAIMS["C19"] = ("bounded symbolic execution (symx, symbolic pixels) of the real CCITTG4Parser coding steps, mode interpreter and ccittfaxdecode against the T.6 definitions and a reference T.6 encoder",
         "From every line state (all reference-line bits, a0, colour, coded prefix symbolic; W=8 quick, 10 thorough) one vertical / pass / horizontal step does what T.6 2.2 defines; for every bitmap of the bounded "
         "size (all pixels symbolic) and every admissible placement of a forced horizontal mode, with EncodedByteAlign/BlackIs1/EOFB as symbolic choices, decoding the reference encoder's output (mode level and bit "
         "level) returns the rows; long rows across the 64/2560 make-up boundaries and the code tables are covered by enumeration harnesses.",
         "4.C19")
CLAIMS["C08"] = ("bounded symbolic execution (symx, real arithmetic) of the real LTPage.analyze / group_objects / group_textlines / group_textboxes on real LTChar objects with symbolic boxes",
         "For every position of two fixed-size glyphs (quick; also two general glyphs, degenerate zero-width/height glyphs with ordinary/blank/empty text and three glyphs in thorough) plus a non-text item, under each "
         "listed LAParams vector (defaults, boxes_flow=None, detect_vertical, negative, ...), analysis terminates, every item occurs exactly once, every line/box/group box is the union of its members, lines end in a "
         "line break and are ordered inside boxes, boxes are numbered 0..n-1, container text is the concatenation; the lines-to-boxes stage alone (group_textlines + box.analyze) on 2 (3 thorough) one-glyph lines of either orientation: conservation, union, top-to-bottom / right-to-left order; two glyphs at fixed places (stacked or side by side) plus a third anywhere under five parameter vectors incl. detect_vertical: the same page-level clauses incl. numbering. One z3 formula per path; bounded.",
         "4.C08")
CLAIMS["C09"] = ("bounded symbolic execution (symx, real arithmetic) of the real group_objects / LTTextLine*.add / find_neighbors / analyze on two objects with symbolic boxes and symbolic LAParams",
         "For ALL box coordinates and ALL line_overlap in [0,1), char_margin, word_margin: two consecutive glyphs share a line exactly when they overlap vertically by more than line_overlap x min height and are "
         "closer than char_margin x max width, and a space is inserted exactly when the gap exceeds word_margin x size; the neighbour relation of two lines equals the documented close/same-size/aligned rule "
         "(both orientations); three left-aligned lines of sizes 10/20 at ALL heights are boxed exactly by the connected components of the (asymmetric) neighbour relation; a single column reads top to bottom and a left column before a right one for every boxes_flow in (-1,1) and None, a group hierarchy exists exactly for numeric boxes_flow, and three fixed paragraphs read in the order the documented weighting gives on either side of boxes_flow = 1/3; the layout of two glyphs is unchanged under scaling by 1/4..8.",
         "4.C09")
CLAIMS["C02"] = ("bounded symbolic execution (symx) of the real PDFXRefStream.get_pos/get_objids, PDFDocument.getobj/_getobj_objstm/read_xref_from/find_xref and PDFXRef.load",
         "For all /Index ranges (symbolic starts), field widths, ALL entry bytes and every object number the cross-reference stream decoding equals ISO 7.5.8; for every revision table (each object absent/direct/"
         "in an object stream, per revision) getobj returns the newest definition with caching on or off; for every Prev/XRefStm pointer graph (incl. cycles) sections load newest -> XRefStm -> Prev, each once; "
         "classic tables and startxref are read for every subsection partition, EOL form and buffer size (enumeration harnesses); a single-revision classic-table file whose startxref offset or table is unreadable (17 damages x 3 line-end styles x object bodies on their own line or on the obj line x endstream after an end-of-line or directly after the data x caching) is recovered by the body scan: every object, the catalog, the in-use numbers and the text. Tables that are readable but point to wrong offsets are not recovered by the library and not claimed.",
         "4.C02")
CLAIMS["C17"] = ("bounded symbolic execution (symx) of the real NumberTree, PageLabels.labels, format_int_roman/alpha, lookup_name/get_dest, get_outlines and decode_text",
         "Number trees with symbolic keys flatten sorted; format_int_roman equals the reference for every symbolic value 1..3999 (digits discovered by forking); page labels for every range/style/St/prefix "
         "choice within the bound, with settings.STRICT off and on, equal ISO 12.4.2 (alpha beyond 26 is a known finding); get_dest finds exactly the present keys in every tree shape with Limits and raises the not-found error otherwise; "
         "get_outlines yields every conforming forest of 4 items in pre-order with levels, terminates on any redirected Next/First pointer, and does not deepen the stack along sibling chains; decode_text gives the ISO 32000-1 Annex D.2 character for every defined PDFDocEncoding code, byte-wise, and UTF-16BE after a BOM.",
         "4.C17")
CLAIMS["C18"] = ("bounded symbolic execution (symx, symbolic bytes) of the real ImageWriter.export_image/_save_bmp/BMPWriter and PDFContentParser inline-image scanning",
         "For each listed geometry (1/8/24 bits, widths 1..9, heights 1..3) and ALL sample bytes the exported BMP, decoded by a reference BMP reader, gives back exactly the stored samples, with a file length "
         "matching its header; export_image chooses a writer without exception for every listed filter list / colour space / bit depth and writes JPEG data unchanged; for ALL inline image data of up to 4 symbolic "
         "bytes not containing the end marker the data is captured completely and the following operators are read as without the image, also when the image sits in a later stream of a Contents array (5 layouts of earlier streams); RGB / gray / 1-bit images (up to 52x50 noisy samples, so that LZW reaches 12-bit codes) stored through 14 real filter chains (Flate, LZW, RunLength, ASCIIHex, ASCII85, PNG predictors 10/12/15, TIFF predictor) give back their samples from LTImage.stream.get_data() and in the exported BMP; every sequence of up to 3 (thorough 4) images over four names and two formats exported into one real directory gives as many files as images, distinct names, each file holding its own samples.",
         "4.C18")
CLAIMS["C15"] = ("symbolic execution of the real CMapDB._load_data and ImageWriter._create_unique_image_name: CrossHair (symbolic str over all of Unicode, budgeted) plus symx (every name over an 8-letter hostile alphabet, exhaustive)",
         "With the filesystem replaced by a recording stub whose exists() answers are symbolic, every path that a CMap name makes the library probe or open lies directly inside one of the two character-map "
         "directories, and the path chosen for an exported image lies directly inside the output directory, was reported non-existing and is the unique first free candidate - confirmed over all paths for "
         "every name of length <= 4 over the alphabet '/', '.', NUL, backslash, letters, ':', '~', and for every name of length <= 7 over './a' with CMAP_PATH=/e/a/ (sibling directories such as ../aa/a), and with CMAP_PATH unset (the directories searched are absolute and the same as for a harmless name); image names of 200..5000 characters in seven shapes satisfy the same contract; the real extract_text_to_fp with output_dir, run under an audit hook with pre-seeded directories on generated documents (10 hostile image names x 10 image kinds x 5 hostile font /Encoding names), creates files only directly inside the output directory, changes no existing file and opens for reading only the library's own resources (real calls selected by symbolic choices); CrossHair searches names of length <= 5 over all code points within its time budget (no counterexample; not a confirmation).",
         "4.C15")
CLAIMS["C11"] = ("symbolic execution (symx; strings as symbolic choices over a hostile alphabet) of the real TextConverter / XMLConverter.receive_layout and utils.enc",
         "For every glyph text, font name and figure name of length <= 3 over an alphabet of XML-special, quote, control, non-ASCII and ordinary characters: the XML output parses with an independent XML parser and "
         "reproduces page, boxes, figure name, fonts, sizes and character data of the tree; the text output is the in-order concatenation with a line break per box and a form feed per page; a binary sink with each "
         "listed codec holds the same characters as a text sink; enc() round-trips through html.unescape without raw markup; with strip_control each of the 32 C0 controls and DEL inside a glyph text leaves well-formed XML; for every sequence of 3 items from nine kinds (boxes of both orientations, figures, shapes, image, a text line directly on the page) the XML has the tree's structure and the text output is the in-order text; extract_text_to_fp itself, on two generated documents sharing object numbers, for every output type / sink / codec / LAParams / page selection / strip_control / caching flag / call history equals the text and XML of layout trees built independently from the same bytes. Exhaustive over the alphabet bound (confirmed over all paths).",
         "4.C11")
CLAIMS["C06"] = ("symbolic execution (symx) of the real EncodingDB.get_encoding, name2unicode, PDFSimpleFont.to_unichr and PDFType1Font/PDFType3Font width handling",
         "For every Differences array of up to 3 items (codes and glyph names by symbolic choice) over each base encoding the result is the base table overlaid per ISO 9.6.6 and the shared tables are untouched; "
         "name2unicode equals the Adobe Glyph List algorithm on uni/u names with symbolic hex digits and on underscore/dot compositions; ToUnicode precedes the encoding, else (cid:N); for symbolic FirstChar, "
         "Widths, MissingWidth, code and Type 3 FontMatrix the advance is Widths[code-FirstChar] or MissingWidth scaled by the font matrix; init_resources on a Font dictionary of three fonts, each inline or indirect, in every order, caching on/off, gives every resource name the font of its own dictionary. Static tables (base encodings, glyph list, standard-14 metrics) are data, not claimed.",
         "4.C06")
CLAIMS["C07"] = ("symbolic execution (symx) of the real IdentityCMap(.Byte).decode, CMap.decode + FileCMap.add_code2cid, CMapParser.do_keyword (bfchar/bfrange), get_widths/get_widths2 and the CMapDB caches",
         "For all byte strings up to 5 symbolic bytes the identity CMaps give the big-endian 2-byte (1-byte) codes and ignore a trailing odd byte; for every subset of the listed 1- and 2-byte codes and every string "
         "of the bound the trie walk segments by first byte; bfchar / bfrange (increment and array forms) with symbolic code and target bytes register code s+i -> target+i per ISO 9.10.3; a code defined twice keeps the later definition (every ordered pair of nine targets; the library's space-then-NO-BREAK-SPACE rule excluded); W / W2 arrays in both "
         "syntaxes with symbolic codes and widths give exactly the listed code->width entries; the CMapDB caches return the right map for every 3-call history; char_width / char_disp of the real PDFCIDFont equal W/DW (W2/DW2) for symbolic widths incl. 0; "
         "TrueTypeFont.create_unicode_map on generated font files with a format-4 cmap of 1-3 segments, symbolic idDelta and glyphIdArray entries maps every code to the OpenType glyph. "
         "NOT claimed: the predefined CJK tables and the 'agrees with platform codecs' clause (static data), TrueType cmap formats 0 and 2.",
         "4.C07")
CLAIMS["C10"] = ("bounded symbolic execution (symx) of the security handlers: key derivation and password authentication (R2-R6) with md5/SHA/RC4/AES as z3 uninterpreted functions (equality of derived keys decided "
         "by congruence against ISO 32000-1 Algorithms 2-7 / ISO 32000-2 Algorithms 2.A, 2.B), and the plumbing around the primitives (init_params/is_*able, decipher_all + getobj, unpad_aes, per-object keys, V4 decrypt) with recording stubs",
         "PARTIAL by design: cipher/hash correctness (C code, XOR loops), rejection of wrong passwords (needs collision resistance) and the Unicode tables of SASLprep are NOT claimed (one real R5/R6 password pair with compatibility characters runs through H7). Claimed for all values within bounds: for R2, R3 (40/56/128-bit), R4 "
         "(EncryptMetadata on/off) every user and owner password of 0/1/33 symbolic bytes, every signed 32-bit P and symbolic ID derive exactly the Algorithm-2 file key and are accepted; R5/R6 authenticate recovers the file key from "
         "UE/OE for both passwords; _r6_password equals Algorithm 2.B for 64..66 rounds under 2 (quick) / 5 (thorough) SHA-selection patterns; permission flags equal bits 3,4,5 of every signed 32-bit P; every non-empty string leaf "
         "is deciphered exactly once with the enclosing (objid, genno) and object-stream members not at all, caching on or off; PKCS#5 padding of every length 1..16 is removed; per-object key material is key + objid[0:3] + genno[0:2] "
         "(+ sAlT) for symbolic objid/genno; EncryptMetadata=false bypasses exactly /Type /Metadata streams; end to end with the real primitives: documents enciphered by a reference encryptor written from the standards (six schemes, four password pairs, P, EncryptMetadata) open with either password to exactly the original strings, streams, text and permission flags, alone or before/after another encrypted document is opened or rejected, caching on/off, read twice, and two wrong passwords are rejected (grid of real runs selected by symbolic choices).",
         "4.C10")
CLAIMS["C13"] = ("symbolic execution (symx) of the typed accessors, tree/chain walkers and leaf decoders on symbolically chosen damaged values and symbolic bytes; single-fault sweep of a seed document through the real extract_text driven by symbolic choices",
         "PARTIAL by design (fault sequences over whole real documents are whole-program runs): for every reference graph over 3 objects (self-loops, cycles, dangling) and every value kind each accessor terminates "
         "within a look-up bound and raises only the library family; number-tree Kids cycles and object-stream containment cycles terminate; rldecode on ALL byte strings of <= 3 bytes, the predictors on every "
         "geometry incl. 0 and the ASCII/LZW/CCITT filters on corrupt payloads raise only the library family; every single fault (12 kinds at every key, nested entry and array element: 44 sites of an 8-object and 185 sites of a 24-object feature-rich seed document) and every truncation of both documents keeps "
         "extract_text inside the family, without hang or recursion exhaustion; the same document stored in an object stream + cross-reference stream: every truncation of both payloads and 49 ill-valued /N /First /W /Index /Size /Prev ... entries; every entry of an R2/R3/R4 encryption dictionary; 25 counts / ranges / sizes / offsets set to numbers far beyond the file (work stays within 5 s and 2 GiB); every token of a ToUnicode CMap program; every truncation and single-byte corruption of embedded TrueType / Type 1 font programs; /Prev offsets -8..+8 around a cross-reference section in one- and two-section files (work bounds are CPU time of the process, wall-clock backstop 60 s); page trees with shared or mutually cyclic nodes (chains with repeated kids, diamonds, cliques) stay within the work bound; every operand of a content stream that uses every operator kind replaced by a value of another type or removed, every inline-image entry replaced / removed / valueless / doubled. Each counterexample is replayed through extract_text on a generated PDF.",
         "4.C13")
CLAIMS["C12"] = ("symbolic execution (symx) of the operations that touch process-wide or cached state (get_encoding, use_cmap, interning, init_resources, get_font, resolve_all/decipher_all, CMapDB caches), plus small end-to-end call histories driven by symbolic choices",
         "PARTIAL by design: arbitrary histories and interleavings of extract_* calls are whole-program runs; the claim is reduced to frame conditions - each operation leaves the shared tables / the document's own "
         "dictionaries unchanged and returns what it returns in isolation, for every bounded history (Differences arrays, 3-call get_font histories over eight fonts - two sharing a descendant, two without /Encoding of which one recovers it from an embedded font program, two uses of standard-14 Helvetica with different Differences - with every EncodingDB table and the standard-14 metrics table compared before/after, encrypted-document histories (C10.H7) with caching on/off and double reads, 3-call CMapDB histories, a resource-less page after pages with fonts and forms, a three-font resource dictionary (each inline or indirect, every order) with caching on and off, "
         "2 earlier interns) - and checked end to end on every 3-call history over two documents that share object numbers and font names, with caching on/off, page-at-a-time vs together, and interleaved "
         "page iterators. The inventory of module/class-level mutable containers is recomputed from the AST on every run.",
         "4.C12")
NA = {}
def main():
    props = [json.loads(l) for l in open(os.path.join(ROOT, "properties.jsonl"))]
    checks, na = [], []
    for p in props:
        pid = p["id"]
        if pid in CLAIMS and os.path.exists(os.path.join(ROOT, "harness", pid + ".py")):
            tech, text, ref = CLAIMS[pid]
            checks.append({"property_id": pid, "quick_cmd": "./check %s --tier quick" % pid, "thorough_cmd": "./check %s --tier thorough" % pid,
                           "evidence_file": "/verif/evidence/%s.json" % pid, "replay_cmd_template": "./check %s --replay {path}" % pid,
                           "engine": "symx", "level_claimed": {"category": "model_checking", "text": text, "design_ref": ref},
                           "level_note": TRUST, "technique": tech})
        else:
            na.append({"property_id": pid, "reason": NA.get(pid, "harness not built yet in this session (planned in DESIGN.md section 4); no claim is made")})
    m = {"version": 1, "setup_cmd": "./setup.sh",
         "hooks": {"guard": "PDFMINER_SIX_VERIF", "enable": "none needed: all instrumentation is applied from the harness process (module-namespace shims, in-place recompiled functions); the guard variable is unused",
                   "baseline_off_cmd": BASE, "source_commits": [], "add_only": True},
         "engines": [{"name": "symx", "path": "/verif/engine", "serves_properties": [c["property_id"] for c in checks],
                      "kind_free_text": "decision-replay symbolic executor: real functions run on z3-backed proxies, one solver query per branch outcome, DFS over feasible paths"},
                     {"name": "crosshair", "path": "/verif/.venv/bin/crosshair", "serves_properties": [], "kind_free_text": "CrossHair 0.0.110 (second opinion on str/int harnesses)"}],
         "checks": checks, "not_applicable": na,
         "notes": "Exit codes of ./check: 0 held on everything explored, 1 reproduced violation, 2 harness error. See DESIGN.md."}
    json.dump(m, open(os.path.join(ROOT, "MANIFEST.json"), "w"), indent=1)
if __name__ == "__main__":
    main()
