"""reference ENCRYPTOR for the standard security handler (ISO 32000-1 7.6.3, Algorithms 1-5; ISO 32000-2 7.6.4.3 for revisions 5/6), written from the
standards: builds really encrypted documents from plain object tables.  Hashes come from hashlib, AES from `cryptography` (a dependency of the library
under test; cipher correctness is not what is checked), RC4 is spelled out here."""
import hashlib
import struct

from lib import pdfgen
from lib.pdfgen import Ref, Raw, Stream

PAD = b"(\xbfN^Nu\x8aAd\x00NV\xff\xfa\x01\x08..\x00\xb6\xd0h>\x80/\x0c\xa9\xfedSiz"
SCHEMES = ["rc4-40", "rc4-128", "v4-rc4", "v4-aes", "v5-r5", "v5-r6"]


def rc4(key, data):
    s = list(range(256))
    j = 0
    for i in range(256):
        j = (j + s[i] + key[i % len(key)]) % 256
        s[i], s[j] = s[j], s[i]
    i = j = 0
    out = bytearray()
    for c in data:
        i = (i + 1) % 256
        j = (j + s[i]) % 256
        s[i], s[j] = s[j], s[i]
        out.append(c ^ s[(s[i] + s[j]) % 256])
    return bytes(out)


def _aes_cbc(key, iv, data, pad=True):
    from cryptography.hazmat.primitives.ciphers import Cipher, algorithms, modes
    if pad:
        n = 16 - len(data) % 16
        data = data + bytes([n]) * n
    e = Cipher(algorithms.AES(key), modes.CBC(iv)).encryptor()
    return e.update(data) + e.finalize()


def _hash_2b(pw, salt, udata=b""):
    """ISO 32000-2 Algorithm 2.B"""
    k = hashlib.sha256(pw + salt + udata).digest()
    i = 0
    while True:
        k1 = (pw + k + udata) * 64
        e = _aes_cbc(k[:16], k[16:32], k1, pad=False)
        k = (hashlib.sha256, hashlib.sha384, hashlib.sha512)[int.from_bytes(e[:16], "big") % 3](e).digest()
        i += 1
        if i >= 64 and e[-1] <= i - 32:
            break
    return k[:32]


class Encryptor:
    def __init__(self, scheme, upw, opw, P=-44, docid=b"0123456789abcdef", encrypt_metadata=True, salts=b"", filekey=None):
        """upw/opw: password BYTES as the algorithms see them (padded/truncated here for R2-R4; at most 127 bytes of UTF-8 for R5/R6)"""
        self.scheme, self.P, self.docid, self.em = scheme, P, docid, encrypt_metadata
        self.rev = {"rc4-40": 2, "rc4-128": 3, "v4-rc4": 4, "v4-aes": 4, "v5-r5": 5, "v5-r6": 6}[scheme]
        self.n = 5 if scheme == "rc4-40" else 16
        self.ivc = 0
        if self.rev <= 4:
            self._legacy(upw, opw)
        else:
            self._v5(upw[:127], opw[:127], (salts + bytes(range(40, 72)))[:32], filekey or bytes(range(100, 132)))

    # ---- revisions 2-4
    def _legacy(self, upw, opw):
        rev, n = self.rev, self.n
        h = hashlib.md5(((opw or upw) + PAD)[:32]).digest()             # Algorithm 3
        if rev >= 3:
            for _ in range(50):
                h = hashlib.md5(h).digest()
        okey = h[:n]
        O = rc4(okey, (upw + PAD)[:32])
        if rev >= 3:
            for i in range(1, 20):
                O = rc4(bytes(c ^ i for c in okey), O)
        m = hashlib.md5((upw + PAD)[:32] + O + struct.pack("<I", self.P % 2 ** 32) + self.docid)    # Algorithm 2
        if rev >= 4 and not self.em:
            m.update(b"\xff\xff\xff\xff")
        key = m.digest()
        if rev >= 3:
            for _ in range(50):
                key = hashlib.md5(key[:n]).digest()
        self.key = key[:n]
        if rev == 2:                                                      # Algorithm 4
            U = rc4(self.key, PAD)
        else:                                                             # Algorithm 5
            x = rc4(self.key, hashlib.md5(PAD + self.docid).digest())
            for i in range(1, 20):
                x = rc4(bytes(c ^ i for c in self.key), x)
            U = x + b"\x00arbitrary pad.."[:16]
        d = {"Filter": "Standard", "V": {2: 1, 3: 2, 4: 4}[rev], "R": rev, "O": O, "U": U, "P": self.P, "Length": n * 8}
        if rev == 4:
            d.update({"CF": {"StdCF": {"CFM": "AESV2" if self.scheme == "v4-aes" else "V2", "AuthEvent": "DocOpen", "Length": 16}}, "StmF": "StdCF", "StrF": "StdCF"})
            if not self.em:
                d["EncryptMetadata"] = False
        self.dict = d

    # ---- revisions 5 and 6
    def _v5(self, upw, opw, salts, filekey):
        H = (lambda pw, salt, u=b"": hashlib.sha256(pw + salt + u).digest()) if self.rev == 5 else _hash_2b
        uvs, uks, ovs, oks = salts[0:8], salts[8:16], salts[16:24], salts[24:32]
        U = H(upw, uvs) + uvs + uks
        UE = _aes_cbc(H(upw, uks), bytes(16), filekey, pad=False)
        O = H(opw, ovs, U) + ovs + oks
        OE = _aes_cbc(H(opw, oks, U), bytes(16), filekey, pad=False)
        perms = struct.pack("<I", self.P % 2 ** 32) + b"\xff\xff\xff\xff" + (b"T" if self.em else b"F") + b"adb" + b"abcd"
        from cryptography.hazmat.primitives.ciphers import Cipher, algorithms, modes
        e = Cipher(algorithms.AES(filekey), modes.ECB()).encryptor()
        self.key = filekey
        d = {"Filter": "Standard", "V": 5, "R": self.rev, "O": O, "U": U, "OE": OE, "UE": UE, "P": self.P, "Perms": e.update(perms) + e.finalize(), "Length": 256,
             "CF": {"StdCF": {"CFM": "AESV3", "AuthEvent": "DocOpen", "Length": 32}}, "StmF": "StdCF", "StrF": "StdCF"}
        if not self.em:
            d["EncryptMetadata"] = False
        self.dict = d

    # ---- Algorithm 1 / 1.A
    def encrypt(self, objid, genno, data):
        if self.rev >= 5:
            self.ivc += 1
            iv = hashlib.md5(b"iv%d" % self.ivc).digest()
            return iv + _aes_cbc(self.key, iv, data)
        k = self.key + struct.pack("<I", objid)[:3] + struct.pack("<I", genno)[:2]
        if self.scheme == "v4-aes":
            k = hashlib.md5(k + b"sAlT").digest()[:min(self.n + 5, 16)]
            self.ivc += 1
            iv = hashlib.md5(b"iv%d" % self.ivc).digest()
            return iv + _aes_cbc(k, iv, data)
        return rc4(hashlib.md5(k).digest()[:min(self.n + 5, 16)], data)

    def _walk(self, objid, x, is_meta):
        if isinstance(x, bytes):
            return self.encrypt(objid, 0, x)
        if isinstance(x, list):
            return [self._walk(objid, v, is_meta) for v in x]
        if isinstance(x, dict):
            return {k: self._walk(objid, v, is_meta) for k, v in x.items()}
        if isinstance(x, Stream):
            d = {k: self._walk(objid, v, is_meta) for k, v in x.d.items()}
            if x.d.get("Type") == "XRef" or (not self.em and x.d.get("Type") == "Metadata"):
                return Stream(d, x.data)
            return Stream(d, self.encrypt(objid, 0, x.data))
        return x

    def document(self, objs, encobj=None):
        """the object table with every string and stream enciphered under its object number, plus the encryption dictionary as object `encobj`"""
        encobj = encobj or max(objs) + 1
        out = {n: self._walk(n, o, False) for n, o in objs.items()}
        out[encobj] = self.dict
        data = pdfgen.build(out)
        return data.replace(b"/Root 1 0 R", b"/Root 1 0 R /Encrypt %d 0 R /ID [<%s> <%s>]" % (encobj, self.docid.hex().encode(), self.docid.hex().encode()))
