#!/bin/bash
# tools/try_seed.sh <seed dir name> <check args...>: apply a seeded change to /repo, run the check, undo it straight afterwards
d=/verif/seeded/$1; shift
[ -z "$(git -C /repo status --porcelain)" ] || { echo "/repo not clean"; exit 3; }
git -C /repo apply $d/patch.diff || exit 3
trap 'git -C /repo checkout -- .' EXIT
cd /verif && ./check "$@" --no-evidence
echo "exit=$?"
