#!/bin/bash
# tools/try_seed_wt.sh <seed dir name> <check args...>: run a check against a scratch worktree of /repo with the seeded change applied
# (leaves /repo untouched, so it can run while other checks are in flight; the worktree is removed afterwards).
# The recorded catch tables were produced with tools/try_seed.sh (change applied to /repo's working tree and undone); this is the concurrent variant.
d=/verif/seeded/$1; id=$1; shift
wt=/tmp/seedwt/$id
mkdir -p /tmp/seedwt
git -C /repo worktree add --detach $wt HEAD -q || exit 3
trap 'git -C /repo worktree remove --force '$wt' 2>/dev/null; git -C /repo worktree prune' EXIT
git -C $wt apply $d/patch.diff || exit 3
cd /verif && VERIF_REPO=$wt ./check "$@" --no-evidence
echo "exit=$?"
