#!/bin/bash
# tools/try_revert.sh <repo commit> <check args...>: revert one fix: commit in the working tree of /repo, run the check, undo
c=$1; shift
[ -z "$(git -C /repo status --porcelain)" ] || { echo "/repo not clean"; exit 3; }
git -C /repo revert --no-commit $c >/dev/null 2>&1 || { git -C /repo revert --abort; echo "revert failed"; exit 3; }
trap 'git -C /repo revert --abort 2>/dev/null; git -C /repo checkout -- . ; git -C /repo status --short' EXIT
cd /verif && ./check "$@" --no-evidence
echo "exit=$?"
