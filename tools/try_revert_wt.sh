#!/bin/bash
# tools/try_revert_wt.sh <repo commit> <check args...>: revert one fix: commit in a scratch worktree of /repo and run the check against it (/repo untouched)
c=$1; shift
wt=/tmp/seedwt/rv-$c
mkdir -p /tmp/seedwt
git -C /repo worktree add --detach $wt HEAD -q || exit 3
trap 'git -C /repo worktree remove --force '$wt' 2>/dev/null; git -C /repo worktree prune' EXIT
git -C $wt revert --no-commit $c >/dev/null 2>&1 || { echo "revert failed"; exit 3; }
cd /verif && VERIF_REPO=$wt ./check "$@" --no-evidence
echo "exit=$?"
